#!/bin/sh
# usage: tools/mutate.sh <patch.diff> <Cxx> [<Cyy> ...]      (env TIER=quick|thorough)
# Applies a temporary mutation to /repo under an exclusive lock (no other check builds meanwhile),
# runs the named checks against it, and ALWAYS reverts the mutation.  Prints each check's exit code.
set -u
PATCH=$(readlink -f "$1"); shift
V=$(cd "$(dirname "$0")/.." && pwd)
mkdir -p "$V/work"
exec 9>"$V/work/repo.lock"
flock -x 9
cd /repo
if ! git apply --check "$PATCH"; then echo "patch does not apply"; exit 2; fi
git apply "$PATCH"
trap 'cd /repo && git apply -R "$PATCH" && echo "[mutate] reverted"' EXIT
cd "$V"
for c in "$@"; do
  VERIF_NOLOCK=1 ./check "$c" --tier "${TIER:-quick}" > "$V/work/mutate-$c.out" 2>&1
  rc=$?
  echo "[mutate] $c rc=$rc  (output: work/mutate-$c.out)"
  grep -E "^(VIOLATION|KNOWN-FINDING|TOOL-ERROR|OK|DIVERGENCE)" "$V/work/mutate-$c.out" | cut -c1-400 | head -8
done
