"""Shared pieces of the C39 / C40 checks (specs/Genesis.tla, harness h-genesis).

* shapes of generated source states; `world_sizes` asks the harness for the sizes of the 20 snapshot tables
* `enumerate_tlc` runs specs/Crash_Genesis.tla (all 26 import workers, worlds read from a file): model checks
  the real-size worlds under run_workers' sequential scheduling and returns the interruptions TLC printed
* walk builders, a parallel trace judge (several TLC processes over slices of one trace), violation keys
"""
import concurrent.futures
import hashlib
import json
import os
import subprocess

import vlib

# [slots, balances] per contract; "blocks" >= 1 (the exporter needs a latest block)
SHAPES = {
    # every table non-empty, fewer than 10 groups per table for every group size: workers run one after the other
    "small": {"coins": 2, "msgs": 1, "blobs": 1, "contracts": [[3, 1]], "blocks": 2, "st": 1, "ot": 1, "sm": 1, "old": 1},
    # two contracts whose slots span groups of size 2 and 3, several entries everywhere
    "medium": {"coins": 3, "msgs": 2, "blobs": 2, "contracts": [[3, 2], [2, 1]], "blocks": 3, "st": 2, "ot": 2, "sm": 1, "old": 2},
    # almost nothing: only the chain itself
    "bare": {"coins": 0, "msgs": 0, "blobs": 0, "contracts": [], "blocks": 1, "st": 0, "ot": 0, "sm": 0, "old": 0},
    # a contract without slots next to one with many; tables with >= 10 groups at group size 1 (those workers
    # run on blocking threads in parallel)
    "wide": {"coins": 12, "msgs": 3, "blobs": 1, "contracts": [[0, 0], [11, 4], [1, 0]], "blocks": 4, "st": 3, "ot": 1, "sm": 2, "old": 1},
    "large": {"coins": 25, "msgs": 12, "blobs": 5, "contracts": [[14, 3], [0, 2], [7, 0], [5, 5]], "blocks": 9, "st": 6, "ot": 5, "sm": 4, "old": 3},
}

PROP_TABLES = ["Coins", "Messages", "Blobs", "ContractsRawCode", "ContractsLatestUtxo", "ContractsState",
               "ContractsAssets", "ProcessedTransactions", "FuelBlockMerkleData", "FuelBlockMerkleMetadata"]


def world_sizes(hbin, shape):
    p = vlib.run_harness(hbin, ["shape", "--shape", json.dumps(shape)])
    return json.loads(p.stdout.strip().splitlines()[-1])


def write_worlds(path, hbin, combos):
    """combos: [(shape_name, enc, g)] -> worlds file for Crash_Genesis (one JSON record per line)."""
    cache = {}
    with open(path, "w") as f:
        for (sn, enc, g) in combos:
            if sn not in cache:
                cache[sn] = world_sizes(hbin, SHAPES[sn])
            f.write(json.dumps({"n": cache[sn]["n"], "h": cache[sn]["h"], "enc": enc, "g": g}) + "\n")
    return cache


def enumerate_tlc(rep, cfg, worlds_path, label, workers=4, timeout=3000):
    """Model check the worlds of `worlds_path` with all 26 workers; returns (TlcResult, distinct crash records)."""
    r = vlib.require_clean(vlib.tlc("Crash_Genesis", cfg, name=label, workers=workers, env={"WORLDS": worlds_path},
                                    timeout=timeout), label)
    rep.add_mc(r, label)
    seen = set()
    out = []
    for c in r.printed("CRASH"):
        k = vlib.canon({x: c[x] for x in ("w", "kind", "m", "i", "pt")})
        if k not in seen:
            seen.add(k)
            out.append(c)
    return r, out


def export_step(shape_name, enc, g, db="mem"):
    return {"a": "Export", "shape": SHAPES[shape_name], "enc": enc, "g": g, "db": db}


def run_step(c=None, tries=1):
    if c is None or c.get("kind") in (None, "none", "drop"):
        s = {"a": "Run", "kind": "none"}
    else:
        s = {"a": "Run", "kind": c["kind"], "m": c["m"], "i": c["i"], "pt": c["pt"]}
    if tries > 1:
        s["tries"] = tries
    return s


FINISH = [{"a": "CommitBlock"}, {"a": "ClearOffChain"}]


def plain_walk(shape_name, enc, g, db="mem"):
    """C39: export, uninterrupted import, genesis block."""
    return [export_step(shape_name, enc, g, db), run_step()] + FINISH


def crash_walk(shape_name, enc, g, crashes, db="mem"):
    """C40: export, reference import, one run per interruption, then restarts until the import completes."""
    steps = [export_step(shape_name, enc, g, db), {"a": "Reference"}]
    for c in crashes:
        if c["kind"] == "drop":
            steps += [run_step(None, tries=3), {"a": "DropResult"}]
        else:
            steps.append(run_step(c))
    steps.append(run_step(None, tries=3))
    return steps + FINISH


def _merge(rep, v, name, key_fn):
    rep.traces += v.accepted
    rep.extra["trace_events"] = rep.extra.get("trace_events", 0) + v.events
    for (lines, at, info) in v.divergent:
        p = vlib.save_replay(rep.prop, "divergent-%s-%d.ndjson" % (name, len(rep.divergences)), lines)
        rep.divergences.append("%s: %s (trace %s)" % (name, info, p))
    for (lines, names, tail) in v.violations:
        key = key_fn(lines, names) if key_fn else vlib.default_key(lines, names)
        h = hashlib.sha1(key.encode()).hexdigest()[:10]
        p = vlib.save_replay(rep.prop, "violation-%s-%s.ndjson" % (name, h), lines)
        rep.violation(key, p, "violated on the implementation's recorded states: %s\n  key: %s" % (
            names, key if len(key) < 600 else key[:300] + " ... " + key[-280:]))


def judge_parallel(rep, module, cfg, trace_path, *, name, key_fn, parts=8, timeout=1800):
    """rep.judge_trace over `parts` slices of the trace, each validated by its own TLC process."""
    walks = vlib.split_trace(trace_path)
    if not walks:
        raise vlib.ToolError("empty trace " + trace_path)
    parts = max(1, min(parts, len(walks)))
    d = os.path.dirname(trace_path)
    files = []
    for k in range(parts):
        sl = walks[k::parts]
        p = os.path.join(d, "%s-part%d.ndjson" % (name, k))
        with open(p, "w") as f:
            for w in sl:
                f.write("\n".join(w) + "\n")
        files.append(p)
    with concurrent.futures.ThreadPoolExecutor(max_workers=parts) as ex:
        futs = [ex.submit(vlib.validate_trace, module, cfg, p, name="%s-p%d" % (name, k), timeout=timeout)
                for k, p in enumerate(files)]
        res = [f.result() for f in futs]
    for v in res:
        _merge(rep, v, name, key_fn)
    return res


def _events(lines):
    out = []
    for ln in lines:
        try:
            out.append(json.loads(ln))
        except Exception:
            pass
    return out


def key_c39(lines, names):
    """names :: encoding/group size :: which property tables differ from the source and how."""
    evs = _events(lines)
    exp = next((e for e in evs if e.get("ev") == "Export"), {})
    n = exp.get("n", {})
    end = None
    for e in evs:
        if e.get("ev") == "End" and e.get("res") == "Ok":
            end = e
    diff = []
    if end:
        for t in PROP_TABLES:
            have = sorted(end["tabs"].get(t, []))
            want = list(range(1, n.get(t, 0) + 1))
            if have != want:
                diff.append("%s:%s" % (t, "lost" if not have else "have%s" % have))
    hs = [e.get("h") for e in evs if e.get("ev") == "CommitBlock"]
    if hs and hs[-1] != exp.get("h", -1) + 1:
        diff.append("height:%s/src=%s" % (hs[-1], exp.get("h")))
    return "%s :: enc=%s :: diff=%s" % (",".join(sorted(set(names))), exp.get("enc"), ",".join(diff))


def key_c40(lines, names):
    """names :: encoding, group size :: the interruptions of the walk in order."""
    evs = _events(lines)
    exp = next((e for e in evs if e.get("ev") == "Export"), {})
    ints = []
    for e in evs:
        if e.get("ev") in ("Fail", "Cancel"):
            ints.append("%s(%s,%s,%s)" % (e["ev"].lower(), e.get("m"), e.get("i"), e.get("pt")))
        elif e.get("ev") == "DropResult":
            ints.append("drop")
    return "%s :: enc=%s g=%s :: interruptions=%s" % (",".join(sorted(set(names))), exp.get("enc"), exp.get("g"), ";".join(ints))
