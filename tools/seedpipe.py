#!/usr/bin/env python3
"""usage: tools/seedpipe.py <Cxx> <worktree> <seed-dir> [--checks Cxx,Cyy] [--n N] [--skip-demo]
Confirms a seeded change (demo passes without / fails with the patch, in the scratch worktree), runs the
registered check(s) against the patched worktree (tools/seedrun.sh) and archives everything under
/verif/seeded/<Cxx>-<n>/ with the outcome in meta.json."""
import json, os, shutil, subprocess, sys, glob

V = os.path.dirname(os.path.dirname(os.path.abspath(__file__)))
prop, wt, sd = sys.argv[1], sys.argv[2], sys.argv[3]
checks = [prop]
n = None
skip_demo = False
a = sys.argv[4:]
while a:
    if a[0] == "--checks": checks = a[1].split(","); a = a[2:]
    elif a[0] == "--n": n = int(a[1]); a = a[2:]
    elif a[0] == "--skip-demo": skip_demo = True; a = a[1:]
    else: a = a[1:]
meta = json.load(open(os.path.join(sd, "meta.json")))
res = {}
def sh(cmd, **kw):
    return subprocess.run(cmd, shell=True, stdout=subprocess.PIPE, stderr=subprocess.STDOUT, text=True, **kw)
if not skip_demo:
    dest = meta.get("demo_dest"); crate = meta.get("demo_crate"); test = meta.get("demo_test", ""); extra = meta.get("demo_cargo_args", "") or ""
    if not (dest and crate):
        print("meta.json lacks demo_dest/demo_crate; use --skip-demo after verifying by hand"); sys.exit(2)
    sh("git checkout -q -- .", cwd=wt)
    os.makedirs(os.path.dirname(os.path.join(wt, dest)), exist_ok=True)
    srcs = [f for f in glob.glob(os.path.join(sd, "demo", "*.rs"))]
    src = [f for f in srcs if os.path.basename(f) == os.path.basename(dest)] or srcs
    shutil.copy(src[0], os.path.join(wt, dest))
    test = test.replace("--test ", "").strip()
    sel = ("--test %s" % test) if (test and "/tests/" in dest and "/src/" not in dest) else test
    if meta.get("demo_append"):
        f, line = meta["demo_append"]
        with open(os.path.join(wt, f), "a") as fh:
            fh.write("\n" + line + "\n")
    cmd = "CARGO_TARGET_DIR=%s cargo test --offline -p %s %s %s" % (os.environ.get("SEED_TARGET", "/tmp/tgt-seed"), crate, extra, sel)
    # the shared seed target dir aliases the same crate across worktrees (cargo freshness is mtime based):
    # touch every source of the crate(s) involved so that each run rebuilds from THIS worktree
    def touch():
        dirs = {os.path.join(wt, dest).split("/tests/")[0].split("/src/")[0]}
        for line in open(os.path.join(sd, "patch.diff")):
            if line.startswith("+++ b/"):
                f = line[6:].strip()
                dirs.add(os.path.join(wt, f).split("/src/")[0])
        for d in dirs:
            sh("find %s -name '*.rs' -exec touch {} +" % d)
    touch()
    r0 = sh(cmd, cwd=wt)
    sh("git apply %s/patch.diff" % sd, cwd=wt)
    touch()
    r1 = sh(cmd, cwd=wt)
    sh("git apply -R %s/patch.diff" % sd, cwd=wt)
    sh("git checkout -q -- . && git clean -fdq crates", cwd=wt)
    res["demo"] = {"cmd": cmd, "without_patch_rc": r0.returncode, "with_patch_rc": r1.returncode}
    print("demo: without rc=%d with rc=%d" % (r0.returncode, r1.returncode))
    if r0.returncode != 0 or r1.returncode == 0:
        open(os.path.join(sd, "demo-without.log"), "w").write(r0.stdout); open(os.path.join(sd, "demo-with.log"), "w").write(r1.stdout)
        print("DEMO NOT CONFIRMED (logs in %s)" % sd)
r = sh("%s/tools/seedrun.sh %s %s/patch.diff %s" % (V, wt, sd, " ".join(checks)))
print(r.stdout[-1500:])
caught = {}
for c in checks:
    out = open(os.path.join(wt, ".verif-scratch", c + ".out")).read() if os.path.exists(os.path.join(wt, ".verif-scratch", c + ".out")) else ""
    caught[c] = "VIOLATION" if "VIOLATION property=" in out else ("TOOL-ERROR" if "TOOL-ERROR" in out else ("DIVERGENCE-only" if "DIVERGENCE" in out else "missed"))
res["checks"] = caught
if n is None:
    n = 1
    while os.path.exists(os.path.join(V, "seeded", "%s-%d" % (prop, n))): n += 1
d = os.path.join(V, "seeded", "%s-%d" % (prop, n))
os.makedirs(d, exist_ok=True)
shutil.copy(os.path.join(sd, "patch.diff"), d)
if os.path.exists(os.path.join(d, "demo")): shutil.rmtree(d + "/demo")
shutil.copytree(os.path.join(sd, "demo"), os.path.join(d, "demo"))
meta["confirmed_by_coordinator"] = res
meta["result"] = "caught" if any(v == "VIOLATION" for v in caught.values()) else "MISSED"
json.dump(meta, open(os.path.join(d, "meta.json"), "w"), indent=1)
print("archived %s result=%s %s" % (d, meta["result"], caught))
