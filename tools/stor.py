"""Helpers shared by checks C10 / C13 / C14 (storage): parallel edge-cover planning over several small
Edges configs, parallel trace judging in chunks, TLC -simulate behaviours as walks, self-test."""
import glob
import json
import os
import re
from concurrent.futures import ThreadPoolExecutor

import vlib


def harness_bin():
    """h-storage built from /repo's current tree.  H_STORAGE_BIN (development only) names an already built
    binary and skips the build under the shared cargo target lock."""
    if os.environ.get("H_STORAGE_BIN"):
        return os.environ["H_STORAGE_BIN"]
    return os.path.join(vlib.cargo_build("h-storage"), "h-storage")


def edge_walks_multi(module, cfgs, rep=None, workers=4):
    """Run TLC once per Edges config (in parallel), return (walks, n_edges, per_cfg_info).
    The initial state is the source of the first printed edge (BFS starts at Init; Init may be
    re-entered, e.g. Begin then Drop)."""
    def one(cfg):
        r = vlib.require_clean(vlib.tlc(module, cfg, workers=1), "edges " + cfg)
        edges = r.printed("EDGE")
        if not edges:
            raise vlib.ToolError("no edges emitted by %s" % cfg)
        walks = vlib.edge_walks(edges, init_key=vlib.canon(edges[0]["src"]))
        acts = sorted({e["act"]["name"] for e in edges})
        return cfg, len(edges), walks, r, acts

    with ThreadPoolExecutor(max_workers=workers) as ex:
        res = list(ex.map(one, cfgs))
    walks, info, total = [], {}, 0
    for cfg, n, w, r, acts in res:
        walks += w
        total += n
        info[cfg] = {"edges": n, "walks": len(w), "states": r.distinct, "actions": acts}
        if rep is not None:
            rep.add_mc(r, cfg)
    return walks, total, info


def judge_chunks(rep, module, cfg, trace_path, name, parts=4, key_fn=None, timeout=1800):
    """Split a concatenated trace into `parts` files (whole walks) and judge them in parallel."""
    walks = vlib.split_trace(trace_path)
    if not walks:
        raise vlib.ToolError("empty trace " + trace_path)
    parts = max(1, min(parts, len(walks)))
    total = sum(len(w) for w in walks)
    files, cur, cur_n, idx = [], [], 0, 0
    target = total / parts
    for w in walks:
        cur.append(w)
        cur_n += len(w)
        if cur_n >= target and len(files) < parts - 1:
            files.append(cur)
            cur, cur_n = [], 0
    if cur:
        files.append(cur)
    paths = []
    for i, ws in enumerate(files):
        p = "%s.part%d" % (trace_path, i)
        with open(p, "w") as f:
            for w in ws:
                f.write("\n".join(w) + "\n")
        paths.append(p)

    def one(i):
        return rep.judge_trace(module, cfg, paths[i], name="%s-p%d" % (name, i), key_fn=key_fn, timeout=timeout)

    with ThreadPoolExecutor(max_workers=len(paths)) as ex:
        return list(ex.map(one, range(len(paths))))


_HDR = re.compile(r"^\\\* <(\w+)(?:\((.*)\))? line \d+")


def _split_args(s):
    """split 'a,<<1, 2>>,"F"' on top-level commas"""
    out, depth, cur = [], 0, ""
    i = 0
    while i < len(s):
        if s.startswith("<<", i):
            depth += 1
            cur += "<<"
            i += 2
            continue
        if s.startswith(">>", i):
            depth -= 1
            cur += ">>"
            i += 2
            continue
        ch = s[i]
        if ch == "," and depth == 0:
            out.append(cur.strip())
            cur = ""
        else:
            cur += ch
        i += 1
    if cur.strip():
        out.append(cur.strip())
    return out


def _val(tok):
    tok = tok.strip()
    if tok.startswith("<<"):
        inner = tok[2:-2].strip()
        return [_val(x) for x in _split_args(inner)] if inner else []
    if tok.startswith('"'):
        return tok.strip('"')
    if tok in ("TRUE", "FALSE"):
        return tok == "TRUE"
    return int(tok)


def simulate_walks(module, cfg, argmap, num, depth, name):
    """Behaviours of `tlc -simulate file=..`: the comment line above every state names the action and
    its arguments; argmap: action name -> function(list of parsed args) -> dict of step fields."""
    md = vlib.workdir("sim-" + name)
    prefix = os.path.join(md, "tr")
    r = vlib.tlc(module, cfg, name="sim-" + name + "-tlc", workers=1, simulate=None,
                 extra=["-simulate", "file=%s,num=%d" % (prefix, num), "-depth", str(depth), "-seed", str(vlib.seed() + 1)])
    vlib.require_clean(r, "simulate " + cfg)
    walks = []
    for p in sorted(glob.glob(prefix + "_*")):
        steps = []
        for line in open(p):
            m = _HDR.match(line)
            if not m or m.group(1) == "Init":
                continue
            a = m.group(1)
            args = [_val(x) for x in _split_args(m.group(2))] if m.group(2) else []
            if a not in argmap:
                raise vlib.ToolError("simulate_walks: unknown action %s in %s" % (a, p))
            st = {"a": a}
            st.update(argmap[a](args))
            steps.append(st)
        if steps:
            walks.append(steps)
    if not walks:
        raise vlib.ToolError("no simulated behaviours (%s)" % cfg)
    return walks, r


def selftest_corrupt(module, cfg, trace_path, name, mutate, max_events=80, expect_violation=True):
    """Binding is not vacuous: corrupt one logged field of one walk (mutate(list_of_event_dicts) -> bool)
    and require that TLC does not accept it (and, when expect_violation, judges it a violation)."""
    for w in vlib.split_trace(trace_path):
        if len(w) > max_events:
            w = w[:max_events]
        evs = [json.loads(x) for x in w]
        if not mutate(evs):
            continue
        lines = [w[0]] + [json.dumps(e, separators=(",", ":")) for e in evs[1:]]
        # keep "ev" first (walk splitting relies on the reset prefix only)
        p = os.path.join(os.path.dirname(trace_path), name + ".ndjson")
        open(p, "w").write("\n".join(lines) + "\n")
        v = vlib.validate_trace(module, cfg, p, name=name)
        if v.accepted or (expect_violation and not v.violations):
            raise vlib.ToolError("self-test %s: corrupted trace was accepted / not judged a violation" % name)
        return "corrupted trace rejected" + (" and judged a violation (%s)" % ",".join(v.violations[0][1]) if v.violations else "")
    raise vlib.ToolError("self-test %s: no event to corrupt" % name)
