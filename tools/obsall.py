"""Helper for C31/C32: vlib.validate_trace stops after `max_divergent` rejected walks, so a change that makes
many walks diverge benignly could hide a violating walk further on.  When a trace produced divergences,
judge the WHOLE trace once more in observe mode (state bound to the implementation's records, only the
invariants / action properties decide) and register the first violation found."""
import hashlib
import re
import vlib


def observe_all(rep, module, cfg, trace_path, *, name, key_fn, timeout=3000):
    r = vlib.tlc(module, cfg, name=name + "-observe-all", workers=1, xmx="6g", xss="1g", deque_queue=True,
                 env={"TRACE": trace_path, "STRICT": "0"}, timeout=timeout)
    if not r.violated:
        if r.tool_error or not re.search(r'"TRACE-ACCEPTED"', r.out):
            raise vlib.ToolError("observe-all run failed (%s)\n%s" % (name, "\n".join(r.out.splitlines()[-20:])))
        return False
    ls = re.findall(r"/\\ l = (\d+)", r.out)
    if not ls:
        raise vlib.ToolError("observe-all: cannot locate the violating event")
    l = int(ls[-1])                       # next event to consume; the violating step consumed event l-1
    walks = vlib.split_trace(trace_path)
    pos = 0
    for w in walks:
        if pos + len(w) >= l - 1:
            bad = w[:max(2, l - 1 - pos)]
            key = key_fn(bad, r.violated)
            h = hashlib.sha1(key.encode()).hexdigest()[:10]
            p = vlib.save_replay(rep.prop, "violation-%s-%s.ndjson" % (name, h), bad)
            rep.violation(key, p, "violated on the implementation's recorded states: %s\n  key: %s" % (r.violated, key[:500]))
            return True
        pos += len(w)
    raise vlib.ToolError("observe-all: violating event beyond the trace")
