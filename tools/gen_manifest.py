#!/usr/bin/env python3
"""Regenerate /verif/MANIFEST.json from checks/registry.json (one entry per claimed property) and
properties.jsonl (everything not claimed goes to not_applicable with its reason from registry 'na')."""
import json
import os
import subprocess

V = os.path.dirname(os.path.dirname(os.path.abspath(__file__)))
reg = json.load(open(os.path.join(V, "checks", "registry.json")))
import glob
for f in sorted(glob.glob(os.path.join(V, "checks", "registry.d", "*.json"))):
    frag = json.load(open(f))
    reg["checks"].update(frag.get("checks", {}))
    reg.setdefault("na", {}).update(frag.get("na", {}))
props = [json.loads(l) for l in open(os.path.join(V, "properties.jsonl"))]
checks = []
na = []
for p in props:
    pid = p["id"]
    e = reg["checks"].get(pid)
    if e and pid in reg.get("ready", []) and os.path.exists(os.path.join(V, "checks", pid + ".py")):
        c = {
            "property_id": pid,
            "quick_cmd": "./check %s --tier quick" % pid,
            "thorough_cmd": "./check %s --tier thorough" % pid,
            "evidence_file": "/verif/evidence/%s.json" % pid,
            "replay_cmd_template": "./check %s --replay {path}" % pid,
            "engine": e.get("engine", "tlc+harness"),
            "level_claimed": {"category": e.get("level", "model_checking"), "text": e["text"],
                              "design_ref": e.get("design_ref", "DESIGN.md section 6")},
            "level_note": e["note"],
            "technique": e.get("technique", "TLA+ spec model-checked with TLC; implementation traces validated against the spec by TLC"),
        }
        checks.append(c)
    else:
        na.append({"property_id": pid, "reason": reg.get("na", {}).get(pid, "check not built yet (work in progress; planned in DESIGN.md section 6)")})
try:
    commits = subprocess.run(["git", "-C", "/repo", "log", "--format=%H %s", "--grep=^verif hook"], stdout=subprocess.PIPE,
                             text=True).stdout.strip().splitlines()
except Exception:
    commits = []
m = {
    "version": 1,
    "setup_cmd": reg["setup_cmd"],
    "hooks": {
        "guard": "verif",
        "enable": "cargo feature `verif` of the hooked crates, switched on by the harness crates' path dependencies (features = [\"verif\"])",
        "baseline_off_cmd": "cd /repo && cargo nextest run --workspace --no-fail-fast --tool-config-file pb:/w/lib/nextest.toml --profile pb --test-threads 8 --offline",
        "source_commits": [c.split()[0] for c in commits],
        "add_only": True,
    },
    "engines": reg.get("engines", []),
    "checks": checks,
    "notes": reg.get("notes", ""),
    "not_applicable": na,
}
json.dump(m, open(os.path.join(V, "MANIFEST.json"), "w"), indent=1)
print("MANIFEST: %d checks, %d not_applicable" % (len(checks), len(na)))
