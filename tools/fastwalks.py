"""Linear-time edge-cover planner (used by C31; same contract as vlib.edge_walks).
Every edge of the reachable graph is put on at least one walk from the initial state:
a walk = shortest path (BFS tree, computed once) to a state that still has an uncovered out-edge,
then uncovered edges are followed greedily; when the current state has none left, a bounded BFS
looks for a near state that has one, otherwise the walk ends."""
from collections import defaultdict, deque
import vlib


def edge_walks(edges, max_len=300, hop=4, strip=("res",)):
    ids = {}
    names = []

    def sid(x):
        k = vlib.canon(x)
        if k not in ids:
            ids[k] = len(names)
            names.append(k)
        return ids[k]

    succ = defaultdict(list)
    has_in = set()
    for e in edges:
        s, d = sid(e["src"]), sid(e["dst"])
        succ[s].append((e["act"], d))
        if s != d:
            has_in.add(d)
    roots = [s for s in list(succ) if s not in has_in]
    if len(roots) != 1:
        raise vlib.ToolError("fastwalks: cannot identify the initial state (%d candidates)" % len(roots))
    init = roots[0]
    # BFS tree
    parent = {init: None}
    order = [init]
    q = deque([init])
    while q:
        s = q.popleft()
        for i, (_, d) in enumerate(succ[s]):
            if d not in parent:
                parent[d] = (s, i)
                order.append(d)
                q.append(d)
    left = {s: list(range(len(succ[s]))) for s in order}

    def tree_path(s):
        p = []
        while parent[s] is not None:
            ps, i = parent[s]
            p.append((ps, i))
            s = ps
        p.reverse()
        return p

    def near(s):
        seen = {s: None}
        q = deque([(s, 0)])
        while q:
            x, dep = q.popleft()
            if dep >= hop:
                continue
            for i, (_, d) in enumerate(succ[x]):
                if d in seen:
                    continue
                seen[d] = (x, i)
                if left.get(d):
                    p = []
                    cur = d
                    while seen[cur] is not None:
                        px, pi = seen[cur]
                        p.append((px, pi))
                        cur = px
                    p.reverse()
                    return p
                q.append((d, dep + 1))
        return None

    walks = []
    pos = 0
    while True:
        while pos < len(order) and not left[order[pos]]:
            pos += 1
        if pos >= len(order):
            break
        start = order[pos]
        walk = [succ[s][i][0] for (s, i) in tree_path(start)]
        cur = start
        while len(walk) < max_len:
            if left[cur]:
                i = left[cur].pop()
            else:
                p = near(cur)
                if p is None:
                    break
                for (s, j) in p:
                    walk.append(succ[s][j][0])
                    cur = succ[s][j][1]
                continue
            a, d = succ[cur][i]
            walk.append(a)
            cur = d
        walks.append(walk)
    out = []
    for w in walks:
        steps = []
        for a in w:
            st = {"a": a["name"]}
            for k, v in a.items():
                if k != "name" and k not in strip:
                    st[k] = v
            steps.append(st)
        out.append(steps)
    return out
