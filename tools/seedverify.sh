#!/bin/sh
# usage: tools/seedverify.sh <worktree> <seed-dir> <crate> <dest test path rel. to worktree> <test name> [extra cargo args]
# Confirms a seeded change: demo passes without the patch, fails with it. (Crate's own tests are run separately.)
WT=$1; SEED=$2; CRATE=$3; DEST=$4; TEST=$5; shift 5
cd "$WT" || exit 2
git checkout -q -- .
mkdir -p "$(dirname "$DEST")"
cp "$SEED"/demo/*.rs "$DEST"
export CARGO_TARGET_DIR="$WT/target"
cargo test --offline -p "$CRATE" "$@" --test "$TEST" > "$SEED/verify-without.log" 2>&1; a=$?
git apply "$SEED/patch.diff"
cargo test --offline -p "$CRATE" "$@" --test "$TEST" > "$SEED/verify-with.log" 2>&1; b=$?
git apply -R "$SEED/patch.diff"
rm -f "$DEST"
echo "demo without patch rc=$a (expect 0); with patch rc=$b (expect != 0)"
