"""Shared pieces of the tx-status-manager checks (C22, C23, C44): harness build, manager trace pipeline,
directed scenario walks, canonical violation keys.  Everything is judged by TLC through vlib."""
import json
import os
from concurrent.futures import ThreadPoolExecutor
import vlib

# harness parameters = constants of Trace_TxStatus_*.cfg
MGR = {"cap": 2, "subttl": 3, "cachettl": 2}


def hbin():
    return os.path.join(vlib.cargo_build("h-txstatus"), "h-txstatus")


def mgr_args(ntx):
    return ["--cap", MGR["cap"], "--subttl", MGR["subttl"], "--cachettl", MGR["cachettl"], "--ntx", ntx]


def P(tx, k):
    return {"a": "Publish", "tx": tx, "k": k}


def S(tx):
    return {"a": "Subscribe", "tx": tx}


def R(sub):
    return {"a": "Read", "sub": sub}


def D(sub):
    return {"a": "DropSub", "sub": sub}


def T(d):
    return {"a": "Tick", "d": d}


def subscriber_scenarios():
    """Directed walks into the corners the C22 statement names (judged by TLC like any other walk)."""
    return [
        # lagging subscriber: buffer (3) fills, 4th is lost (add_failure), FailedStatus after a read, then end
        [S(1), P(1, "Sub"), P(1, "Sub"), P(1, "PSucc"), P(1, "Sub"), R(1), P(1, "PFail"), R(1), R(1), R(1), R(1), R(1)],
        # lagging subscriber whose buffer is still full when the failure should be sent: dropped silently
        [S(1), P(1, "Sub"), P(1, "PSucc"), P(1, "PFail"), P(1, "Sub"), P(1, "Sub"), R(1), R(1), R(1), R(1), R(1)],
        # draining subscriber through a whole life cycle, resubmission after the final status is not delivered
        [S(1), P(1, "Sub"), R(1), R(1), P(1, "PSucc"), R(1), R(1), P(1, "Succ"), R(1), R(1), P(1, "Sub"), R(1)],
        # final status first; statuses published before the subscription are not delivered
        [P(1, "Sub"), S(1), P(1, "Sq"), R(1), R(1), P(1, "Sub"), R(1)],
        # preconfirmation squeeze-out is final
        [S(2), P(2, "PSucc"), P(2, "PSq"), P(2, "Succ"), R(1), R(1), R(1), R(1)],
        # subscription limit: two permits, third refused; permit returns after a final status / a TTL expiry
        [S(1), S(2), S(1), P(1, "Fail"), S(1), R(1), R(1), T(3), S(2), S(2), P(2, "Sub"), R(2), R(3), R(4)],
        # subscription TTL: the stream ends without a final status, later statuses are not delivered
        [S(1), P(1, "Sub"), T(2), P(1, "PSucc"), T(1), P(1, "Succ"), R(1), R(1), R(1), R(1)],
        # dropped receiver: sender removed at the next publication, permit freed
        [S(1), S(1), D(1), P(1, "Sub"), S(2), R(2), R(3), D(2), D(2), P(1, "Succ"), R(3)],
        # two subscribers of one transaction, one draining one lagging
        [S(1), S(1), P(1, "Sub"), R(1), R(1), P(1, "Sub"), R(1), R(1), P(1, "PSucc"), R(1), R(1), P(1, "PFail"), R(1), R(1),
         P(1, "Succ"), R(1), R(1), R(2), R(2), R(2), R(2), R(2)],
    ]


def cache_scenarios():
    return [
        # submitted is kept beyond the TTL; a prunable status is forgotten only at a later registration
        [P(1, "Sub"), T(3), P(2, "Sub"), T(1), P(1, "Succ"), T(1), P(2, "PSucc"), T(1), P(2, "Sub"), T(2), P(2, "Sub")],
        # repeated status changes of one transaction: several queue entries, only the newest timestamp prunes
        [P(1, "PSucc"), T(1), P(1, "Succ"), T(1), P(2, "Sub"), T(1), P(2, "Sub"), T(1), P(2, "Sub")],
        # resubmission hides the older prunable entry, which is pruned underneath; a new prunable one replaces it
        [P(1, "Succ"), P(1, "Sub"), T(2), P(2, "PSq"), P(1, "PSucc"), T(1), P(2, "Sub"), T(1), P(2, "Sub")],
        # same-instant publications
        [P(1, "PSucc"), P(1, "PFail"), P(2, "Sq"), P(1, "Fail"), T(2), P(3, "Sub"), T(2), P(2, "Sub")],
    ]


def _abbr(o):
    ev = o.get("ev")
    if ev == "Publish":
        return "P%s%s" % (o.get("tx"), o.get("k"))
    if ev == "Subscribe":
        return "S%s%s" % (o.get("tx"), "" if o.get("res") == "ok" else "!")
    if ev == "Read":
        return "R%s>%s%s" % (o.get("sub"), o.get("out", {}).get("k"), o.get("out", {}).get("n") or "")
    if ev == "DropSub":
        return "D%s" % o.get("sub")
    if ev == "Tick":
        return "T%s" % o.get("d")
    if ev == "AddMsg":
        return "A%s%s" % (o.get("k"), o.get("n"))
    if ev == "TryNext":
        return "N>%s%s" % (o.get("out", {}).get("k"), o.get("out", {}).get("n") or "")
    if ev == "Delegate":
        return "Dg(pk%s,dk%s,%s,%s)%s" % (o.get("pk"), o.get("dk"), o.get("exp"), o.get("tamper"), o.get("verdict", "")[:1])
    if ev == "Preconfs":
        return "Pc(dk%s,%s,%s,%s)%s" % (o.get("dk"), o.get("exp"), o.get("tamper"), len(o.get("txs", [])), o.get("verdict", "")[:1])
    if ev == "Rotate":
        return "Ro%s" % o.get("pk")
    return str(ev)


def last_event_key(lines, names):
    """Canonical, specific key of a violation: violated invariants + the event that broke them (without the
    bulky projections) + the abbreviated history that led there."""
    try:
        o = json.loads(lines[-1])
    except Exception:
        o = {"raw": lines[-1]}
    slim = {k: v for k, v in o.items() if k not in ("snd", "sizes", "keys", "cache", "st", "clock", "tb", "t", "idok")}
    hist = []
    for ln in lines[1:]:
        try:
            hist.append(_abbr(json.loads(ln)))
        except Exception:
            hist.append("?")
    return "%s :: at=%s :: hist=%s" % (",".join(sorted(set(names))), vlib.canon(slim), " ".join(hist))


def parallel(fns):
    """Run independent TLC jobs side by side; returns results in order (exceptions propagate)."""
    with ThreadPoolExecutor(max_workers=len(fns)) as ex:
        futs = [ex.submit(f) for f in fns]
        return [f.result() for f in futs]


def corrupt_selftest(rep, module, cfg, trace, name, mutate, want_violation=False):
    """Binding is not vacuous: corrupt one logged field of the first walk where `mutate` applies and
    require that TLC does not accept it (and, if asked, judges it a violation in observe mode)."""
    for w in vlib.split_trace(trace):
        w = list(w)
        for i in range(len(w) - 1, 0, -1):
            o = json.loads(w[i])
            if mutate(o):
                w[i] = json.dumps(o, separators=(",", ":"))
                p = os.path.join(vlib.WORK, rep.prop, "selftest-%s.ndjson" % name)
                open(p, "w").write("\n".join(w[:i + 1]) + "\n")
                v = vlib.validate_trace(module, cfg, p, name="%s-selftest-%s" % (rep.prop, name))
                if v.accepted or (want_violation and not v.violations):
                    raise vlib.ToolError("self-test %s: corrupted trace was not caught" % name)
                rep.extra.setdefault("selftest", []).append(
                    "%s: corrupted event %s" % (name, "judged a violation" if v.violations else "rejected"))
                return True
    raise vlib.ToolError("self-test %s: no event to corrupt" % name)
