"""Shared machinery for /verif checks: TLC runner, edge-cover planner, cargo/harness runner,
trace validation, evidence writer, violation / known-finding reporting.

Conventions (see DESIGN.md section 3):
  * specs live in /verif/specs; TLC always runs with a private metadir under /verif/work
  * harness binaries live in /verif/harness (own cargo workspace, path deps on /repo)
  * harness "run" mode:  <bin> run --walks <walks.ndjson> --out <trace.ndjson>
      walks.ndjson : one JSON object per line {"id": n, "steps": [{"a": "Act", ...args}, ...]}
      trace.ndjson : one JSON object per line; first event of each walk is {"ev":"reset","walk":id,...}
  * exit codes: 0 held, 1 VIOLATION printed, 2 tool error
"""
import hashlib
import json
import os
import re
import shutil
import subprocess
import sys
import time
from collections import defaultdict, deque

VERIF = os.path.dirname(os.path.dirname(os.path.abspath(__file__)))
REPO = os.environ.get("VERIF_REPO", "/repo")
SPECS = os.path.join(VERIF, "specs")
# VERIF_SCRATCH relocates work files, evidence and replays (used when a check is run against a mutated
# copy of the repository given by VERIF_REPO, so that the registered evidence is not overwritten)
SCRATCH = os.environ.get("VERIF_SCRATCH")
WORK = os.path.join(SCRATCH, "work") if SCRATCH else os.path.join(VERIF, "work")
OUT = SCRATCH if SCRATCH else VERIF
HARNESS = os.path.join(VERIF, "harness")
JAR = "/opt/veriftools/tla/tla2tools.jar:/opt/veriftools/tla/CommunityModules-deps.jar"


class ToolError(Exception):
    pass


def log(*a):
    print(*a, flush=True)


def seed():
    try:
        return int(os.environ.get("VERIF_SEED", "0"))
    except ValueError:
        return 0


def workdir(name):
    d = os.path.join(WORK, name)
    shutil.rmtree(d, ignore_errors=True)
    os.makedirs(d, exist_ok=True)
    return d


# --------------------------------------------------------------------------- TLC

class TlcResult:
    def __init__(self, rc, out, wall):
        self.rc = rc
        self.out = out
        self.wall = wall
        m = re.search(r"(\d+) states generated, (\d+) distinct states found", out)
        self.generated = int(m.group(1)) if m else 0
        self.distinct = int(m.group(2)) if m else 0
        m = re.search(r"depth of the complete state graph search is (\d+)", out)
        self.depth = int(m.group(1)) if m else 0
        self.violated = re.findall(r"Error: Invariant (\S+) is violated", out)
        self.violated += re.findall(r"Error: Action property (\S+) is violated", out)
        # action properties given as [][A]_v without a name print "line ..." - keep generic marker
        if re.search(r"Error: Action property .* is violated", out) and not self.violated:
            self.violated.append("ActionProperty")
        if "Temporal properties were violated" in out:
            self.violated.append("TemporalProperty")
        if re.search(r"Error: Deadlock reached", out):
            self.violated.append("Deadlock")
        if "The postcondition" in out and "violated" in out or "Postcondition" in out and "violated" in out:
            self.post_failed = True
        else:
            self.post_failed = False
        self.ok = (rc == 0)
        # genuine tool errors: parse errors, evaluation errors, OOM ...
        self.tool_error = (rc not in (0, 12, 13, 11)) and not self.post_failed and not self.violated

    def coverage(self):
        """per-action counts from -coverage output: {action: (distinct, total)}"""
        cov = {}
        for m in re.finditer(r"<(\w+) line \d+, col \d+ to line \d+, col \d+ of module (\w+)>: (\d+):(\d+)", self.out):
            cov[m.group(1)] = (int(m.group(3)), int(m.group(4)))
        return cov

    def printed(self, tag):
        """values printed with PrintT(<<tag, jsonstring>>) -> list of parsed JSON"""
        res = []
        pre = '<<"%s", "' % tag
        for line in self.out.splitlines():
            if line.startswith(pre) and line.endswith('">>'):
                body = line[len(pre) - 1:-2]
                try:
                    res.append(json.loads(json.loads(body)))
                except Exception:
                    # TLC escapes only \" and \\ ; fall back to a manual unescape
                    s = body[1:-1].replace('\\"', '"').replace('\\\\', '\\')
                    res.append(json.loads(s))
        return res


def tlc(module, cfg, *, name=None, workers=4, simulate=None, depth=None, seed_=None, env=None,
        timeout=1800, coverage=False, xmx="4g", deque_queue=False, extra=None, xss=None):
    """Run TLC on specs/<module>.tla with specs/<cfg>. Returns TlcResult."""
    name = name or (module + "-" + os.path.splitext(cfg)[0])
    md = workdir("tlc-" + name)
    java = ["java", "-XX:+UseParallelGC", "-Xmx" + xmx]
    if xss:
        java.append("-Xss" + xss)
    if deque_queue:
        java.append("-Dtlc2.tool.queue.IStateQueue=StateDeque")
    cmd = java + ["-cp", JAR, "tlc2.TLC", "-workers", str(workers), "-metadir", md, "-cleanup",
                  "-noGenerateSpecTE", "-config", os.path.join(SPECS, cfg)]
    if simulate:
        s = "num=%d" % simulate
        cmd += ["-simulate", s]
        if depth:
            cmd += ["-depth", str(depth)]
        cmd += ["-seed", str(seed_ if seed_ is not None else seed())]
    if coverage:
        cmd += ["-coverage", "1"]
    if extra:
        cmd += extra
    cmd.append(os.path.join(SPECS, module + ".tla"))
    e = dict(os.environ)
    if env:
        e.update({k: str(v) for k, v in env.items()})
    t0 = time.time()
    try:
        p = subprocess.run(["timeout", str(timeout)] + cmd, cwd=md, env=e, stdout=subprocess.PIPE,
                           stderr=subprocess.STDOUT, text=True, errors="replace")
    finally:
        pass
    wall = time.time() - t0
    out = p.stdout
    with open(os.path.join(md, "tlc.out"), "w") as f:
        f.write(out)
    if p.returncode == 124:
        raise ToolError("TLC timeout after %ss on %s/%s" % (timeout, module, cfg))
    r = TlcResult(p.returncode, out, wall)
    r.metadir = md
    return r


def require_clean(r, what):
    """MC run must end without error; invariant violations are returned to the caller, tool errors raise."""
    if r.tool_error:
        tail = "\n".join(r.out.splitlines()[-40:])
        raise ToolError("TLC failed (%s), rc=%s\n%s" % (what, r.rc, tail))
    return r


# --------------------------------------------------------------------------- edge cover

def canon(x):
    return json.dumps(x, sort_keys=True, separators=(",", ":"))


def edge_walks(edges, init_key=None, max_len=400, strip=("res",)):
    """edges: list of {"src":state,"act":{"name":..,args},"dst":state}. Returns list of walks covering
    every edge at least once; each walk = list of act dicts, all starting from the (single) initial state.
    The initial state is the unique src that never appears as dst of an edge from a different state, or
    init_key when given."""
    succ = defaultdict(list)
    dsts = set()
    for e in edges:
        s, d = canon(e["src"]), canon(e["dst"])
        succ[s].append((e["act"], d))
        if s != d:
            dsts.add(d)
    if init_key is None:
        cands = [s for s in succ if s not in dsts]
        if len(cands) != 1:
            raise ToolError("edge_walks: cannot identify the initial state (%d candidates)" % len(cands))
        init_key = cands[0]
    uncovered = {s: list(range(len(v))) for s, v in succ.items()}
    n_unc = sum(len(v) for v in uncovered.values())
    walks = []

    def path_to_uncovered(start):
        # BFS to nearest state with an uncovered out-edge
        if uncovered.get(start):
            return []
        prev = {start: None}
        q = deque([start])
        while q:
            s = q.popleft()
            for i, (a, d) in enumerate(succ.get(s, [])):
                if d in prev:
                    continue
                prev[d] = (s, i)
                if uncovered.get(d):
                    path = []
                    cur = d
                    while prev[cur] is not None:
                        ps, pi = prev[cur]
                        path.append((ps, pi))
                        cur = ps
                    path.reverse()
                    return path
                q.append(d)
        return None

    while n_unc > 0:
        cur = init_key
        walk = []
        while len(walk) < max_len:
            p = path_to_uncovered(cur)
            if p is None:
                break
            for (s, i) in p:
                a, d = succ[s][i]
                walk.append(a)
                cur = d
            idx = uncovered[cur].pop()
            n_unc -= 1
            a, d = succ[cur][idx]
            walk.append(a)
            cur = d
        if not walk:
            raise ToolError("edge_walks: uncovered edges unreachable from init")
        walks.append(walk)
    out = []
    for w in walks:
        steps = []
        for a in w:
            st = {"a": a["name"]}
            for k, v in a.items():
                if k != "name" and k not in strip:
                    st[k] = v
            steps.append(st)
        out.append(steps)
    return out


def sim_walks(module, cfg, *, num, depth, name=None, strip=("res",), timeout=1800, seed_=None, siblings=2):
    """Behaviours from `tlc -simulate`: the Sim module carries a history variable `hist` (sequence of act
    records) and an invariant that prints <<"WALK", ToJson(hist)>> in every state; the maximal histories
    (those not extended by the next printed one) are the behaviours.  Returns walks as lists of steps."""
    r = require_clean(tlc(module, cfg, name=name, workers=1, simulate=num, depth=depth, timeout=timeout,
                          seed_=seed_), "simulate %s/%s" % (module, cfg))
    hists = r.printed("WALK")
    # TLC's simulator evaluates the invariant on every candidate successor, so all siblings of the chosen
    # state are printed too (each is a valid behaviour prefix).  Keep full-depth histories, at most
    # `siblings` per parent prefix, plus maximal shorter ones (behaviours that ended early).
    walks = []
    per_parent = defaultdict(int)
    maxlen = max((len(h) for h in hists), default=0)
    for i, h in enumerate(hists):
        if not h:
            continue
        if len(h) < maxlen:
            nxt = hists[i + 1] if i + 1 < len(hists) else None
            if nxt is None or len(nxt) > len(h) or len(nxt) == len(h):
                continue      # a longer or sibling history follows: not a maximal one
        parent = canon(h[:-1])
        per_parent[parent] += 1
        if per_parent[parent] > siblings:
            continue
        steps = []
        for a in h:
            st = {"a": a["name"]}
            for k, v in a.items():
                if k != "name" and k not in strip:
                    st[k] = v
            steps.append(st)
        walks.append(steps)
    # de-duplicate
    seen = set()
    out = []
    for w in walks:
        c = canon(w)
        if c not in seen:
            seen.add(c)
            out.append(w)
    return out, r


def write_walks(path, walks, start_id=0):
    with open(path, "w") as f:
        for i, w in enumerate(walks):
            f.write(json.dumps({"id": start_id + i, "steps": w}, separators=(",", ":")) + "\n")


# --------------------------------------------------------------------------- cargo / harness

def cargo_build(crate, bins=None, timeout=7200):
    """Build harness crate against /repo's current working tree (path deps). Returns dir of binaries."""
    lock_src = os.path.join(REPO, "Cargo.lock")
    lock_dst = os.path.join(HARNESS, "Cargo.lock")
    # always re-seed from /repo's lock file: cargo prunes the harness lock to the current members, and a
    # pruned lock cannot be extended offline (yanked crates); atomic rename, other builds may be running
    tmp = lock_dst + ".%d.tmp" % os.getpid()
    shutil.copy(lock_src, tmp)
    os.replace(tmp, lock_dst)
    cmd = ["cargo", "build", "--offline", "--release", "-p", crate]
    if os.path.realpath(REPO) != "/repo":
        # build against another checkout (a worktree with a mutation applied): override every workspace
        # member of fuel-core by the same package in that checkout; same target dir, so third-party
        # dependencies are reused
        md = subprocess.run(["cargo", "metadata", "--no-deps", "--offline", "--format-version", "1"], cwd=REPO,
                            stdout=subprocess.PIPE, stderr=subprocess.DEVNULL, text=True)
        if md.returncode != 0:
            raise ToolError("cargo metadata failed in %s" % REPO)
        dirs = sorted({os.path.dirname(p["manifest_path"]) for p in json.loads(md.stdout)["packages"]})
        cmd += ["--config", "paths=[%s]" % ",".join('"%s"' % d for d in dirs)]
    e = dict(os.environ)
    e["CARGO_NET_OFFLINE"] = "true"
    t0 = time.time()
    p = subprocess.run(["timeout", str(timeout)] + cmd, cwd=HARNESS, env=e, stdout=subprocess.PIPE,
                       stderr=subprocess.STDOUT, text=True, errors="replace")
    if p.returncode != 0:
        tail = "\n".join(p.stdout.splitlines()[-60:])
        raise ToolError("cargo build -p %s failed (rc=%s)\n%s" % (crate, p.returncode, tail))
    log("[build] %s ok in %.1fs" % (crate, time.time() - t0))
    return os.path.join(HARNESS, "target", "release")


def run_harness(binpath, args, timeout=3600, env=None, ok_codes=(0,)):
    e = dict(os.environ)
    e.setdefault("VERIF_SEED", str(seed()))
    e.setdefault("RUST_BACKTRACE", "0")
    if env:
        e.update({k: str(v) for k, v in env.items()})
    p = subprocess.run(["timeout", str(timeout), binpath] + [str(a) for a in args], env=e,
                       stdout=subprocess.PIPE, stderr=subprocess.PIPE, text=True, errors="replace")
    if p.returncode == 124:
        raise ToolError("harness timeout: %s %s" % (binpath, args))
    if p.returncode not in ok_codes:
        raise ToolError("harness failed rc=%s: %s %s\nstdout: %s\nstderr: %s" % (
            p.returncode, binpath, args, p.stdout[-3000:], p.stderr[-3000:]))
    return p


# --------------------------------------------------------------------------- trace validation

def split_trace(path):
    """Split a concatenated ndjson trace into per-walk lists of lines (each starts with a reset event)."""
    walks = []
    cur = None
    with open(path) as f:
        for line in f:
            line = line.rstrip("\n")
            if not line:
                continue
            if line.startswith('{"ev":"reset"'):
                cur = [line]
                walks.append(cur)
            else:
                if cur is None:
                    raise ToolError("trace does not start with a reset event: " + path)
                cur.append(line)
    return walks


class TraceVerdict:
    def __init__(self):
        self.accepted = 0          # walks fully accepted in strict mode
        self.events = 0
        self.divergent = []        # [(walk_lines, index_of_unmatched_event, info)]
        self.violations = []       # [(walk_lines, [violated names], tlc_tail)]
        self.states = 0


def _validate_file(module, cfg, path, nlines, name, strict, timeout, extra_env=None):
    env = {"TRACE": path, "STRICT": "1" if strict else "0"}
    if extra_env:
        env.update(extra_env)
    r = tlc(module, cfg, name=name, workers=1, env=env, timeout=timeout, xmx="6g", xss="1g",
            deque_queue=True)
    m = re.search(r'"TRACE-REJECTED",\s*(\d+)', r.out)
    rejected_at = int(m.group(1)) if m else None
    acc = re.search(r'"TRACE-ACCEPTED",\s*(\d+)', r.out)
    if r.violated:
        return ("violated", r, rejected_at)
    if acc and int(acc.group(1)) == nlines and r.rc == 0:
        return ("accepted", r, None)
    if rejected_at is not None:
        return ("rejected", r, rejected_at)
    tail = "\n".join(r.out.splitlines()[-40:])
    raise ToolError("trace validation tool error (%s/%s rc=%s)\n%s" % (module, cfg, r.rc, tail))


def _violation_walk_index(r, walks):
    """Find which walk a TLC invariant violation belongs to, from the value of l in the last printed state."""
    ls = re.findall(r"/\\ l = (\d+)", r.out)
    if not ls:
        return None
    l = int(ls[-1])  # index of the next event to consume; the violating state is after event l-1
    pos = 0
    for i, w in enumerate(walks):
        if pos + len(w) >= l - 1:
            return i
        pos += len(w)
    return len(walks) - 1


def validate_trace(module, cfg, trace_path, *, name, timeout=1800, max_divergent=3, extra_env=None):
    """Validate a concatenated implementation trace against Trace spec `module` (cfg reads IOEnv.TRACE and
    IOEnv.STRICT).  Strict mode: every event must be a step of the spec's own action with the logged
    post-state.  A walk that is rejected (or breaks an invariant) in strict mode is re-judged alone in
    observe mode (state bound to what the implementation logged): an invariant/property violation there
    is a property violation OF THE IMPLEMENTATION; otherwise it is a benign divergence."""
    v = TraceVerdict()
    walks = split_trace(trace_path)
    v.events = sum(len(w) for w in walks)
    wd = workdir("trace-" + name)
    remaining = list(walks)
    rounds = 0
    while remaining:
        rounds += 1
        p = os.path.join(wd, "strict-%d.ndjson" % rounds)
        with open(p, "w") as f:
            for w in remaining:
                f.write("\n".join(w) + "\n")
        n = sum(len(w) for w in remaining)
        kind, r, at = _validate_file(module, cfg, p, n, name + "-strict", True, timeout, extra_env)
        v.states += r.distinct
        if kind == "accepted":
            v.accepted += len(remaining)
            break
        # locate the offending walk
        if kind == "rejected":
            pos = 0
            idx = None
            for i, w in enumerate(remaining):
                if at <= pos + len(w):
                    idx = i
                    break
                pos += len(w)
            if idx is None:
                idx = len(remaining) - 1
            local = at - pos
        else:
            idx = _violation_walk_index(r, remaining)
            if idx is None:
                raise ToolError("cannot locate violating walk\n" + "\n".join(r.out.splitlines()[-40:]))
            local = None
        bad = remaining[idx]
        v.accepted += idx
        # judge the offending walk alone in observe mode
        pb = os.path.join(wd, "observe-%d.ndjson" % rounds)
        with open(pb, "w") as f:
            f.write("\n".join(bad) + "\n")
        kind2, r2, at2 = _validate_file(module, cfg, pb, len(bad), name + "-observe", False, timeout, extra_env)
        if kind2 == "violated":
            # cut the walk to the prefix that ends in the violating state
            ls = re.findall(r"/\\ l = (\d+)", r2.out)
            if ls:
                bad = bad[:max(2, int(ls[-1]) - 1)]
            v.violations.append((bad, r2.violated, ""))
        elif kind2 == "accepted":
            info = "unmatched event #%s" % local if local else "strict-mode invariant: %s" % r.violated
            v.divergent.append((bad, local, info))
        else:
            # observe mode should accept any well-formed trace; a rejection means malformed events
            raise ToolError("observe-mode rejected a trace at event %s (malformed trace or trace spec bug)\n%s" % (
                at2, "\n".join(r2.out.splitlines()[-40:])))
        remaining = remaining[idx + 1:]
        if len(v.divergent) + len(v.violations) >= max_divergent:
            break
    # Too many divergent walks to triage one by one: judge everything that is left in observe mode only,
    # so that a violating walk cannot hide behind benign divergences.
    bulk = 0
    while remaining and (len(v.divergent) + len(v.violations) >= max_divergent) and bulk < 6:
        bulk += 1
        pb = os.path.join(wd, "bulk-observe-%d.ndjson" % bulk)
        with open(pb, "w") as f:
            for w in remaining:
                f.write("\n".join(w) + "\n")
        n = sum(len(w) for w in remaining)
        kind3, r3, at3 = _validate_file(module, cfg, pb, n, name + "-bulk", False, timeout, extra_env)
        if kind3 == "accepted":
            v.unchecked_strict = getattr(v, "unchecked_strict", 0) + len(remaining)
            break
        if kind3 == "violated":
            idx = _violation_walk_index(r3, remaining)
            if idx is None:
                raise ToolError("cannot locate violating walk (bulk)")
            bad = remaining[idx]
            pos = sum(len(w) for w in remaining[:idx])
            ls = re.findall(r"/\\ l = (\d+)", r3.out)
            if ls:
                bad = bad[:max(2, int(ls[-1]) - 1 - pos)]
            v.violations.append((bad, r3.violated, ""))
            remaining = remaining[idx + 1:]
            continue
        raise ToolError("observe-mode rejected a trace at event %s (bulk)" % at3)
    return v


# --------------------------------------------------------------------------- findings / evidence / reporting

def known_findings():
    """known_findings.json plus fragments known_findings.d/*.json (same shape)."""
    import glob
    res = {"findings": [], "fixed": []}
    paths = [os.path.join(VERIF, "known_findings.json")] + sorted(glob.glob(os.path.join(VERIF, "known_findings.d", "*.json")))
    for p in paths:
        if os.path.exists(p):
            d = json.load(open(p))
            res["findings"] += d.get("findings", [])
            res["fixed"] += d.get("fixed", [])
    return res


def repo_lock(exclusive=False):
    """Checks hold a shared lock on /repo while they build and run; tools/mutate.sh takes it exclusively
    while a temporary mutation is applied, so that no check ever builds a half-mutated tree."""
    import fcntl
    if os.environ.get("VERIF_NOLOCK"):
        return None
    os.makedirs(WORK, exist_ok=True)
    f = open(os.path.join(WORK, "repo.lock"), "w")
    fcntl.flock(f, fcntl.LOCK_EX if exclusive else fcntl.LOCK_SH)
    return f


def save_replay(prop, label, lines_or_obj):
    d = os.path.join(OUT, "replays", prop)
    os.makedirs(d, exist_ok=True)
    p = os.path.join(d, label)
    with open(p, "w") as f:
        if isinstance(lines_or_obj, (list, tuple)) and all(isinstance(x, str) for x in lines_or_obj):
            f.write("\n".join(lines_or_obj) + "\n")
        else:
            json.dump(lines_or_obj, f, indent=1)
    return p


class Report:
    """Collects what a check run covered, prints VIOLATION / KNOWN-FINDING lines, writes evidence."""

    def __init__(self, prop, tier, level="model_checking"):
        self.prop = prop
        self.tier = tier
        self.level = level
        self.t0 = time.time()
        self.states = 0
        self.transitions = 0
        self.traces = 0
        self.samples = []
        self.extra = {}
        self.assumptions = []
        self.violations = []   # (key, replay_path, text)
        self.known_hit = []
        self.divergences = []
        self.nontrivial = set()
        self.evaluations = 0

    def add_mc(self, r, label):
        self.states += r.distinct
        self.transitions += r.generated
        self.extra.setdefault("tlc_runs", []).append(
            {"label": label, "distinct": r.distinct, "generated": r.generated, "depth": r.depth,
             "wall_s": round(r.wall, 1)})

    def add_sample(self, s):
        if len(self.samples) < 5:
            self.samples.append(s)

    def count_case(self, obj, nontrivial=True):
        self.evaluations += 1
        if nontrivial:
            self.nontrivial.add(hashlib.sha1(canon(obj).encode()).hexdigest())

    def violation(self, key, replay_path, text=""):
        """key: canonical description of the failing history; matched against known_findings.json"""
        for f in known_findings().get("findings", []):
            if f.get("property") == self.prop and re.search(f["match"], key):
                if f["id"] not in [k["id"] for k in self.known_hit]:
                    self.known_hit.append(f)
                    log("KNOWN-FINDING: property=%s %s" % (self.prop, f["what"]))
                return False
        self.violations.append((key, replay_path, text))
        return True

    def finish(self):
        wall = time.time() - self.t0
        cov = {
            "states": self.states, "transitions": self.transitions,
            "traces_validated_against_impl": self.traces,
            "samples": self.samples if self.samples else ["(none)"],
            "evaluations": max(self.evaluations, self.traces),
            "distinct_nontrivial": len(self.nontrivial),
            "divergences_benign": len(self.divergences),
            "rule": self.extra.pop("rule", None) or (
                "cases are the action sequences (edge-cover walks, TLC-simulated behaviours, enumerated inputs or "
                "crash points, seeded random histories) executed on the real implementation and validated by TLC; "
                "a case is counted in distinct_nontrivial once per distinct canonical content (hash) and only if it "
                "contains at least one action beyond object construction/reset"),
        }
        cov.update(self.extra)
        ev = {"property_id": self.prop, "tier": self.tier, "seed": seed(), "level": self.level,
              "coverage": cov, "assumptions": self.assumptions, "wall_s": round(wall, 1),
              "violations": len(self.violations)}
        os.makedirs(os.path.join(OUT, "evidence"), exist_ok=True)
        with open(os.path.join(OUT, "evidence", self.prop + ".json"), "w") as f:
            json.dump(ev, f, indent=1)
        for d in self.divergences:
            log("DIVERGENCE (benign; property invariants hold on the implementation's states): %s" % d)
        if self.violations:
            for key, path, text in self.violations:
                if text:
                    log(text)
                log("VIOLATION property=%s replay=%s" % (self.prop, path))
            return 1
        log("OK property=%s tier=%s states=%d transitions=%d impl_traces=%d wall=%.1fs" % (
            self.prop, self.tier, self.states, self.transitions, self.traces, wall))
        return 0

    # ---- common pipelines -------------------------------------------------

    def model_check(self, module, cfg, *, label=None, **kw):
        """Exhaustive/simulated TLC run of the design spec. A violation here is a violation of the
        *model*; callers confirm on the implementation through a replay before reporting."""
        r = require_clean(tlc(module, cfg, **kw), "%s/%s" % (module, cfg))
        self.add_mc(r, label or cfg)
        return r

    def judge_trace(self, module, cfg, trace_path, *, name, key_fn=None, **kw):
        """Validate an implementation trace; register violations/divergences. key_fn(walk_lines, names)
        gives the canonical key of a violation (defaults to violated names + actions of the walk)."""
        v = validate_trace(module, cfg, trace_path, name=name, **kw)
        self.traces += v.accepted
        self.extra["trace_events"] = self.extra.get("trace_events", 0) + v.events
        for (lines, at, info) in v.divergent:
            p = save_replay(self.prop, "divergent-%s-%d.ndjson" % (name, len(self.divergences)), lines)
            self.divergences.append("%s: %s (trace %s)" % (name, info, p))
        for (lines, names, tail) in v.violations:
            key = key_fn(lines, names) if key_fn else default_key(lines, names)
            h = hashlib.sha1(key.encode()).hexdigest()[:10]
            p = save_replay(self.prop, "violation-%s-%s.ndjson" % (name, h), lines)
            self.violation(key, p, "violated on the implementation's recorded states: %s\n  key: %s" % (
                names, key if len(key) < 600 else key[:300] + " ... " + key[-280:]))
        return v


def default_key(lines, names):
    evs = []
    for ln in lines[1:]:
        try:
            o = json.loads(ln)
            o2 = {k: v for k, v in o.items() if k not in ("st", "state", "seq")}
            evs.append(canon(o2))
        except Exception:
            evs.append(ln)
    return "%s :: last=%s :: %s" % (",".join(sorted(set(names))), evs[-1] if evs else "", " ; ".join(evs))


def main_wrapper(fn, prop):
    """Run a check function(report, tier, args) with uniform error handling."""
    import argparse
    ap = argparse.ArgumentParser()
    ap.add_argument("--tier", default=os.environ.get("VERIF_TIER", "quick"), choices=["quick", "thorough"])
    ap.add_argument("--replay", default=None)
    a = ap.parse_args(sys.argv[2:])
    rep = Report(prop, a.tier)
    _lock = repo_lock()
    try:
        fn(rep, a.tier, a)
        rc = rep.finish()
    except ToolError as e:
        log("TOOL-ERROR property=%s: %s" % (prop, e))
        rc = 2
    return rc
