#!/bin/sh
# Build every harness crate once, offline, against /repo's current tree.  A crate that does not build
# does not stop the others (each check rebuilds what it needs and reports a tool error itself).
cd "$(dirname "$0")/../harness" || exit 1
cp /repo/Cargo.lock Cargo.lock
export CARGO_NET_OFFLINE=true
rc=0
for d in crates/*/; do
  c=$(basename "$d")
  [ -f "$d/Cargo.toml" ] || continue
  if [ "$c" = "h-exec-wasm" ]; then
    # needs the repository's pinned toolchain (the only one with the wasm32 target) and its own target dir
    if RUSTUP_TOOLCHAIN=1.93.0 CARGO_TARGET_DIR=target-wasm cargo build --offline --release -p "$c" >/tmp/verif-setup-$c.log 2>&1; then
      echo "[setup] $c ok"; else echo "[setup] $c FAILED"; tail -5 /tmp/verif-setup-$c.log; fi
    continue
  fi
  if cargo build --offline --release -p "$c" >/tmp/verif-setup-$c.log 2>&1; then
    echo "[setup] $c ok"
  else
    echo "[setup] $c FAILED"; tail -5 /tmp/verif-setup-$c.log
  fi
done
exit 0
