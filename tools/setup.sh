#!/bin/sh
# Build every harness crate once, offline, against /repo's current tree.
set -e
cd "$(dirname "$0")/../harness"
cp /repo/Cargo.lock Cargo.lock
export CARGO_NET_OFFLINE=true
cargo build --offline --release --workspace 2>&1 | tail -3
