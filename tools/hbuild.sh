#!/bin/sh
# usage: tools/hbuild.sh <harness-crate>   — build a harness crate under the shared /repo lock
set -e
V=$(cd "$(dirname "$0")/.." && pwd)
mkdir -p "$V/work"
exec 9>"$V/work/repo.lock"
flock -s 9
cd "$V/harness"
cp /repo/Cargo.lock Cargo.lock.$$.tmp && mv Cargo.lock.$$.tmp Cargo.lock
CARGO_NET_OFFLINE=true cargo build --offline --release -p "$1" 2>&1 | grep -vE "^\s*(Compiling|Checking|Blocking|Locking|Adding|Downloaded)" | head -120
