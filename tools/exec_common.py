"""Shared pipeline of the executor family checks C01-C06 (specs/Exec.tla, harness h-exec).

One ./check invocation = one property:
  1. MC      : MC_Exec with the property's invariants (MC_Exec_<Cxx>.cfg), exhaustive on the small table
  2. build   : h-exec against /repo's current tree
  3. B2      : `tlc -simulate` behaviours of Sim_Exec -> walks -> real executor -> trace
  4. B3      : seeded random driver of the harness -> trace
  5. judge   : both traces against Trace_Exec with the property's invariants (strict, then observe)
  6. selftest: one corrupted field must make strict validation fail
"""
import json
import os
from concurrent.futures import ThreadPoolExecutor

import vlib

INVARIANTS = {
    "C01": ["ValidateAccepts", "BlockAsSpec", "CommitIsProduced"],
    "C02": ["SpentExisted", "SpentOnce", "CreatedFresh", "EventsAreDiff", "CoinsAsSpec", "EventsAsSpec"],
    "C03": ["MintRules", "Limits", "AskedWhatIsLeft", "MintTamperedRejected"],
    "C04": ["RevertFrame", "SkipFrame"],
    "C05": ["DaExact", "ImportedInOrder", "MessageImportedOnce", "ForcedExecutedOrFailed", "InboxRoot", "MessagesLand"],
    "C06": ["ExecutedOnce", "ProcessedRecorded", "DupRejected"],
}

ASSUMPTIONS = [
    "native executor only (no wasm); the storage behind the executor is the harness's plain in-memory key-value "
    "store (KeyValueInspect/HistoricalView views, importer-style commit of Changes + FuelBlocks), not fuel-core's "
    "Database; scripted relayer view; forbid_fake_coins = true",
    "transaction kinds: script (ret/rvrt/panic/out-of-gas/gas-burning loop, contract calls writing slots and "
    "forwarding coins, revert inside a nested call, contract->variable-output and script->variable-output "
    "transfers, message-out) and create; signed coin / message-coin / retryable message-data inputs; no "
    "predicates, no upgrade/upload/blob",
    "gas, fees, sizes, change amounts and digests are logged by the implementation and bound in the trace spec; "
    "TLC checks the relations between them, not VM arithmetic",
    "MC bounds (quick): 1 genesis table (3 coins, 2 messages, 1+1 contracts, 11 descriptors of which 6 offered, "
    "DA heights 0..2, relayed message + valid/invalid forced transaction), 2 blocks, <= 2 source transactions "
    "per block; deeper histories by simulation (4 blocks x 3) and the seeded driver (6-8 blocks)",
    "the transaction-count limit (65534) is not reached; forced-transaction validity is decided by the generator "
    "(junk bytes / mint / too low max_gas claim are invalid)",
]


def sim_walks(tier, wd, tag="x"):
    """B2: behaviours of Sim_Exec as harness walks (deduplicated)."""
    num = 12 if tier == "quick" else 150
    r = vlib.require_clean(vlib.tlc("MC_Exec", "Sim_Exec.cfg", name="Sim_Exec_" + tag, workers=4, simulate=num, depth=60,
                                    timeout=900), "Sim_Exec")
    if r.violated:
        vlib.log("Sim_Exec: model violates %s; the implementation trace decides" % r.violated)
    seen, walks = set(), []
    for w in r.printed("WALK"):
        k = vlib.canon(w["steps"])
        if k in seen:
            continue
        seen.add(k)
        walks.append(w)
    limit = 60 if tier == "quick" else 1500
    walks = walks[:limit]
    if not walks:
        raise vlib.ToolError("Sim_Exec printed no walks")
    p = os.path.join(wd, "walks.ndjson")
    with open(p, "w") as f:
        for i, w in enumerate(walks):
            f.write(json.dumps({"id": i, "cfg": w["cfg"], "steps": w["steps"]}, separators=(",", ":")) + "\n")
    return p, walks, r


def key_fn(lines, names):
    """Canonical key of a violation: violated invariants + the last block's header and transaction outcomes."""
    evs = [json.loads(x) for x in lines[1:]]
    last_begin = max([i for i, e in enumerate(evs) if e.get("ev") == "ProduceBegin"] or [0])
    parts = []
    for e in evs[last_begin:]:
        ev = e.get("ev")
        if ev == "ProduceBegin":
            parts.append("Begin(da=%s,gp=%s,cb=%s)" % (e["hd"]["da"], e["hd"]["gp"], e["hd"]["cb"]))
        elif ev in ("TryTx", "ForcedTx"):
            parts.append("%s(%s:%s%s)" % (ev, e["id"], e["r"]["res"], ":" + e["r"]["reason"] if e["r"]["reason"] else ""))
        elif ev == "Validate":
            parts.append("Validate(%s%s)" % (e["v"]["res"], ":" + e["v"]["reason"] if e["v"]["reason"] else ""))
        elif ev == "Tamper":
            parts.append("Tamper(%s:%s)" % (e["t"]["kind"], e["t"]["res"]))
        elif ev in ("ProduceEnd", "Commit", "Mint", "Abort"):
            parts.append(ev)
    tags = []
    if "Limits" in names:
        # which limit: recomputed from the logged numbers only to make the key specific
        setup = [e for e in evs if e.get("ev") == "Setup"]
        end = [e for e in evs[last_begin:] if e.get("ev") == "ProduceEnd"]
        if setup and end:
            c, p = setup[-1]["cfg"], end[-1]["p"]
            if sum(p["sizes"]) > c["sizeLimit"]:
                tags.append("size")
            if sum(s["gas"] for s in p["statuses"]) > c["gasLimit"]:
                tags.append("gas")
            if len(p["txs"]) - 1 > c["maxTx"]:
                tags.append("count")
    return "%s :: [%s] %s" % (",".join(sorted(set(names))), ",".join(tags), " ".join(parts))


def split_file(path, parts, wd, tag):
    walks = vlib.split_trace(path)
    n = max(1, min(parts, len(walks)))
    files = []
    for i in range(n):
        chunk = walks[i::n]
        if not chunk:
            continue
        p = os.path.join(wd, "%s-part%d.ndjson" % (tag, i))
        with open(p, "w") as f:
            for w in chunk:
                f.write("\n".join(w) + "\n")
        files.append(p)
    return files


def run(rep, tier, args, prop):
    rep.assumptions += ASSUMPTIONS
    cfg = "Trace_Exec_%s.cfg" % prop
    if args.replay:
        vlib.cargo_build("h-exec")
        rep.judge_trace("Trace_Exec", cfg, args.replay, name=prop + "-replay", key_fn=key_fn)
        return
    mc = rep.model_check("MC_Exec", "MC_Exec_%s%s.cfg" % (prop, "" if tier == "quick" else "_thorough"),
                         name="MC_Exec_" + prop, workers=8,
                         coverage=False, timeout=1500 if tier == "quick" else 5000)
    if mc.violated:
        vlib.log("model violates %s; the implementation trace decides" % mc.violated)
    hbin = os.path.join(vlib.cargo_build("h-exec"), "h-exec")
    wd = vlib.workdir(prop)
    # B2
    wp, walks, sim = sim_walks(tier, wd, prop)
    rep.add_mc(sim, "Sim_Exec")
    t2 = os.path.join(wd, "trace-b2.ndjson")
    vlib.run_harness(hbin, ["run", "--walks", wp, "--out", t2])
    # B3
    t3 = os.path.join(wd, "trace-b3.ndjson")
    n, blocks = (40, 6) if tier == "quick" else (600, 8)
    vlib.run_harness(hbin, ["random", "--walks", n, "--blocks", blocks, "--out", t3])
    files = split_file(t2, 2 if tier == "quick" else 6, wd, "b2") + split_file(t3, 4 if tier == "quick" else 10, wd, "b3")
    if prop == "C03":
        # sources that ignore the `size` argument of next(): worlds with a small block_transaction_size_limit,
        # kept in their own files (see known_findings.d/C03.json)
        t3s = os.path.join(wd, "trace-b3-smallsize.ndjson")
        ns = 6 if tier == "quick" else 40
        vlib.run_harness(hbin, ["random", "--walks", ns, "--blocks", 5, "--small-size", 1, "--out", t3s],
                         env={"VERIF_SEED": vlib.seed() + 7777})
        files += split_file(t3s, 2 if tier == "quick" else 8, wd, "b3s")
        rep.extra["b3_small_size_walks"] = ns
    for w in vlib.split_trace(t2) + vlib.split_trace(t3):
        outcomes = [vlib.canon({k: v for k, v in json.loads(x).items() if k in ("ev", "id")}) + json.loads(x).get("r", {}).get("res", "")
                    for x in w[2:]]
        rep.count_case(outcomes)
    rep.add_sample({"b2_walk_steps": [s.get("name") + (":" + s["id"] if "id" in s else "") for s in walks[0]["steps"]][:30]})
    first = [json.loads(x) for x in vlib.split_trace(t3)[0][2:14]]
    rep.add_sample({"b3_events": [{k: v for k, v in e.items() if k in ("ev", "id", "hd")} for e in first]})
    rep.extra["b2_walks"] = len(walks)
    rep.extra["b3_walks"] = n
    stats = trace_stats([t2, t3])
    rep.extra["trace_stats"] = stats

    def one(i):
        return rep.judge_trace("Trace_Exec", cfg, files[i], name="%s-%d" % (prop, i), key_fn=key_fn, timeout=3000,
                               max_divergent=40 if "b3s-" in files[i] else 3)

    with ThreadPoolExecutor(max_workers=6) as ex:
        list(ex.map(one, range(len(files))))
    selftest(rep, prop, cfg, t3)
    return stats


def trace_stats(paths):
    st = {}
    for p in paths:
        for line in open(p):
            e = json.loads(line)
            ev = e["ev"]
            if ev in ("TryTx", "ForcedTx"):
                k = "%s:%s%s" % (ev, e["r"]["res"], ":" + e["r"]["reason"] if e["r"]["reason"] else "")
            elif ev == "Tamper":
                k = "Tamper:%s:%s" % (e["t"]["kind"], e["t"]["res"])
            elif ev == "Validate":
                k = "Validate:" + e["v"]["res"]
            elif ev == "ProduceEnd":
                k = "ProduceEnd:" + ("ok" if e["p"]["ok"] else e["p"]["err"])
            else:
                k = ev
            st[k] = st.get(k, 0) + 1
    return st


CORRUPT = {
    # property -> (event, mutation) : a change that the property's binding must notice
    "C01": ("Validate", lambda e: e["v"]["dg"].__setitem__("ch", "x000000000000")),
    "C02": ("Commit", lambda e: e["st"]["coins"].pop() if e["st"]["coins"] else None),
    "C03": ("Mint", lambda e: e["m"].__setitem__("amt", e["m"]["amt"] + 1)),
    "C04": ("Commit", lambda e: e["st"]["contracts"][0]["slots"].append({"k": 9, "v": 9}) if e["st"]["contracts"] else None),
    "C05": ("ProduceEnd", lambda e: e["p"].__setitem__("inbox", "x000000000000")),
    "C06": ("ProduceEnd", lambda e: e["p"]["txs"].insert(0, e["p"]["txs"][-1]) if e["p"]["ok"] else None),
}


def selftest(rep, prop, cfg, trace):
    """The binding is not vacuous: corrupt one logged field of the first walk, strict mode must not accept."""
    walks = vlib.split_trace(trace)
    evname, mut = CORRUPT[prop]
    for w in walks:
        w = list(w)
        idx = [i for i, x in enumerate(w) if x.startswith('{"ev":"%s"' % evname)]
        if not idx:
            continue
        o = json.loads(w[idx[-1]])
        if evname == "ProduceEnd" and not o["p"]["ok"]:
            continue
        mut(o)
        # keep "ev" first
        w[idx[-1]] = json.dumps(o, separators=(",", ":"))
        p = os.path.join(vlib.WORK, prop, "selftest.ndjson")
        open(p, "w").write("\n".join(w) + "\n")
        v = vlib.validate_trace("Trace_Exec", cfg, p, name=prop + "-selftest")
        if v.accepted:
            raise vlib.ToolError("self-test: corrupted trace was accepted")
        rep.extra["selftest"] = "corrupted %s event not accepted (%s)" % (
            evname, "violation" if v.violations else "divergence")
        return
    raise vlib.ToolError("self-test: no %s event found" % evname)
