"""Helpers shared by checks C09/C11/C12 (harness crate h-db): run the harness over a walk file in several
processes (RocksDB open/reopen dominates the cost; walks are independent and each process is
single-threaded and deterministic) and concatenate the traces in walk order."""
import json
import os
from concurrent.futures import ThreadPoolExecutor
import vlib


def run_walks_parallel(hbin, mode, walks, out_path, extra=(), nproc=6, start_id=0):
    """walks: list of step lists.  Writes one concatenated ndjson trace to out_path."""
    n = max(1, min(nproc, len(walks)))
    base = os.path.splitext(out_path)[0]
    # round-robin by size so that the parts take about the same time
    order = sorted(range(len(walks)), key=lambda i: -len(walks[i]))
    parts = [[] for _ in range(n)]
    for j, i in enumerate(order):
        parts[j % n].append(i)
    jobs = []
    for p, idxs in enumerate(parts):
        wp = "%s.part%d.walks.ndjson" % (base, p)
        tp = "%s.part%d.trace.ndjson" % (base, p)
        with open(wp, "w") as f:
            for i in sorted(idxs):
                f.write(json.dumps({"id": start_id + i, "steps": walks[i]}, separators=(",", ":")) + "\n")
        jobs.append((wp, tp))

    def one(job):
        wp, tp = job
        vlib.run_harness(hbin, [mode, "--walks", wp, "--out", tp] + list(extra))
        return tp

    with ThreadPoolExecutor(max_workers=n) as ex:
        outs = list(ex.map(one, jobs))
    by_id = {}
    for tp in outs:
        for w in vlib.split_trace(tp):
            by_id[json.loads(w[0])["walk"]] = w
    with open(out_path, "w") as f:
        for k in sorted(by_id):
            f.write("\n".join(by_id[k]) + "\n")
    return len(by_id)


def run_random_parallel(hbin, mode, out_path, total_walks, extra=(), nproc=4):
    """Seeded random drivers: part p uses seed VERIF_SEED*1000+p so that the union is reproducible."""
    n = max(1, min(nproc, total_walks))
    base = os.path.splitext(out_path)[0]
    per = (total_walks + n - 1) // n

    def one(p):
        tp = "%s.part%d.trace.ndjson" % (base, p)
        vlib.run_harness(hbin, [mode, "--walks", per, "--out", tp] + list(extra),
                         env={"VERIF_SEED": str(vlib.seed() * 1000 + p)})
        return tp

    with ThreadPoolExecutor(max_workers=n) as ex:
        outs = list(ex.map(one, range(n)))
    k = 0
    with open(out_path, "w") as f:
        for tp in outs:
            for w in vlib.split_trace(tp):
                f.write('{"ev":"reset","walk":%d}\n' % k)
                k += 1
                f.write("\n".join(w[1:]) + "\n")
    return k
