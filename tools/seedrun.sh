#!/bin/sh
# usage: tools/seedrun.sh <worktree> <patch.diff> <Cxx> [<Cyy> ...]
# Runs the named checks against a scratch worktree of /repo with the patch applied (never touches /repo):
# harness crates are built with cargo `paths` overrides pointing at the worktree; work files, evidence and
# replays go to <worktree>/.verif-scratch.  The patch is reverted afterwards.
set -u
WT=$(readlink -f "$1"); PATCH=$(readlink -f "$2"); shift 2
V=$(cd "$(dirname "$0")/.." && pwd)
cd "$WT" || exit 2
git checkout -q -- . 2>/dev/null
if ! git apply --check "$PATCH"; then echo "patch does not apply to $WT"; exit 2; fi
git apply "$PATCH"
trap 'cd "$WT" && git apply -R "$PATCH" && echo "[seedrun] reverted"' EXIT
mkdir -p "$WT/.verif-scratch"
cd "$V"
for c in "$@"; do
  VERIF_REPO="$WT" VERIF_SCRATCH="$WT/.verif-scratch" VERIF_NOLOCK=1 ./check "$c" --tier "${TIER:-quick}" > "$WT/.verif-scratch/$c.out" 2>&1
  rc=$?
  echo "[seedrun] $c rc=$rc"
  grep -E "^(VIOLATION|KNOWN-FINDING|TOOL-ERROR|OK|DIVERGENCE)" "$WT/.verif-scratch/$c.out" | cut -c1-300 | head -6
done
