"""Shared pipeline of the transaction-pool checks C16-C21 (specs/TxPool.tla, harness h-txpool).

One invocation of ./check Cxx runs the pipeline once:
  universe   TLC prints the template table of TxPool.tla as JSON; the harness builds real transactions from it
  MC         bounded breadth-first search + simulation of MC_TxPool (all properties of the family)
  B2         behaviours from `tlc -simulate` are executed on the real PoolWorker (h-txpool run)
  B3         seeded random interleavings of all commands (h-txpool random)
and then judges the traces with the cfg of the property asked for (Trace_TxPool_<Cxx>.cfg).
"""
import glob
import json
import os
import re
import vlib

MODULE = "MC_TxPool"
TRACE = "Trace_TxPool"
STEP_ARGS = {"Insert": ["t"], "InsertQueued": [], "Extract": ["c"], "Block": ["txs", "h"],
             "Preconf": ["t", "kind", "outs", "h"], "Expire": ["ids"], "ExpirePending": []}


def universe(wd, suffix=""):
    r = vlib.require_clean(vlib.tlc("Uni_TxPool", "Uni_TxPool%s.cfg" % suffix, workers=1,
                                    name="txpool-universe-" + os.path.basename(wd)), "universe")
    u = r.printed("UNIVERSE")
    if len(u) != 1:
        raise vlib.ToolError("universe not printed")
    p = os.path.join(wd, "universe.json")
    json.dump(u[0], open(p, "w"))
    return p, u[0]


def sim_counts(r):
    """TLC's simulation summary: every generated successor is checked; there is no notion of distinct states"""
    m = re.search(r"The number of states generated: (\d+)", r.out)
    if m:
        r.generated = int(m.group(1))
    return r


_STR = re.compile(r'"((?:[^"\\]|\\.)*)"')


def sim_walks(cfg, n_per_worker, depth, wd, workers=4, timeout=600):
    """Behaviours of MC_TxPool from `tlc -simulate`: TLC writes one file per behaviour; the history variable of
    its last state is the sequence of action labels (JSON strings)."""
    d = os.path.join(wd, "sim")
    os.makedirs(d, exist_ok=True)
    r = vlib.tlc(MODULE, cfg, name="txpool-sim-" + os.path.basename(wd), workers=workers, timeout=timeout,
                 extra=["-simulate", "file=%s/w,num=%d" % (d, n_per_worker), "-depth", str(depth),
                        "-seed", str(vlib.seed())])
    vlib.require_clean(r, "simulate")
    sim_counts(r)
    walks = []
    for f in sorted(glob.glob(d + "/w_*")):
        txt = open(f).read()
        i = txt.rfind("/\\ hist = ")
        if i < 0:
            continue
        j = txt.find("\n/\\ ", i + 5)
        seg = txt[i:j if j > 0 else len(txt)]
        steps = []
        for m in _STR.finditer(seg):
            raw = m.group(1).replace('\\"', '"').replace("\\\\", "\\")
            a = json.loads(raw)
            st = {"a": a["name"]}
            for k in STEP_ARGS[a["name"]]:
                st[k] = a[k]
            steps.append(st)
        if steps:
            walks.append(steps)
    return r, walks


def run_walks(hbin, uni, walks, wd, name):
    wp = os.path.join(wd, name + "-walks.ndjson")
    tp = os.path.join(wd, name + "-trace.ndjson")
    vlib.write_walks(wp, walks)
    vlib.run_harness(hbin, ["run", "--universe", uni, "--walks", wp, "--out", tp])
    return tp


def run_random(hbin, uni, n, length, wd, name):
    tp = os.path.join(wd, name + "-trace.ndjson")
    vlib.run_harness(hbin, ["random", "--universe", uni, "--walks", n, "--len", length, "--out", tp])
    return tp


def slim(line):
    """event without the state projection (for keys and samples)"""
    o = json.loads(line)
    o.pop("st", None)
    return o


# ----------------------------------------------------------------------------------------------- family pipeline

PROPS = {
    "C16": dict(cfg="Trace_TxPool_C16.cfg", names=["NoTwoSpendSameInput", "NoTwoCreateSameContractOrBlob", "StatsExact"]),
    "C17": dict(cfg="Trace_TxPool_C17.cfg", names=["ParentBeforeChild", "RemovalCascades", "ChainLen", "NoDiamond"]),
    "C18": dict(cfg="Trace_TxPool_C18.cfg", names=["ExtractPost", "ParentBeforeChild"]),
    "C19": dict(cfg="Trace_TxPool_C19.cfg", names=["InsertAdmits", "InsertBeatsCollisions", "InsertRespectsHandedOut"]),
    "C20": dict(cfg="Trace_TxPool_C20.cfg", names=["BlockReconciles", "LatePreconfIsNoop", "InsertAdmits"]),
    "C21": dict(cfg="Trace_TxPool_C21.cfg", names=["SqueezedExactlyOnce"]),
}

ASSUMPTIONS = [
    "universe A of TxPool.tla: 21 transaction templates over 6 chain coins, 1 message, 2 contracts, 1 blob; pool limits "
    "max_txs=3 (spent-inputs LRU capacity 4), max_gas=8, max_bytes=9 units, chain limit 3, pending pool 67%",
    "environment: imported blocks are valid on the chain view and exclude transactions preconfirmed for a later height; "
    "success/failure preconfirmations for a future height concern transactions that are not on the chain and whose "
    "inputs are not produced by transactions still waiting in this pool (the producer executes parents first)",
    "ratio ties (wall-clock insertion time) and hash-map iteration orders are oracle choices of the specification",
    "input verification before the pool (signatures, predicates, gas price) is outside the model; transactions are "
    "real fuel_tx values built by the harness with exact max_gas / tip / size / max_gas_price",
    "the pending-pool TTL is 0 in the harness: an expiration tick drops every pending transaction",
]


def register(rep, v, name, key_fn=None):
    """the registration half of Report.judge_trace (validation itself may have run in a worker thread)"""
    import hashlib
    rep.traces += v.accepted
    rep.extra["trace_events"] = rep.extra.get("trace_events", 0) + v.events
    for (lines, at, info) in v.divergent:
        p = vlib.save_replay(rep.prop, "divergent-%s-%d.ndjson" % (name, len(rep.divergences)), lines)
        rep.divergences.append("%s: %s (trace %s)" % (name, info, p))
    for (lines, names, tail) in v.violations:
        key = key_fn(lines, names) if key_fn else vlib.default_key(lines, names)
        h = hashlib.sha1(key.encode()).hexdigest()[:10]
        p = vlib.save_replay(rep.prop, "violation-%s-%s.ndjson" % (name, h), lines)
        rep.violation(key, p, "violated on the implementation's recorded states: %s\n  key: %s" % (
            names, key if len(key) < 600 else key[:300] + " ... " + key[-280:]))


def slim_key(lines, names):
    evs = [vlib.canon(slim(ln)) for ln in lines[1:]]
    return "%s :: last=%s :: %s" % (",".join(sorted(set(names))), evs[-1] if evs else "", " ; ".join(evs))


def last_hist(out):
    """the action labels of the last state of a TLC error trace (history variable of MC_TxPool)"""
    i = out.rfind("/\\ hist = ")
    if i < 0:
        return []
    j = out.find("\n\n", i)
    seg = out[i:j if j > 0 else len(out)]
    steps = []
    for m in _STR.finditer(seg):
        raw = m.group(1).replace('\\"', '"').replace("\\\\", "\\")
        try:
            a = json.loads(raw)
        except Exception:
            continue
        st = {"a": a["name"]}
        for k in STEP_ARGS[a["name"]]:
            st[k] = a[k]
        steps.append(st)
    return steps


def run_family(rep, tier, args, prop, selftest=None, extra=None):
    from concurrent.futures import ThreadPoolExecutor
    info = PROPS[prop]
    rep.assumptions += ASSUMPTIONS
    wd = vlib.workdir(prop)
    quick = tier == "quick"
    suffix = "" if quick else "_thorough"       # thorough: larger pool limits / LRU / chain limit (see *_thorough.cfg)
    uni, udata = universe(wd, suffix)
    hbin = os.path.join(vlib.cargo_build("h-txpool"), "h-txpool")
    cfg = info["cfg"].replace(".cfg", suffix + ".cfg")
    rep.extra["constants"] = udata["consts"]
    key_fn = slim_key
    if args.replay:
        v = vlib.validate_trace(TRACE, cfg, args.replay, name=prop + "-replay")
        register(rep, v, prop + "-replay", key_fn)
        if extra:
            extra(rep, tier, wd, uni, udata, hbin, replay=args.replay)
        return
    mc_cfg = "MC_TxPool%s.cfg" % suffix
    n_sim, depth = (100, 15) if quick else (300, 21)
    n_rnd, len_rnd = (300, 40) if quick else (1200, 50)
    parts = 2 if quick else 4

    def job_mc():
        r = vlib.tlc(MODULE, mc_cfg, name=prop + "-mc", workers=6, timeout=3000 if quick else 6000)
        if r.tool_error and "ran out of memory" in r.out:
            # transient on a loaded machine (native threads / heap): one retry with fewer workers and a larger heap
            r = vlib.tlc(MODULE, mc_cfg, name=prop + "-mc", workers=3, timeout=6000, xmx="8g")
        return vlib.require_clean(r, "MC")

    def job_b2():
        r, walks = sim_walks("Sim_TxPool%s.cfg" % suffix, n_sim, depth, wd, timeout=3000)
        tp = run_walks(hbin, uni, walks, wd, "b2")
        v = validate_parallel(cfg, tp, prop + "-b2", parts)
        return r, walks, tp, v

    def job_b3():
        tp = run_random(hbin, uni, n_rnd, len_rnd, wd, "b3")
        v = validate_parallel(cfg, tp, prop + "-b3", parts)
        return tp, v

    with ThreadPoolExecutor(max_workers=3) as ex:
        f_mc, f_b2, f_b3 = ex.submit(job_mc), ex.submit(job_b2), ex.submit(job_b3)
        mc = f_mc.result()
        sim, walks, tp2, v2 = f_b2.result()
        tp3, v3 = f_b3.result()
    rep.add_mc(mc, mc_cfg)
    rep.add_mc(sim, "simulate")
    model_violations = sorted(set(mc.violated + sim.violated))
    if model_violations:
        # the design as transcribed breaks a property: the implementation decides (replay of the counterexample)
        vlib.log("model violates %s; replaying the counterexample on the implementation" % model_violations)
        for r, nm in ((mc, "mc"), (sim, "sim")):
            steps = last_hist(r.out)
            if r.violated and steps:
                tpc = run_walks(hbin, uni, [steps], wd, "cex-" + nm)
                register(rep, vlib.validate_trace(TRACE, "Trace_TxPool_all%s.cfg" % suffix, tpc, name=prop + "-cex-" + nm),
                         prop + "-cex-" + nm, key_fn)
    register(rep, v2, prop + "-b2", key_fn)
    register(rep, v3, prop + "-b3", key_fn)
    rep.extra["b2_walks"] = len(walks)
    rep.extra["b3_walks"] = n_rnd
    kinds = {}
    for tp in (tp2, tp3):
        for w in vlib.split_trace(tp):
            rep.count_case([slim(x) for x in w[1:]])
            for ln in w[1:]:
                o = slim(ln)
                r = o.get("res")
                k = "%s:%s" % (o["ev"], r if isinstance(r, str) else "n%d" % len(r))
                kinds[k] = kinds.get(k, 0) + 1
    rep.extra["event_kinds"] = kinds
    rep.add_sample({"b2_walk": walks[0][:8]})
    rep.add_sample({"b3_events": [slim(x) for x in vlib.split_trace(tp3)[0][1:7]]})
    if extra:
        extra(rep, tier, wd, uni, udata, hbin, replay=None, traces=(tp2, tp3))
    if selftest:
        selftest(rep, wd, cfg, (tp2, tp3))


def corrupt_and_judge(rep, wd, cfg, traces, pick, mutate, expect_names, label):
    """Self-test of the binding: corrupt one logged event of one accepted walk; TLC must not accept the walk and
    (when expect_names is given) must judge the property's invariant violated on the corrupted record."""
    for tp in traces:
        for w in vlib.split_trace(tp):
            for i in range(1, len(w)):
                o = json.loads(w[i])
                # the state logged by the previous event of the walk (None right after the reset), for pickers that
                # must know the pre-state; never written back
                o["_prev"] = json.loads(w[i - 1]).get("st") if i > 1 else None
                if pick(o):
                    mutate(o)
                    o.pop("_prev", None)
                    w2 = list(w[:i + 1])
                    w2[i] = json.dumps(o, separators=(",", ":"))
                    p = os.path.join(wd, "selftest-%s.ndjson" % label)
                    open(p, "w").write("\n".join(w2) + "\n")
                    v = vlib.validate_trace(TRACE, cfg, p, name=rep.prop + "-selftest-" + label)
                    if v.accepted:
                        raise vlib.ToolError("self-test %s: corrupted trace was accepted" % label)
                    got = set(n for x in v.violations for n in x[1])
                    if expect_names and not (got & set(expect_names)):
                        raise vlib.ToolError("self-test %s: corrupted record not judged a violation of %s (got %s)" % (
                            label, expect_names, sorted(got)))
                    rep.extra.setdefault("selftest", []).append(
                        "%s: corrupted record rejected%s" % (label, " and judged a violation of %s" % sorted(got) if got else ""))
                    return True
    rep.extra.setdefault("selftest", []).append("%s: no suitable event in this run" % label)
    return False


def validate(cfg, tp, name, timeout=3000):
    """vlib.validate_trace (strict first, the first few divergent walks re-judged alone in observe mode); when walks
    diverged and no violation was found among the re-judged ones, every walk of the trace is additionally judged in
    observe mode (one TLC run over the whole file), so that divergences can never mask a violation further on."""
    v = vlib.validate_trace(TRACE, cfg, tp, name=name, timeout=timeout)
    if v.divergent and not v.violations:
        remaining = vlib.split_trace(tp)
        wd = vlib.workdir("trace-" + name + "-all")
        rounds = 0
        while remaining and rounds < 3:
            rounds += 1
            p = os.path.join(wd, "observe-%d.ndjson" % rounds)
            open(p, "w").write("\n".join("\n".join(w) for w in remaining) + "\n")
            kind, r, at = vlib._validate_file(TRACE, cfg, p, sum(len(w) for w in remaining), name + "-observe-all",
                                              False, timeout)
            if kind == "accepted":
                break
            if kind != "violated":
                raise vlib.ToolError("observe-mode rejected a trace at event %s" % at)
            idx = vlib._violation_walk_index(r, remaining)
            ls = re.findall(r"/\\ l = (\d+)", r.out)
            off = sum(len(w) for w in remaining[:idx])
            bad = remaining[idx]
            if ls:
                bad = bad[:max(2, int(ls[-1]) - 1 - off)]
            v.violations.append((bad, r.violated, ""))
            remaining = remaining[idx + 1:]
    return v


def validate_parallel(cfg, tp, name, parts, timeout=3000):
    """validate() on `parts` slices of the trace in parallel (trace validation is single-threaded in TLC)."""
    from concurrent.futures import ThreadPoolExecutor
    walks = vlib.split_trace(tp)
    parts = max(1, min(parts, len(walks)))
    if parts == 1:
        return validate(cfg, tp, name, timeout)
    size = (len(walks) + parts - 1) // parts
    files = []
    for i in range(parts):
        chunk = walks[i * size:(i + 1) * size]
        if not chunk:
            continue
        p = "%s.part%d" % (tp, i)
        open(p, "w").write("\n".join("\n".join(w) for w in chunk) + "\n")
        files.append(p)
    with ThreadPoolExecutor(max_workers=len(files)) as ex:
        vs = list(ex.map(lambda a: validate(cfg, a[1], "%s-p%d" % (name, a[0]), timeout), enumerate(files)))
    v = vs[0]
    for o in vs[1:]:
        v.accepted += o.accepted
        v.events += o.events
        v.states += o.states
        v.divergent += o.divergent
        v.violations += o.violations
    return v
