"""C44 — only properly delegated, unexpired preconfirmations are accepted from peers.
MC: Delegation.tla (delegate-key map keyed by expiration, protocol-key rotation, time) for all message sequences
in the bound.  B3: the real service (new_service) behind a fake P2P subscription stream and a recording validity
notifier, real secp256k1 protocol keys (2 + an outsider) and ed25519 delegate keys (3): directed scenarios and
seeded random gossip (valid chains, wrong signers, overwritten delegations, tampered entities/signatures, replays,
rotations; expirations far in the past/future of the wall clock, plus a few walks where a near expiration really
passes).  TLC validates verdict, broadcast updates and get_status of every transaction after every message and
judges the invariants on what the service reported and changed."""
import json
import os
import vlib
import txstatus as tx


def Dg(pk, dk, exp, tamper="none"):
    return {"a": "Delegate", "pk": pk, "dk": dk, "exp": exp, "tamper": tamper}


def Pc(dk, exp, txs, kinds, tamper="none"):
    return {"a": "Preconfs", "dk": dk, "exp": exp, "tamper": tamper, "txs": txs, "kinds": kinds}


def Ro(pk):
    return {"a": "Rotate", "pk": pk}


def Sl(ms):
    return {"a": "Sleep", "ms": ms}


def scenarios(sleeping):
    ws = [
        # valid chain, replay of the same batch, batch before its delegation arrived
        [Pc(1, 1000, [1], ["PSucc"]), Dg(1, 1, 1000), Pc(1, 1000, [1, 2], ["PSucc", "PFail"]), Pc(1, 1000, [1, 2], ["PSucc", "PFail"]),
         Pc(2, 1000, [1], ["PSq"]), Pc(1, 2000, [2], ["PSq"])],
        # overwritten delegation: the expiration keys the map, the later key wins
        [Dg(1, 1, 1000), Dg(1, 2, 1000), Pc(1, 1000, [1], ["PSucc"]), Pc(2, 1000, [1], ["PFail"]), Dg(0, 3, 1000), Pc(3, 1000, [2], ["PSucc"]),
         Pc(2, 1000, [2], ["PSucc"])],
        # key rotation: old protocol key no longer delegates, earlier delegations stay usable
        [Dg(1, 1, 1000), Ro(2), Dg(1, 2, 2000), Pc(2, 2000, [1], ["PSucc"]), Pc(1, 1000, [1], ["PSucc"]), Dg(2, 3, 2000),
         Pc(3, 2000, [2], ["PSq"]), Ro(1), Dg(2, 1, 3000), Pc(1, 3000, [1], ["PSucc"]), Dg(1, 1, 3000), Pc(1, 3000, [1], ["PFail"])],
        # expirations in the past: delegation accepted by signature but never usable; removal of expired entries
        [Dg(1, 1, -1000), Pc(1, -1000, [1], ["PSucc"]), Dg(1, 2, 1000), Pc(1, -1000, [1], ["PSucc"]), Pc(2, 1000, [2], ["PSucc"]),
         Dg(1, 3, -2000), Pc(3, -2000, [1], ["PSq"])],
        # tampering: sealed key / expiration / signature altered; batch list / expiration / signature altered
        [Dg(1, 1, 1000, "key"), Pc(2, 1000, [1], ["PSucc"]), Pc(1, 1000, [1], ["PSucc"]), Dg(1, 1, 1000, "exp"), Pc(1, 1001, [1], ["PSucc"]),
         Dg(1, 1, 1000, "sig"), Dg(1, 1, 1000), Pc(1, 1000, [1], ["PSucc"], "txs"), Pc(1, 1000, [1], ["PSucc"], "exp"),
         Pc(1, 1000, [1], ["PSucc"], "sig"), Pc(1, 1000, [], []), Pc(1, 1000, [2], ["PSucc"])],
    ]
    if sleeping:
        # a near expiration really passes: usable before, refused after; a later delegation purges it
        ws.append([Dg(1, 1, 2), Pc(1, 2, [1], ["PSucc"]), Sl(3100), Pc(1, 2, [2], ["PSucc"]), Dg(1, 2, 1000), Pc(1, 2, [2], ["PSucc"]),
                   Pc(2, 1000, [2], ["PFail"])])
    return ws


def slim(o):
    return {k: v for k, v in o.items() if k not in ("st", "idok", "tb")}


def run(rep, tier, args):
    quick = tier == "quick"
    rep.assumptions += [
        "signatures are real (secp256k1 recoverable over postcard(DelegatePreConfirmationKey), ed25519 over "
        "postcard(Preconfirmations)); the model abstracts them to signer identity + a tamper tag",
        "the service reads the wall clock (Tai64::now); expirations are +-1000 s or more away except in the few "
        "sleeping walks (3.1 s real sleep); the second read by the service is bracketed by the harness (tb..t)",
        "messages are built by the harness with the same primitives as the PoA signing side (parent signature over "
        "Message::new(postcard(entity)), delegate signature over postcard(preconfirmations)); the PoA task itself is not run",
        "model bounds (quick): 2 protocol keys + outsider, 3 delegate keys, 2 expirations, time 0..3, <=4 messages",
    ]
    wd = vlib.workdir("C44")
    hb = tx.hbin()
    if args.replay:
        rep.judge_trace("Trace_Delegation", "Trace_Delegation.cfg", args.replay, name="C44-replay", key_fn=tx.last_event_key)
        return
    sfx = "" if quick else "_thorough"

    def mc():
        return rep.model_check("MC_Delegation", "MC_Delegation%s.cfg" % sfx, workers=6, name="C44-mc", timeout=7200)

    def impl():
        scen = scenarios(True)
        vlib.write_walks(wd + "/scen.ndjson", scen)
        vlib.run_harness(hb, ["deleg", "--walks", wd + "/scen.ndjson", "--ntx", 2, "--out", wd + "/b3-scen.ndjson"])
        for w in scen:
            rep.count_case(w)
        rep.extra["scenario_walks"] = len(scen)
        rep.judge_trace("Trace_Delegation", "Trace_Delegation.cfg", wd + "/b3-scen.ndjson", name="C44-scen", key_fn=tx.last_event_key)
        n, sleepers = (120, 2) if quick else (1500, 20)
        vlib.run_harness(hb, ["deleg-random", "--walks", n, "--len", 14, "--sleepers", sleepers, "--ntx", 2,
                              "--out", wd + "/b3.ndjson"])
        ws = vlib.split_trace(wd + "/b3.ndjson")
        for w in ws:
            rep.count_case(w)
        rep.add_sample({"random_gossip": [slim(json.loads(x)) for x in ws[-1][1:6]]})
        text = open(wd + "/b3.ndjson").read() + open(wd + "/b3-scen.ndjson").read()
        rep.extra["corner_counts"] = {
            "accepted_batches_changing_status": text.count('"upd":[{'), "accepts": text.count('"verdict":"Accept"'),
            "rejects": text.count('"verdict":"Reject"'), "rotations": text.count('"ev":"Rotate"'),
            "real_sleeps": text.count('"ev":"Sleep"')}
        if min(rep.extra["corner_counts"].values()) == 0:
            raise vlib.ToolError("drivers did not reach a corner case: %s" % rep.extra["corner_counts"])
        rep.judge_trace("Trace_Delegation", "Trace_Delegation.cfg", wd + "/b3.ndjson", name="C44-b3", key_fn=tx.last_event_key)

        def forged(o):
            # an invalid batch (wrong / unknown signer) is logged as accepted
            if o.get("ev") == "Preconfs" and o["verdict"] == "Reject" and o["txs"]:
                o["verdict"] = "Accept"
                o["upd"] = [{"tx": o["txs"][0], "k": o["kinds"][0], "n": o["n"]}]
                o["st"][o["txs"][0] - 1] = {"k": o["kinds"][0], "n": o["n"]}
                return True
            return False
        tx.corrupt_selftest(rep, "Trace_Delegation", "Trace_Delegation.cfg", wd + "/b3.ndjson", "deleg", forged,
                            want_violation=True)

    res = tx.parallel([impl, mc])
    if res[1].violated:
        vlib.log("model violates %s; the implementation traces decide" % res[1].violated)
