"""C40 — genesis import can be interrupted and resumed without changing the result (fault enumeration).
MC: Genesis.tla with every interleaving of four workers, up to two interruptions (cancel at any boundary, failure
at any point of any group, loss of the uncommitted result) and restarts; Crash_Genesis: all 26 real workers over the
table sizes of the generated snapshot, every single interruption followed by the resumed import.
B2 = crash-point enumeration: every interruption TLC printed for the small snapshot (every point of every group of
every table, group sizes 1, 2, 3, default; JSON and parquet) is injected into the real execute_genesis_block through
the `verif` hook on the import thread (error return = in-group failure, StateWatcher -> Stopping = cancellation);
the import is restarted on the same databases until it completes, the genesis block is committed.  TLC validates
the hook events (skip, group indices, progress keys, table contents) against the spec and compares the digests of
every column of both databases with those of an uninterrupted import of the same snapshot.  Seeded walks with two
and three interruptions, walks on RocksDB, and (thorough) a snapshot whose tables run on parallel threads."""
import json
import os
import random
import vlib
import genesis as G


def run(rep, tier, args):
    rep.extra["rule"] = ("each case is one import run with one or more injected interruptions: every (table, group, "
                         "hook point) crash point printed by TLC (fail inside a group, cancel at a boundary, loss of "
                         "the result) for each snapshot encoding/group size, plus seeded multi-interruption walks; "
                         "distinct = distinct interruption schedule; every case restarts the import until it completes")
    rep.level = "fault_enumeration"
    rep.assumptions += [
        "an interruption is the return of execute_genesis_block with an error (or the loss of its uncommitted "
        "result); the commit of one group's storage transaction is atomic (trusted: one write batch)",
        "failure points: task_start, group_start, after_process, before_commit, after_commit of ImportTask::run; "
        "cancellation: the watcher turns to Stopping at a hook point and is seen at the next group boundary",
        "workers of tables with fewer than 10 groups run one after the other (as run_workers does); the spec "
        "allows every interleaving, the quick tier's harness runs exhibit the sequential one",
        "DatabaseMetadata columns are excluded from the digests (a HashSet is serialised in instance order); "
        "the height they store is compared separately",
    ]
    thorough = tier != "quick"
    mc = rep.model_check("MC_Genesis", "MC_Genesis_thorough.cfg" if thorough else "MC_Genesis.cfg", workers=8,
                         coverage=thorough, timeout=3000)
    if mc.violated:
        rep.extra["model_violations"] = mc.violated
    md = rep.model_check("MC_Genesis", "MC_Genesis_drop.cfg", workers=4, label="MC_Genesis_drop (result lost before commit)")
    if md.violated:
        rep.extra.setdefault("model_violations", []).extend(md.violated)
    if thorough:
        mp = rep.model_check("MC_Genesis", "MC_Genesis_prefix_drop.cfg", workers=4, label="model of the code before the fix")
        rep.extra["model_before_fix"] = mp.violated   # expected: EachGroupOnce
    hbin = os.path.join(vlib.cargo_build("h-genesis"), "h-genesis")
    wd = vlib.workdir("C40")
    if args.replay:
        rep.judge_trace("Trace_Genesis", "Trace_Genesis_C40.cfg", args.replay, name="C40-replay", key_fn=G.key_c40)
        return
    rnd = random.Random(vlib.seed())
    combos = [("small", "parquet", 1), ("small", "parquet", 2), ("small", "parquet", 3), ("small", "parquet", 0),
              ("small", "json", 2)]
    if thorough:
        combos += [("medium", "parquet", 1), ("medium", "parquet", 2), ("medium", "json", 1), ("small", "json", 0)]
    wpath = os.path.join(wd, "worlds.ndjson")
    G.write_worlds(wpath, hbin, combos)
    r, crashes = G.enumerate_tlc(rep, "Crash_Genesis.cfg", wpath, "C40-crash-points", workers=4)
    if r.violated:
        rep.extra.setdefault("model_violations", []).extend(r.violated)
    rep.extra["crash_points"] = len(crashes)
    walks = []
    for k, c in enumerate(crashes):
        s, e, g = combos[c["w"] - 1]
        db = "rocks" if (k + vlib.seed()) % 40 == 0 else "mem"
        walks.append(G.crash_walk(s, e, g, [c], db))
    # several interruptions in a row (seeded choice among the enumerated points of the same snapshot)
    by_w = {}
    for c in crashes:
        by_w.setdefault(c["w"], []).append(c)
    for _ in range(40 if not thorough else 400):
        w = rnd.choice(sorted(by_w))
        cs = [rnd.choice(by_w[w]) for _ in range(rnd.choice([2, 2, 3]))]
        s, e, g = combos[w - 1]
        walks.append(G.crash_walk(s, e, g, cs, "rocks" if rnd.random() < 0.05 else "mem"))
    if thorough:
        # behaviours chosen by TLC's simulator (several interruptions, also two in one run: the harness injects
        # the first interruption of each run)
        os.environ["WORLDS"] = wpath
        sims, _ = vlib.sim_walks("Sim_Genesis", "Sim_Genesis.cfg", num=150, depth=900, name="C40-sim", siblings=1)
        for sw in sims:
            if not sw or sw[0]["a"] != "Export":
                continue
            s, e, g = combos[sw[0]["w"] - 1]
            runs, cur = [], None
            for st in sw[1:]:
                if st["a"] == "Crash" and st["kind"] == "drop":
                    runs.append(st)
                elif st["a"] == "Crash" and cur is None:
                    cur = st
                elif st["a"] == "End":
                    if cur is not None and st.get("res") != "Ok":
                        runs.append(cur)
                    cur = None
            if runs:
                walks.append(G.crash_walk(s, e, g, runs, "mem"))
        rep.extra["sim_walks"] = len(sims)
        # tables with >= 10 groups: their workers run in parallel on blocking threads
        for c in rnd.sample(by_w[1], 60):
            c2 = dict(c)
            walks.append(G.crash_walk("wide", "parquet", 1, [c2], "mem"))
    wp = os.path.join(wd, "walks.ndjson")
    tp = os.path.join(wd, "b2.ndjson")
    vlib.write_walks(wp, walks)
    vlib.run_harness(hbin, ["run", "--walks", wp, "--out", tp])
    rep.extra["walks"] = len(walks)
    for w in walks:
        rep.count_case([w[0]["enc"], w[0]["g"]] + [s for s in w if s["a"] in ("Run", "DropResult") and s.get("kind") != "none"])
    G.judge_parallel(rep, "Trace_Genesis", "Trace_Genesis_C40.cfg", tp, name="C40-b2", key_fn=G.key_c40,
                     parts=8 if not thorough else 12)
    ws = vlib.split_trace(tp)
    mid = ws[len(ws) // 3]
    rep.add_sample({"walk": [json.loads(x) for x in mid if json.loads(x)["ev"] in ("Fail", "Cancel", "DropResult")],
                    "events": len(mid)})
    if rep.violations or rep.divergences:
        return      # the self-test needs walks the unchanged spec accepts; violations are reported as they are
    # self-test 1: the final digest of one column differs from the uninterrupted import
    # self-test 2: a committed group is started again (its Start/Commit events duplicated)
    w = list(ws[0])
    for i in range(len(w) - 1, 0, -1):
        o = json.loads(w[i])
        if o["ev"] == "ClearOffChain":
            o["dig"]["off:CoinBalances"] += 1000
            w[i] = json.dumps(o, separators=(",", ":"))
            break
    w2 = list(ws[0])
    for i, ln in enumerate(w2):
        o = json.loads(ln)
        if o["ev"] == "Commit":
            w2 = w2[:i + 1] + [w2[i - 1], w2[i]] + w2[i + 1:]
            break
    for nm, tr, want in (("digest", w, "FinalDigestsEqualUninterrupted"), ("redo", w2, "EachGroupOnce")):
        sp = os.path.join(wd, "selftest-%s.ndjson" % nm)
        open(sp, "w").write("\n".join(tr) + "\n")
        sv = vlib.validate_trace("Trace_Genesis", "Trace_Genesis_C40.cfg", sp, name="C40-selftest-" + nm)
        if sv.accepted or not sv.violations or want not in sv.violations[0][1]:
            raise vlib.ToolError("self-test %s: corrupted trace was not judged a %s violation" % (nm, want))
    rep.extra["selftest"] = "changed final digest and re-applied group both judged violations"
