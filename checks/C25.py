"""C25 - replicated sequencers never commit different blocks at the same height; at most one block per
height on a quorum of Redis nodes; the fencing epoch of a node never decreases.

MC   LeaderLease.tla (Lua scripts = atomic per-node actions, adapter = one decision per function):
     coarse configuration (one action per quorum operation) exhaustively, budget 0 and 1; fine per-RPC
     configuration by -simulate; the pre-fix script (early-stop scan) as a regression configuration in
     which TLC must find the violation.
B2   TLC behaviours (weighted -simulate, fine and coarse; any counterexample of the MC runs) are
     executed on REAL RedisLeaderLeaseAdapter instances talking RESP2 over TCP to fake Redis nodes that
     run the adapter's REAL Lua scripts (harness h-lease + h-fakeredis).
B3   seeded chaos runs of the same rig.
     Every script execution is logged by the node under its lock; Trace_LeaderLease validates the log
     per RPC (strict) and judges the four invariants on the logged node / replica states (observe).
"""
import json
import os
import shutil
from concurrent.futures import ThreadPoolExecutor

import vlib

SCRIPTS = os.path.join(vlib.REPO, "crates/fuel-core/redis_leader_lease_adapter_scripts")
RECORDED = os.path.join(vlib.VERIF, "replays", "C25", "recorded-before-fix-early-stop.ndjson")


def act_to_step(a):
    st = {"a": a["name"]}
    st.update({k: v for k, v in a.items() if k not in ("name", "res")})
    return st


def cex_walk(path):
    """counterexample written by `tlc -dumpTrace json` -> one walk (list of steps)"""
    d = json.load(open(path))
    states = d["counterexample"]["state"]
    return [act_to_step(s[1]["act"]) for s in states if s[1]["act"]["name"] != "Init"]


def sim_walks(cfg, num, name):
    r = vlib.require_clean(vlib.tlc("Sim_LeaderLease", cfg, name=name, workers=1, simulate=num, depth=400), name)
    walks = [[act_to_step(a) for a in w] for w in r.printed("WALK")]
    if not walks:
        raise vlib.ToolError("no walks printed by %s" % cfg)
    return walks


def key(lines, names):
    """canonical, specific key of a violation: what broke + the write/promote history that led there"""
    hist = []
    for ln in lines[1:]:
        o = json.loads(ln)
        if o.get("ev") == "rpc" and o.get("k") in ("write",) and (o.get("f") in ("ok", "lost") or o.get("late")):
            hist.append("%s%d:w h%d %s%d %s %s%s->%s" % (o["r"], o["i"], o["h"], o["b"]["p"], o["b"]["k"], o["n"], o["f"],
                                                       "(late)" if o.get("late") else "", o["xres"]["t"]))
        elif o.get("ev") in ("commit", "import", "lose", "crash"):
            hist.append("%s:%s" % (o.get("r", o.get("n")), o["ev"]))
    return "%s :: %s" % (",".join(sorted(set(names))), " ; ".join(hist))


def harness(hbin, mode, out, budget, **kw):
    a = [mode, "--out", out, "--budget", budget]
    for k, v in kw.items():
        a += ["--" + k, v]
    vlib.run_harness(hbin, a, timeout=5000)
    return out


def run(rep, tier, args):
    quick = tier == "quick"
    rep.assumptions += [
        "even node counts: 2 nodes in the MC (depth 14; thorough also 4 nodes, depth 9) and 2- and 4-node chaos on the real "
        "adapter, including walks in which each replica reaches only its own half of the nodes",
        "coarse MC: 2 replicas x 3 nodes x heights<=2, epochs<=3, <=2 blocks per replica, <=1 crash per replica, "
        "<=1 abandoned write in flight; two-replica graphs are explored to a BFS depth bound (quick 11/12 quorum "
        "operations, thorough 12/12 with late promote/release as well), the single-replica graph completely (quick) or to depth 22 with 2 epochs (thorough)",
        "fine per-RPC interleavings are sampled by -simulate, not exhausted",
        "lease expiry, reply loss, late execution and node restarts are scenario events of the fake Redis nodes "
        "(virtual clock); real Redis semantics of SET NX PX / INCR / XADD / XREVRANGE are assumed as documented; "
        "XTRIM never trims within the bound (stream_max_len 1000)",
        "acquire_lease_if_free runs with max_attempts = 1; the lease validity check (elapsed < ttl) always passes",
        "the production loop around the adapter is the harness's mirror of MainTask::try_to_produce_block and of the "
        "importer's publish -> commit order, not the real MainTask / Importer (those are C24 / C08)",
    ]
    bindir = vlib.cargo_build("h-lease")
    vlib.cargo_build("h-fakeredis")
    hbin = os.path.join(bindir, "h-lease")
    wd = vlib.workdir("C25")
    if args.replay:
        cfg = "Trace_LeaderLease_b1.cfg" if "b1" in os.path.basename(args.replay) else "Trace_LeaderLease_b0.cfg"
        rep.judge_trace("Trace_LeaderLease", cfg, args.replay, name="C25-replay", key_fn=key)
        return
    # the fake Redis / mini Lua must behave as documented on the six real scripts
    p = vlib.run_harness(os.path.join(bindir, "h-fakeredis"), ["selftest", "--scripts", SCRIPTS], ok_codes=(0, 2))
    if p.returncode != 0:
        raise vlib.ToolError("h-fakeredis selftest failed:\n" + p.stderr[-2000:])
    rep.extra["fakeredis_selftest"] = p.stdout.strip()

    suffix = "" if quick else "_thorough"
    mc_jobs = [("one", "MC_LeaderLease_one%s.cfg" % suffix, 0), ("b0", "MC_LeaderLease_b0%s.cfg" % suffix, 0),
               ("b1", "MC_LeaderLease_b1%s.cfg" % suffix, 1), ("earlystop", "MC_LeaderLease_earlystop.cfg", 0),
               # even node counts: a majority of 2 nodes is 2, of 4 nodes 3 - never one half
               ("n2", "MC_LeaderLease_n2.cfg", 0)]
    if not quick:
        mc_jobs.append(("n4", "MC_LeaderLease_n4.cfg", 0))

    def mc(job):
        label, cfg, budget = job
        dump = os.path.join(wd, "cex-%s.json" % label)
        r = vlib.require_clean(vlib.tlc("MC_LeaderLease", cfg, name="C25-mc-" + label, workers=4, timeout=5400,
                                        coverage=(not quick and label == "one"), extra=["-dumpTrace", "json", dump]), cfg)
        return label, budget, r, dump

    def fine(job):
        label, cfg, n = job
        dump = os.path.join(wd, "cex-%s.json" % label)
        r = vlib.require_clean(vlib.tlc("MC_LeaderLease", cfg, name="C25-mc-" + label, workers=4, simulate=n, depth=70,
                                        timeout=3000, extra=["-dumpTrace", "json", dump]), cfg)
        return label, (1 if "b1" in cfg else 0), r, dump

    fine_jobs = [("fine", "MC_LeaderLease_fine.cfg", 80 if quick else 1500)]
    if not quick:
        fine_jobs += [("fine-b1", "MC_LeaderLease_fine_b1.cfg", 800), ("fine-n5b1", "MC_LeaderLease_fine_n5b1.cfg", 400)]

    def walks_job(job):
        label, cfg, num = job
        return label, sim_walks(cfg, num, "C25-sim-" + label)

    walk_jobs = [("fine", "Sim_LeaderLease_fine.cfg", 14 if quick else 100), ("coarse", "Sim_LeaderLease_coarse.cfg", 14 if quick else 100),
                 ("coarse-b1", "Sim_LeaderLease_coarse_b1.cfg", 8 if quick else 50)]

    with ThreadPoolExecutor(max_workers=4) as ex:
        f_mc = [ex.submit(mc, j) for j in mc_jobs]
        f_fine = [ex.submit(fine, j) for j in fine_jobs]
        f_walks = [ex.submit(walks_job, j) for j in walk_jobs]
        # meanwhile: seeded chaos on the real adapter (I -> S)
        n0, n1 = (60, 30) if quick else (800, 300)
        t_r0 = harness(hbin, "random", os.path.join(wd, "random-b0.ndjson"), 0, walks=n0, len=30)
        t_r1 = harness(hbin, "random", os.path.join(wd, "random-b1.ndjson"), 1, walks=n1, len=30)
        # even node counts; with --split every replica reaches only its own half of the nodes: two
        # halves must never both be a quorum
        m = 1 if quick else 8
        even = [("b3-n2-split", harness(hbin, "random", os.path.join(wd, "random-n2-split.ndjson"), 0, walks=10 * m, len=24, nodes=2, split=1), "n2"),
                ("b3-n4-split", harness(hbin, "random", os.path.join(wd, "random-n4-split.ndjson"), 0, walks=6 * m, len=24, nodes=4, split=1), "n4"),
                ("b3-n2", harness(hbin, "random", os.path.join(wd, "random-n2.ndjson"), 0, walks=12 * m, len=30, nodes=2), "n2")]
        mc_res = [f.result() for f in f_mc] + [f.result() for f in f_fine]
        walk_sets = dict(f.result() for f in f_walks)

    # ---- what TLC decided about the design --------------------------------------------------
    cex = []
    for label, budget, r, dump in mc_res:
        rep.add_mc(r, label)
        if label == "earlystop":
            # sensitivity of the model: the script as it was before the fix must be caught
            if "AtMostOneQuorumBlockPerHeight" not in r.violated:
                raise vlib.ToolError("regression configuration (early-stop scan) no longer violates the model")
            rep.extra["regression_earlystop"] = "TLC finds AtMostOneQuorumBlockPerHeight violated (%d states)" % r.distinct
            shutil.copy(dump, os.path.join(wd, "earlystop-cex.json"))
            continue
        if r.violated:
            vlib.log("model %s violates %s; the implementation trace decides" % (label, r.violated))
            if os.path.exists(dump):
                cex.append((label, budget, cex_walk(dump)))
    if not quick:
        cov = [x[2] for x in mc_res if x[0] == "one"][0].coverage()
        rep.extra["coverage_one"] = {k: v for k, v in cov.items()}

    # ---- B2: TLC behaviours executed on the real adapter -------------------------------------
    b0_walks = walk_sets["fine"] + walk_sets["coarse"] + [w for (_, b, w) in cex if b == 0]
    b1_walks = walk_sets["coarse-b1"] + [w for (_, b, w) in cex if b == 1]
    # the counterexample of the pre-fix design is replayed too: on the fixed script it must be harmless
    b0_walks.append(cex_walk(os.path.join(wd, "earlystop-cex.json")))
    for nm, walks, budget in (("b2-b0", b0_walks, 0), ("b2-b1", b1_walks, 1)):
        wp = os.path.join(wd, "walks-%s.ndjson" % nm)
        vlib.write_walks(wp, walks)
        tp = harness(hbin, "run", os.path.join(wd, "trace-%s.ndjson" % nm), budget, walks=wp)
        for w in walks:
            rep.count_case(w)
        rep.judge_trace("Trace_LeaderLease", "Trace_LeaderLease_b%d.cfg" % budget, tp, name="C25-" + nm, key_fn=key, timeout=3000)
    rep.add_sample({"walk": b0_walks[len(walk_sets["fine"])][:6]})
    rep.extra["walks"] = {"fine": len(walk_sets["fine"]), "coarse": len(walk_sets["coarse"]), "coarse_b1": len(walk_sets["coarse-b1"]),
                          "counterexamples": len(cex) + 1}

    # ---- B3: chaos traces ---------------------------------------------------------------------
    for nm, tp, budget in (("b3-b0", t_r0, 0), ("b3-b1", t_r1, 1)):
        ws = vlib.split_trace(tp)
        for w in ws:
            rep.count_case(w)
        rep.judge_trace("Trace_LeaderLease", "Trace_LeaderLease_b%d.cfg" % budget, tp, name="C25-" + nm, key_fn=key, timeout=3000)
    for nm, tp, cfgn in even:
        for w in vlib.split_trace(tp):
            rep.count_case(w)
        rep.judge_trace("Trace_LeaderLease", "Trace_LeaderLease_%s.cfg" % cfgn, tp, name="C25-" + nm, key_fn=key, timeout=3000)
    ws = vlib.split_trace(t_r0)
    rep.add_sample({"chaos_events": [json.loads(x) for x in ws[0][1:4]]})
    stats = {"rpc": 0, "late": 0, "commit": 0, "import": 0, "expire": 0, "crash": 0, "lose": 0}
    for tp in (t_r0, t_r1):
        for ln in open(tp):
            for k in stats:
                if ln.startswith('{"ev":"%s"' % k):
                    stats[k] += 1
            if '"late":true' in ln:
                stats["late"] += 1
    rep.extra["chaos_events"] = stats
    selftest(rep, t_r0)


def selftest(rep, trace):
    """The binding is not vacuous: (1) a corrupted node state is rejected by the strict validation;
    (2) the trace recorded from the real adapter BEFORE the write_block.lua fix is judged a violation."""
    wd = os.path.join(vlib.WORK, "C25")
    for w in vlib.split_trace(trace):
        idx = [i for i, ln in enumerate(w) if '"k":"write"' in ln and '"t":"W"' in ln and '"f":"ok"' in ln]
        if idx:
            w = list(w[:idx[0] + 1])
            o = json.loads(w[-1])
            o["st"]["epoch"] += 1
            w[-1] = json.dumps(o, separators=(",", ":"))
            break
    else:
        raise vlib.ToolError("self-test: no successful write in the chaos trace")
    p = os.path.join(wd, "selftest-corrupt.ndjson")
    open(p, "w").write("\n".join(w) + "\n")
    v = vlib.validate_trace("Trace_LeaderLease", "Trace_LeaderLease_b0.cfg", p, name="C25-selftest1")
    if v.accepted:
        raise vlib.ToolError("self-test: corrupted trace was accepted")
    v = vlib.validate_trace("Trace_LeaderLease", "Trace_LeaderLease_b0.cfg", RECORDED, name="C25-selftest2")
    if not v.violations or "AtMostOneQuorumBlockPerHeight" not in v.violations[0][1]:
        raise vlib.ToolError("self-test: the recorded pre-fix trace is not judged a violation")
    rep.extra["selftest"] = "corrupted node state rejected; recorded pre-fix trace judged AtMostOneQuorumBlockPerHeight violation"
