"""C04 — Reverted and skipped transactions have only their allowed effects.
Exec.tla invariants: RevertFrame (contract slots/balances after commit are those of the successful scripts only, retryable messages stay, coin and message-coin inputs are consumed, no outbox message of a reverted script), SkipFrame (skipped transactions leave no event, no processed id, nothing).
MC of MC_Exec, B2: Sim_Exec behaviours executed by the real executor, B3: seeded driver; all judged by TLC through
Trace_Exec (tools/exec_common.py holds the shared pipeline)."""
import exec_common


def run(rep, tier, args):
    exec_common.run(rep, tier, args, "C04")
