"""C11 — all storage backends store and iterate identically (sorted-map model).
MC: (a) KVIter on a tiny universe with every backend, single change sets and lists, every query;
    (b) the oracle configuration: for EVERY content of a column over keys {00,01,FF}^<=2 the transcribed BTreeMap
        iterator (crates/storage/src/iter.rs) and the transcribed RocksDb `_iter_store` algorithm return exactly the
        sorted-map oracle for every in-contract (prefix, start, direction).
B1: every edge of (a) replayed on MemoryStore / RocksDb / HistoricalRocksDB{NoRewind, Full, Range 1, Range 2}.
B3: seeded random commit histories over the full universe and two columns (one with a RocksDB prefix extractor),
    identical on all six backends, contents compared after every commit; some histories end with EVERY in-contract
    query.  TLC judges through Trace_KVIter."""
import json
import os
import vlib
import dbharness


def run(rep, tier, args):
    suffix = "" if tier == "quick" else "_thorough"
    rep.assumptions += [
        "key alphabet {00,01,FF}, key length <= 2 (13 keys incl. the empty key), values {1,2}, two columns: "
        "Coins (no prefix extractor, raw keys) and ContractsState (fixed 32-byte prefix extractor; every abstract "
        "byte stored as a block of 32 equal bytes, which preserves order and the prefix relation)",
        "queries with both prefix and start where start does not extend prefix are outside the iterator's contract "
        "(rocks_db.rs returns nothing by design, the BTreeMap iterator differs) and are not asked",
        "RocksDB's seek / seek_for_prev / WriteBatch atomicity are trusted as documented; history-keeping stores "
        "are committed with consecutive heights",
    ]
    mc = rep.model_check("MC_KVIter", "MC_KVIter%s.cfg" % suffix, workers=4, coverage=(tier == "thorough"))
    mo = rep.model_check("MC_KVIter", "MC_KVIter_oracle.cfg", label="oracle", workers=8, timeout=1500)
    for r in (mc, mo):
        if r.violated:
            vlib.log("model violates %s; the implementation traces decide" % r.violated)
    hbin = os.path.join(vlib.cargo_build("h-db"), "h-db")
    wd = vlib.workdir("C11")
    if args.replay:
        first = open(args.replay).read(4000)
        small = '"small":1' in first
        rep.judge_trace("Trace_KVIter", "Trace_KVIter_small.cfg" if small else "Trace_KVIter.cfg", args.replay,
                        name="C11-replay", key_fn=key)
        return
    # B1: every edge of the tiny universe on the six real backends
    er = vlib.require_clean(vlib.tlc("MC_KVIter", "Edges_KVIter%s.cfg" % suffix, workers=1), "edges")
    edges = er.printed("EDGE")
    if not edges:
        raise vlib.ToolError("no edges emitted")
    walks = vlib.edge_walks(edges, max_len=300)
    wp = os.path.join(wd, "walks.ndjson")
    vlib.write_walks(wp, walks)
    tp = os.path.join(wd, "trace-b1.ndjson")
    vlib.run_harness(hbin, ["kviter", "--walks", wp, "--out", tp, "--bytes", "0,255", "--maxlen", 1, "--cols", "a",
                            "--small", 1])
    rep.extra["edges"] = len(edges)
    rep.extra["edge_walks"] = len(walks)
    rep.add_sample({"walk": walks[0][:6]})
    for w in walks:
        rep.count_case(w)
    rep.judge_trace("Trace_KVIter", "Trace_KVIter_small.cfg", tp, name="C11-b1", key_fn=key)
    # B3: random histories on the full universe, all backends, contents after every commit + full scans
    nh, scan, nproc = (40, 8, 4) if tier == "quick" else (240, 32, 8)      # histories, of which end with a full scan
    tp3 = os.path.join(wd, "trace-b3.ndjson")
    dbharness.run_random_parallel(hbin, "kviter-random", tp3, nh, extra=["--len", 3, "--scan", scan // nproc],
                                  nproc=nproc)
    sp = vlib.split_trace(tp3)
    nq = 0
    for w in sp:
        rep.count_case([x for x in w if '"ev":"Commit"' in x])
        nq += sum(1 for x in w if x.startswith('{"ev":"Query"'))
    rep.extra["query_cases"] = nq
    rep.add_sample({"random_history": [json.loads(x) for x in sp[0][1:3]]})
    rep.judge_trace("Trace_KVIter", "Trace_KVIter.cfg", tp3, name="C11-b3", key_fn=key, timeout=3000)
    selftest(rep, tp3)


def key(lines, names):
    """canonical key: violated invariants, backend, and the failing commit / query"""
    backend = ""
    for ln in lines[1:3]:
        o = json.loads(ln)
        if o["ev"] == "New":
            backend = o["backend"]
    o = json.loads(lines[-1])
    if o["ev"] == "Query":
        what = "query c=%s prefix=%s start=%s dir=%s got=%s" % (
            o["c"], o["p"] if o["hp"] else "none", o["s"] if o["hs"] else "none", o["d"], vlib.canon(o["keys"]))
        commits = [json.loads(x) for x in lines if x.startswith('{"ev":"Commit"')]
        what += " store=%s" % (vlib.canon(commits[-1]["store"]) if commits else "{}")
    else:
        what = "commit list=%s L=%s res=%s" % (o.get("list"), vlib.canon(o.get("L")), o.get("res"))
    return "%s :: %s :: %s" % (",".join(sorted(set(names))), backend, what)


def selftest(rep, trace):
    """drop one entry from a logged iteration result: strict must reject and QueryExact must flag it"""
    for w in vlib.split_trace(trace):
        for i, ln in enumerate(w):
            if ln.startswith('{"ev":"Query"'):
                o = json.loads(ln)
                if len(o["kv"]) >= 2:
                    o["kv"] = o["kv"][1:]
                    o["keys"] = o["keys"][1:]
                    w2 = list(w[:i]) + [json.dumps(o, separators=(",", ":"))]
                    p = os.path.join(vlib.WORK, "C11", "selftest.ndjson")
                    open(p, "w").write("\n".join(w2) + "\n")
                    v = vlib.validate_trace("Trace_KVIter", "Trace_KVIter.cfg", p, name="C11-selftest")
                    if v.accepted or not v.violations:
                        raise vlib.ToolError("self-test: corrupted iteration result was not judged a violation")
                    rep.extra["selftest"] = "corrupted iteration result rejected and judged a QueryExact violation"
                    return
    raise vlib.ToolError("self-test: no query with two results in the random traces")
