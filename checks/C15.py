"""C15 — only blocks that satisfy the consensus rules are accepted.
MC: BlockRules.tla enumerates a valid block for every consensus configuration of the code (PoA single key, PoAV2 key
schedules), every single-field mutation and every pair of header-field mutations, with the repair levels; TLC checks that acceptance implies the
listed rules and that every mutation is rejected or changes the block id.  B1: every edge of that graph is
materialised by the harness on real blocks (real transactions, headers, secp256k1 keys, serde round trip) and judged
by the real Verifier::verify_block_fields / verify_consensus and Block::try_from_executed; TLC compares the verdicts
(strict) and judges the invariants on the logged verdicts (observe)."""
import json
import os
import vlib


def key(lines, names):
    k = ""
    for ln in lines:
        if ln.startswith('{"ev":"New"'):
            k = json.loads(ln).get("k")
    o = json.loads(lines[-1])
    return "%s :: kind=%s mutation=%s/%s+%s/%s/fix%s verdicts vf=%s vc=%s te=%s idc=%s" % (
        ",".join(sorted(set(names))), k, o.get("f"), o.get("v"), o.get("f2", "-"), o.get("v2", "-"), o.get("fix"), o.get("vf"), o.get("vc"), o.get("te"),
        o.get("idc"))


def run(rep, tier, args):
    rep.assumptions += [
        "hash functions and signatures are injective constructors in the model (crypto strength assumed); the harness "
        "uses real sha256 / secp256k1 values",
        "one valid block (height 5, three transactions, parent chain 0..4) per consensus configuration; single-field "
        "mutations and all pairs of header-field mutations on distinct fields, with repair levels 0..4 (4 = re-signed by the authority itself); BlockHeader V1 (fault-proving feature off)",
        "blocks are judged after a serde round trip (as received from the wire, no cached id)",
    ]
    mc = rep.model_check("MC_BlockRules", "MC_BlockRules.cfg", workers=4, coverage=(tier == "thorough"))
    if mc.violated:
        vlib.log("model violates %s; the implementation trace decides" % mc.violated)
    hbin = os.path.join(vlib.cargo_build("h-poa"), "h-poa")
    wd = vlib.workdir("C15")
    if args.replay:
        rep.judge_trace("Trace_BlockRules", "Trace_BlockRules.cfg", args.replay, name="C15-replay", key_fn=key)
        return
    er = vlib.require_clean(vlib.tlc("MC_BlockRules", "Edges_BlockRules.cfg", workers=1), "edges")
    edges = er.printed("EDGE")
    if len(edges) < 3000:
        raise vlib.ToolError("only %d edges emitted" % len(edges))
    walks = vlib.edge_walks(edges)
    wp = os.path.join(wd, "walks.ndjson")
    vlib.write_walks(wp, walks)
    tp = os.path.join(wd, "b1.ndjson")
    vlib.run_harness(hbin, ["rules", "--walks", wp, "--out", tp])
    rep.extra["edges"] = len(edges)
    rep.extra["edge_walks"] = len(walks)
    rep.extra["exhaustive"] = True
    verdicts = {}
    for ln in open(tp):
        o = json.loads(ln)
        if o["ev"] in ("Mutate", "Mutate2"):
            k = "vf=%s vc=%s idc=%s" % (o["vf"], o["vc"], o["idc"])
            verdicts[k] = verdicts.get(k, 0) + 1
            if (o["f"] in ("txSwap", "sig") and o["fix"] in (0, 3)) or (o.get("f2") == "da" and o["f"] == "time"):
                rep.add_sample({k2: o[k2] for k2 in ("f", "v", "f2", "v2", "fix", "vf", "vc", "te", "idc") if k2 in o})
    rep.extra["verdict_classes"] = verdicts
    for w in walks:
        rep.count_case(w)
    ws = vlib.split_trace(tp)
    from concurrent.futures import ThreadPoolExecutor
    files = []
    for i in range(0, len(ws), 900):
        f = os.path.join(wd, "b1-part%d.ndjson" % (i // 900))
        with open(f, "w") as fh:
            for w in ws[i:i + 900]:
                fh.write("\n".join(w) + "\n")
        files.append(f)
    with ThreadPoolExecutor(max_workers=4) as ex:
        list(ex.map(lambda i: rep.judge_trace("Trace_BlockRules", "Trace_BlockRules.cfg", files[i],
                                              name="C15-b1-p%d" % i, key_fn=key), range(len(files))))
    observe_all(rep, files)
    selftest(rep, tp, wd)


def observe_all(rep, files):
    """validate_trace stops after a few divergent walks per file; when walks diverged and none of the re-judged ones
    broke an invariant, judge every file once more as a whole in observe mode so that a divergence cannot mask a
    violation further down."""
    import hashlib
    if not rep.divergences or rep.violations:
        return
    for i, f in enumerate(files):
        ws = vlib.split_trace(f)
        n = sum(len(w) for w in ws)
        kind, r, _ = vlib._validate_file("Trace_BlockRules", "Trace_BlockRules.cfg", f, n, "C15-observe-all-%d" % i,
                                         False, 1800)
        if kind == "violated":
            idx = vlib._violation_walk_index(r, ws)
            bad = ws[idx if idx is not None else 0]
            k = key(bad, r.violated)
            p = vlib.save_replay(rep.prop, "violation-observe-%s.ndjson" % hashlib.sha1(k.encode()).hexdigest()[:10], bad)
            rep.violation(k, p, "violated on the implementation's recorded states: %s\n  key: %s" % (r.violated, k))
        elif kind != "accepted":
            raise vlib.ToolError("observe mode rejected %s" % f)


def selftest(rep, trace, wd):
    """Not vacuous: a mutated block whose logged verdicts say 'accepted, same id' must be judged a violation."""
    for w in vlib.split_trace(trace):
        o = json.loads(w[-1])
        if o["ev"] == "Mutate" and o["f"] == "txSwap" and o["fix"] == 0:
            o.update({"vf": "ok", "vc": True, "te": True, "idc": False})
            w = list(w)
            w[-1] = json.dumps(o, separators=(",", ":"))
            p = os.path.join(wd, "selftest.ndjson")
            open(p, "w").write("\n".join(w) + "\n")
            v = vlib.validate_trace("Trace_BlockRules", "Trace_BlockRules.cfg", p, name="C15-selftest")
            if v.accepted or not v.violations:
                raise vlib.ToolError("self-test: an accepted reordered block was not judged a violation")
            rep.extra["selftest"] = "accepted reordered block judged a violation: %s" % v.violations[0][1]
            return
    raise vlib.ToolError("self-test: no txSwap case in the trace")
