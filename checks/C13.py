"""C13 — the block Merkle accumulator (Merklized blueprint, FuelBlocks) is append-only and exact.
MC: Merkle.tla, dense part (roots are abstract = the leaf sequence they commit to; ghost = accepted leaves).
B1: every edge of the bounded graph replayed on the real table; B3: seeded random driver (inserts on stored
heights, replaces, takes, removes, mixed batches, commits).  The harness maps every recorded root to the leaf
sequence whose RFC-6962 reference root (own routine over the block ids) it equals; TLC judges (Trace_Merkle)."""
import os
import sys

import vlib

sys.path.insert(0, os.path.join(vlib.VERIF, "tools"))
import stor  # noqa: E402

TRACE = ("Trace_Merkle", "Trace_Merkle_dense.cfg")


def run(rep, tier, args):
    thorough = tier == "thorough"
    rep.assumptions += [
        "MC bounds: heights 0..2, 2 block variants per height, <=3 leaves, batches <=2 (thorough: 4 heights, <=4 leaves, "
        "batches <=3); traces: 3 heights x 2 variants, <=5 leaves, batches <=3",
        "hashes are abstract in TLC; the harness maps a recorded root to the leaf sequence whose reference root (independent "
        "RFC-6962 routine over the block ids = BlockEncoder encodings) it equals, SHA-256 collisions excluded",
        "operations go through StorageMutate / StorageBatchMutate / MerkleRootStorage of a long-lived StorageTransaction "
        "over InMemoryStorage (plus commits into the base store); 'exact' is read against the blocks currently stored",
    ]
    hbin = stor.harness_bin()
    wd = vlib.workdir("C13")
    if args.replay:
        rep.judge_trace(*TRACE, args.replay, name="C13-replay", key_fn=key)
        return
    mc = rep.model_check("MC_Merkle", "MC_Merkle_dense%s.cfg" % ("_thorough" if thorough else ""), workers=4,
                         coverage=thorough, timeout=3000)
    if mc.violated:
        vlib.log("model violates %s; the implementation traces decide" % mc.violated)
    walks, n_edges, info = stor.edge_walks_multi("MC_Merkle", ["Edges_Merkle_dense.cfg"], workers=1)
    rep.extra.update(edges=n_edges, edge_cfgs=info, exhaustive=True)
    wp, tp = os.path.join(wd, "walks-b1.ndjson"), os.path.join(wd, "trace-b1.ndjson")
    vlib.write_walks(wp, walks)
    vlib.run_harness(hbin, ["dense", "--walks", wp, "--out", tp])
    for w in walks:
        rep.count_case(w)
    rep.add_sample({"b1_walk": max(walks, key=len)})
    n3, l3 = (250, 14) if not thorough else (6000, 16)
    tp3 = os.path.join(wd, "trace-b3.ndjson")
    vlib.run_harness(hbin, ["dense-random", "--walks", n3, "--len", l3, "--out", tp3])
    t3 = vlib.split_trace(tp3)
    for w in t3:
        rep.count_case(w)
    rep.add_sample({"random_history": t3[0][:6]})
    tpx = os.path.join(wd, "trace-all.ndjson")
    with open(tpx, "w") as f:
        f.write(open(tp).read())
        f.write(open(tp3).read())
    stor.judge_chunks(rep, *TRACE, tpx, "C13", parts=4 if not thorough else 8, key_fn=key)
    rep.extra["selftest"] = stor.selftest_corrupt(*TRACE, tp3, "C13-selftest", corrupt)


def key(lines, names):
    """violated names + the operation history of the walk (arguments and results, without the projected state)"""
    import json
    ops = []
    for ln in lines[1:]:
        o = json.loads(ln)
        ops.append("%s(%s)=%s" % (o["ev"], ",".join(str(o[k]) for k in ("k", "v", "items", "ks") if k in o), o.get("res", "")))
    return "%s :: %s" % (",".join(sorted(set(names))), " ".join(ops))


def corrupt(evs):
    """a recorded root that is the reference root of a different leaf sequence"""
    for e in evs[1:]:
        for m in e.get("meta", []):
            if m["has"] and len(m["seq"]) >= 1 and m["seq"][0] >= 0:
                m["seq"][0] += 1 if m["seq"][0] % 10 == 1 else -1
                return True
    return False
