"""C06 — A transaction id is executed at most once in the chain's history.
Exec.tla invariants: ExecutedOnce (ghost sequence of every executed id incl. mints and regenesis-preserved ids has no duplicate), DupRejected (validation of a block containing a processed id / the same id twice is rejected).
MC of MC_Exec, B2: Sim_Exec behaviours executed by the real executor, B3: seeded driver; all judged by TLC through
Trace_Exec (tools/exec_common.py holds the shared pipeline)."""
import exec_common


def run(rep, tier, args):
    exec_common.run(rep, tier, args, "C06")
