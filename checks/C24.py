"""C24 — the PoA task produces consecutive, sealed, time-ordered blocks.
MC: PoA.tla (MainTask as one action per port call, SyncTask, scripted environment) exhaustively for the interval
trigger in the quick tier (all triggers / free interleaving in the thorough tier) and by simulation for all triggers.
B2: the environment actions of `tlc -simulate` behaviours are replayed on the real `fuel_core_poa::new_service`
(public ports, paused single-threaded tokio clock); B3: seeded random environment schedules with faults.
Every port call of the real service is an event; TLC validates the traces against Trace_PoA (strict: each port call
must be the spec's next step with the same arguments/result; observe: ghosts from the logged calls, invariants judge)."""
import json
import os
import vlib

CFG_I = {"trig": "Interval", "bt": 1, "tus": 3, "minPeers": 0, "lag": 0}
F = {"a": "SetLeader", "k": "F", "off": 0, "cnt": 0, "dt": 0}
# directed schedules: the history of the defect fixed in /repo 7f7d2f072b and two variants of it
DIRECTED = [
    [{"a": "New", "c": CFG_I}, {"a": "NetImport", "dt": 3}, F, {"a": "Advance", "d": 2},
     {"a": "Manual", "start": -1, "n": 1}, {"a": "Advance", "d": 2}, {"a": "Advance", "d": 2}],
    [{"a": "New", "c": CFG_I}, {"a": "NetImport", "dt": 4}, F, {"a": "Advance", "d": 2},
     {"a": "Advance", "d": 2}, {"a": "Advance", "d": 2}, {"a": "Advance", "d": 2}],
    [{"a": "New", "c": dict(CFG_I, trig="Instant", bt=0)}, {"a": "NetImport", "dt": 5}, F, {"a": "NewTx"},
     {"a": "Advance", "d": 3}, {"a": "Manual", "start": -1, "n": 2}, {"a": "NewTx"}, {"a": "Advance", "d": 1}],
]


def key(lines, names):
    cfg = {}
    for ln in lines:
        if ln.startswith('{"ev":"New"'):
            cfg = json.loads(ln).get("c", {})
    last = {}
    for ln in reversed(lines):
        o = json.loads(ln)
        if o["ev"] in ("LoopStart", "LeaderState", "Produce", "Commit"):
            last = {k: o.get(k) for k in ("ev", "h", "t", "res", "sealed") if k in o}
            break
    return "%s :: request=%s trigger=%s tus=%s" % (",".join(sorted(set(names))), vlib.canon(last), cfg.get("trig"),
                                                 cfg.get("tus"))


def run(rep, tier, args):
    rep.assumptions += [
        "time is the paused tokio clock in ticks of 500 ms; GetTime = T0 + lag + whole seconds of it + a scripted skew",
        "mock importer accepts exactly the next height with a non-decreasing timestamp; producer/signer/importer "
        "failures, leader_state results and reconciled blocks are scripted one-shot values",
        "'told' = the task's own reads: initial header, its committed blocks, reconciled blocks it imported, the sync "
        "header read in ensure_synced, heights (only) from latest_block_height",
        "predefined blocks, TransactionsSource::SpecificTransactions and service shutdown are not modelled",
    ]
    mc = rep.model_check("MC_PoA", "MC_PoA.cfg", workers=8, timeout=1500)
    if tier == "thorough":
        for c in ("MC_PoA_interval.cfg", "MC_PoA_instant.cfg", "MC_PoA_open.cfg", "MC_PoA_free.cfg"):
            r = rep.model_check("MC_PoA", c, workers=10, timeout=3400, coverage=(c == "MC_PoA_interval.cfg"))
            mc.violated += r.violated
    if mc.violated:
        vlib.log("model violates %s; the implementation traces decide" % mc.violated)
    hbin = os.path.join(vlib.cargo_build("h-poa"), "h-poa")
    wd = vlib.workdir("C24")
    if args.replay:
        rep.judge_trace("Trace_PoA", "Trace_PoA.cfg", args.replay, name="C24-replay", key_fn=key)
        return
    # B2: simulated behaviours of the spec (their environment actions) on the real service; TLC also checks
    # the invariants on every simulated state
    num, depth = (40, 60) if tier == "quick" else (600, 120)
    walks, r = vlib.sim_walks("Sim_PoA", "Sim_PoA.cfg", num=num, depth=depth, name="C24-sim", siblings=1)
    rep.add_mc(r, "Sim_PoA.cfg (simulation)")
    if r.violated:
        vlib.log("simulation violates %s; the implementation traces decide" % r.violated)
    walks = [w for w in walks if w and w[0]["a"] == "New"]
    walks = DIRECTED + walks
    wp = os.path.join(wd, "walks.ndjson")
    vlib.write_walks(wp, walks)
    tp = os.path.join(wd, "b2.ndjson")
    vlib.run_harness(hbin, ["run", "--walks", wp, "--out", tp])
    rep.extra["sim_walks"] = len(walks) - len(DIRECTED)
    rep.extra["directed_walks"] = len(DIRECTED)
    for w in walks:
        rep.count_case(w, nontrivial=len(w) > 3)
    rep.add_sample({"tlc_behaviour_env_actions": walks[len(DIRECTED)][:6] if len(walks) > len(DIRECTED) else []})
    judge_chunks(rep, vlib.split_trace(tp), wd, "C24-b2")
    # B3: seeded random schedules with faults
    n, ln = (120, 40) if tier == "quick" else (2500, 60)
    tp3 = os.path.join(wd, "b3.ndjson")
    vlib.run_harness(hbin, ["random", "--walks", n, "--len", ln, "--out", tp3])
    ws = vlib.split_trace(tp3)
    for w in ws:
        rep.count_case(w)
    rep.add_sample({"random_schedule_events": [json.loads(x) for x in ws[0][1:6]]})
    kinds = {}
    for w in ws:
        for x in w:
            o = json.loads(x)
            k = o["ev"] + (":" + str(o["res"]) if "res" in o and o["ev"] != "DbHeight" else "")
            kinds[k] = kinds.get(k, 0) + 1
    rep.extra["b3_event_kinds"] = kinds
    for need in ("Commit:True", "Commit:False", "Produce:False", "Seal:False", "ExecCommit:True", "ExecCommit:False",
                 "LeaderState:F", "LeaderState:U", "ManualDone:Ok", "SyncBlock", "Release"):
        if not kinds.get(need):
            raise vlib.ToolError("random driver never produced event %s" % need)
    judge_chunks(rep, ws, wd, "C24-b3")
    selftest(rep, ws, wd)


def judge_chunks(rep, ws, wd, name, per=400):
    """validate the walks in chunks (bounded TLC memory), several TLC instances in parallel"""
    from concurrent.futures import ThreadPoolExecutor
    files = []
    for i in range(0, len(ws), per):
        f = os.path.join(wd, "%s-part%d.ndjson" % (name, i // per))
        with open(f, "w") as fh:
            for w in ws[i:i + per]:
                fh.write("\n".join(w) + "\n")
        files.append(f)

    def one(i):
        return rep.judge_trace("Trace_PoA", "Trace_PoA.cfg", files[i], name="%s-p%d" % (name, i), key_fn=key,
                               timeout=3400)
    with ThreadPoolExecutor(max_workers=4) as ex:
        list(ex.map(one, range(len(files))))


def selftest(rep, ws, wd):
    """The binding is not vacuous: (1) a produce request whose logged timestamp is lowered below a block the task
    committed must be judged a violation; (2) a changed height of a leader_state call must not be accepted."""
    def find(pred):
        for w in ws:
            seen_commit = False
            for i, x in enumerate(w):
                o = json.loads(x)
                if pred(o, seen_commit):
                    return list(w[:i + 1]), o
                if o["ev"] == "Commit" and o["res"]:
                    seen_commit = True
        return None, None
    w, o = find(lambda o, sc: o["ev"] == "Produce" and sc)
    if w is None:
        raise vlib.ToolError("self-test: no produce after a commit in the random traces")
    o["t"] = 0
    w[-1] = json.dumps(o, separators=(",", ":"))
    p = os.path.join(wd, "selftest1.ndjson")
    open(p, "w").write("\n".join(w) + "\n")
    v = vlib.validate_trace("Trace_PoA", "Trace_PoA.cfg", p, name="C24-selftest1")
    if v.accepted or not v.violations or "ReqTimeMonotone" not in v.violations[0][1]:
        raise vlib.ToolError("self-test: lowered produce timestamp was not judged a ReqTimeMonotone violation")
    w, o = find(lambda o, sc: o["ev"] == "LeaderState" and sc)
    if w is not None:
        o["h"] += 1
        w[-1] = json.dumps(o, separators=(",", ":"))
        p = os.path.join(wd, "selftest2.ndjson")
        open(p, "w").write("\n".join(w) + "\n")
        v = vlib.validate_trace("Trace_PoA", "Trace_PoA.cfg", p, name="C24-selftest2")
        if v.accepted or not v.violations:
            raise vlib.ToolError("self-test: wrong leader_state height was accepted")
    rep.extra["selftest"] = "lowered produce timestamp and shifted leader_state height judged violations"
