"""C34 — gas prices stay within bounds and change at most the configured rate per update.
MC: GasPrice.tla (AlgorithmUpdaterV1 transcribed over small integers) exhaustively for three configurations.
B2: `tlc -simulate` behaviours replayed on the real AlgorithmUpdaterV1; B3: seeded random configurations and
update sequences; both validated by TLC field-by-field (strict) with the invariants judged on the logged fields."""
import json
import os
import vlib


def key(lines, names):
    o = json.loads(lines[-1])
    o.pop("st", None)
    cfg = {}
    for ln in lines:
        if ln.startswith('{"ev":"New"'):
            cfg = json.loads(ln).get("c", {})
    return "%s :: last=%s cfg=%s" % (",".join(sorted(set(names))), vlib.canon(o), vlib.canon(cfg))


def run(rep, tier, args):
    rep.assumptions += ["small integers (prices <= ~10^5): u64/u128/i128 saturation paths are not reached",
                        "'per L2 block' is read per updater call (update_l2_block_data / update_da_record_data); the "
                        "service applies buffered DA bundles and the L2 update in one block (see DESIGN.md)",
                        "unrecorded-blocks storage is the in-memory BTreeMap implementation"]
    suffix = "" if tier == "quick" else "_thorough"
    rep.model_check("MC_GasPrice", "MC_GasPrice%s.cfg" % suffix, workers=8, timeout=3000, coverage=(tier != "quick"))
    hbin = os.path.join(vlib.cargo_build("h-gas"), "h-gas")
    wd = vlib.workdir("C34")
    if args.replay:
        rep.judge_trace("Trace_GasPrice", "Trace_GasPrice.cfg", args.replay, name="C34-replay", key_fn=key)
        return
    num, depth = (40, 10) if tier == "quick" else (400, 14)
    walks, r = vlib.sim_walks("Sim_GasPrice", "Sim_GasPrice.cfg", num=num, depth=depth, name="C34-sim")
    wp = os.path.join(wd, "walks.ndjson")
    vlib.write_walks(wp, walks)
    tp = os.path.join(wd, "b2.ndjson")
    vlib.run_harness(hbin, ["run", "--walks", wp, "--out", tp])
    rep.extra["sim_walks"] = len(walks)
    for w in walks:
        rep.count_case(w, nontrivial=any(s["a"] != "New" for s in w))
    if walks:
        rep.add_sample({"tlc_behaviour": walks[0][1:5]})
    rep.judge_trace("Trace_GasPrice", "Trace_GasPrice.cfg", tp, name="C34-b2", key_fn=key)
    n = 300 if tier == "quick" else 5000
    tp3 = os.path.join(wd, "b3.ndjson")
    vlib.run_harness(hbin, ["random", "--walks", n, "--len", 16, "--out", tp3])
    ws = vlib.split_trace(tp3)
    for w in ws:
        rep.count_case(w)
    rep.add_sample({"random_history": [json.loads(x) for x in ws[0][1:4]]})
    rep.judge_trace("Trace_GasPrice", "Trace_GasPrice.cfg", tp3, name="C34-b3", key_fn=key)
    # self-test: corrupt a logged DA price beyond the allowed change
    w = list(ws[0])
    for i in range(len(w) - 1, 1, -1):
        o = json.loads(w[i])
        if o["ev"] == "UpdateL2" and o["res"] == "Ok":
            o["st"]["da"] = o["st"]["da"] * 3 + 1000
            w[i] = json.dumps(o, separators=(",", ":"))
            w = w[:i + 1]
            break
    sp = os.path.join(wd, "selftest.ndjson")
    open(sp, "w").write("\n".join(w) + "\n")
    sv = vlib.validate_trace("Trace_GasPrice", "Trace_GasPrice.cfg", sp, name="C34-selftest")
    if sv.accepted or not sv.violations:
        raise vlib.ToolError("self-test: corrupted DA price was not judged a violation")
    rep.extra["selftest"] = "corrupted DA price judged a violation"
