"""C28 — sync status trichotomy.  MC of SyncState, B1: every edge of the reachable graph replayed on the
real State, B3: seeded random histories; all judged by TLC through Trace_SyncState."""
import os
import vlib


def run(rep, tier, args):
    rep.assumptions += ["heights bounded by MaxH=4 (quick) in the model; u32 saturation at u32::MAX not explored",
                        "State's private status is observed through process_range() and PartialEq with State::new()"]
    maxh = 4
    mc = rep.model_check("MC_SyncState", "MC_SyncState.cfg", workers=4, coverage=(tier == "thorough"))
    if mc.violated:
        # the design itself breaks the property: confirm on the implementation below (the edge walks
        # contain the counterexample's actions); report if the implementation reproduces it
        vlib.log("model violates %s; confirming on implementation" % mc.violated)
    bindir = vlib.cargo_build("h-sync")
    hbin = os.path.join(bindir, "h-sync")
    wd = vlib.workdir("C28")
    if args.replay:
        rep.judge_trace("Trace_SyncState", "Trace_SyncState.cfg", args.replay, name="C28-replay")
        return
    # B1: edge cover
    er = vlib.require_clean(vlib.tlc("MC_SyncState", "Edges_SyncState.cfg", workers=1), "edges")
    edges = er.printed("EDGE")
    if not edges:
        raise vlib.ToolError("no edges emitted")
    walks = vlib.edge_walks(edges)
    wp = os.path.join(wd, "walks.ndjson")
    vlib.write_walks(wp, walks)
    tp = os.path.join(wd, "trace-b1.ndjson")
    vlib.run_harness(hbin, ["syncstate", "--walks", wp, "--out", tp, "--maxh", maxh])
    rep.extra["edges"] = len(edges)
    rep.extra["edge_walks"] = len(walks)
    rep.extra["exhaustive"] = True
    rep.add_sample({"walk": walks[0][:8]})
    for w in walks:
        rep.count_case(w)
    rep.judge_trace("Trace_SyncState", "Trace_SyncState.cfg", tp, name="C28-b1")
    # B3: random histories
    n = 300 if tier == "quick" else 5000
    tp3 = os.path.join(wd, "trace-b3.ndjson")
    vlib.run_harness(hbin, ["syncstate-random", "--walks", n, "--len", 40, "--maxh", maxh, "--out", tp3])
    for w in vlib.split_trace(tp3):
        rep.count_case(w)
    rep.add_sample({"random_history": vlib.split_trace(tp3)[0][:6]})
    rep.judge_trace("Trace_SyncState", "Trace_SyncState.cfg", tp3, name="C28-b3")
    selftest(rep, tp3)


def selftest(rep, trace):
    """The binding is not vacuous: corrupt one logged status and require a strict-mode rejection."""
    import json
    walks = vlib.split_trace(trace)
    w = list(walks[0])
    for i in range(len(w) - 1, 0, -1):
        o = json.loads(w[i])
        if o.get("st", {}).get("k") == "P":
            o["st"]["hi"] += 1
            w[i] = json.dumps(o, separators=(",", ":"))
            break
    else:
        return
    p = os.path.join(vlib.WORK, "C28", "selftest.ndjson")
    open(p, "w").write("\n".join(w) + "\n")
    v = vlib.validate_trace("Trace_SyncState", "Trace_SyncState.cfg", p, name="C28-selftest")
    if v.accepted:
        raise vlib.ToolError("self-test: corrupted trace was accepted")
    rep.extra["selftest"] = "corrupted trace rejected"
