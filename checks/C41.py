"""C41 — services start and stop cleanly under any interleaving.
MC: Service.tla (transcription of ServiceRunner: start/stop/await_stop and the runner task's segments
initialize_loop/run/run_task/shutdown_task) with 2 awaiting clients, all task outcomes and the four
gate/aware task scripts; safety invariants plus StopRequested ~> AwaitReturns under weak fairness.
B1: every edge of the reachable graph replayed on the real ServiceRunner (single-threaded tokio runtime
stepped by the harness), each walk closed by the fair suffix + End (bounded progress).
B3: seeded random histories.  TLC judges all traces through Trace_Service."""
import json
import os
import re
import vlib


def key(lines, names):
    acts, cfg = [], ""
    for ln in lines[1:]:
        o = json.loads(ln)
        if o["ev"] == "New":
            cfg = "%s/%s" % (o.get("init"), o.get("run"))
        a = o["ev"] + "".join("(%s)" % o[k] for k in ("o", "c") if k in o)
        if not acts or acts[-1] != a:      # collapse repeated polls
            acts.append(a)
    last = json.loads(lines[-1])
    return "%s :: task=%s :: final st=%s ph=%s aw=%s :: %s" % (
        ",".join(sorted(set(names))), cfg, last.get("st"), last.get("ph"), last.get("aw"), " ".join(acts))


def run(rep, tier, args):
    rep.assumptions += [
        "2 awaiting clients, at most MaxRun=2 (quick) / 3 (thorough) run() invocations, one await_stop per client",
        "single-threaded tokio runtime: the runner task executes atomically between its await points; "
        "multi-threaded interleavings inside tokio's watch channel are trusted",
        "liveness = weak fairness on runtime polls, gate releases of non-watching task functions, shutdown, polls of "
        "pending awaits; on the implementation it is checked as bounded progress (fair suffix of <= 8 rounds, then End)",
        "start_and_await / stop_and_await / await_start_or_stop and Drop are not driven",
    ]
    suffix = "" if tier == "quick" else "_thorough"
    mc = rep.model_check("MC_Service", "MC_Service%s.cfg" % suffix, workers=4, coverage=(tier == "thorough"))
    if re.search(r"Temporal propert\w+ .*violated", mc.out) and "TemporalProperty" not in mc.violated:
        mc.violated.append("TemporalProperty")
    if tier == "thorough":
        cov = mc.coverage()
        acts = ("New", "Start", "Stop", "Wake", "TaskInit", "Run", "Shutdown", "AwaitBegin", "AwaitPoll", "End")
        idle = [a for a in acts if cov.get(a, (0, 0))[1] == 0]
        if idle:
            raise vlib.ToolError("vacuous model: actions never taken: %s" % idle)
        rep.extra["action_coverage"] = {a: cov[a][1] for a in acts}
    if mc.violated:
        vlib.log("model violates %s; the implementation traces decide" % mc.violated)
    hbin = os.path.join(vlib.cargo_build("h-services"), "h-services")
    wd = vlib.workdir("C41")
    tcfg = "Trace_Service%s.cfg" % suffix
    if args.replay:
        rep.judge_trace("Trace_Service", tcfg, args.replay, name="C41-replay", key_fn=key)
        return
    maxrun, nc = (2, 2) if tier == "quick" else (3, 3)
    # B1: every edge of the reachable graph
    er = vlib.require_clean(vlib.tlc("MC_Service", "Edges_Service%s.cfg" % suffix, workers=1), "edges")
    edges = er.printed("EDGE")
    if not edges:
        raise vlib.ToolError("no edges emitted")
    walks = vlib.edge_walks(edges)
    wp = os.path.join(wd, "walks.ndjson")
    vlib.write_walks(wp, walks)
    tp = os.path.join(wd, "trace-b1.ndjson")
    run_chunked(hbin, ["service", "--nc", nc], walks, wd, tp)
    rep.extra.update({"edges": len(edges), "edge_walks": len(walks), "exhaustive": True})
    rep.add_sample({"walk": walks[0][:10]})
    for w in walks:
        rep.count_case(w)
    rep.judge_trace("Trace_Service", tcfg, tp, name="C41-b1", key_fn=key)
    # B3: random histories
    n = 400 if tier == "quick" else 6000
    tp3 = os.path.join(wd, "trace-b3.ndjson")
    with open(tp3, "w") as out:
        for k in range(0, n, CHUNK):
            part = os.path.join(wd, "part.ndjson")
            vlib.run_harness(hbin, ["service-random", "--walks", min(CHUNK, n - k), "--len", 14, "--maxrun", maxrun,
                                    "--nc", nc, "--salt", k // CHUNK, "--out", part])
            out.write(open(part).read())
    w3 = vlib.split_trace(tp3)
    for w in w3:
        rep.count_case([json.loads(x).get("ev") for x in w] + [w[1]])
    rep.add_sample({"random_history": [json.loads(x) for x in w3[0][:6]]})
    rep.judge_trace("Trace_Service", tcfg, tp3, name="C41-b3", key_fn=key)
    if not rep.violations and not rep.divergences:
        selftest(rep, w3, tcfg)


CHUNK = 1000


def run_chunked(hbin, base, walks, wd, out_path):
    """Every ServiceRunner registers metrics in a process-global registry (and re-encodes it): keep the number of
    runners per harness process bounded."""
    with open(out_path, "w") as out:
        for k in range(0, len(walks), CHUNK):
            wp = os.path.join(wd, "walks-part.ndjson")
            vlib.write_walks(wp, walks[k:k + CHUNK], start_id=k)
            part = os.path.join(wd, "part.ndjson")
            vlib.run_harness(hbin, base + ["--walks", wp, "--out", part])
            out.write(open(part).read())


def selftest(rep, walks, tcfg):
    """Not vacuous: (a) a corrupted state is rejected in strict mode; (b) an await left pending at End is judged a
    BoundedProgress violation on the logged states."""
    w = list(walks[0])
    o = json.loads(w[-1])
    assert o["ev"] == "End"
    o["aw"][0] = "pending"
    w[-1] = json.dumps(o, separators=(",", ":"))
    p = os.path.join(vlib.WORK, "C41", "selftest.ndjson")
    open(p, "w").write("\n".join(w) + "\n")
    v = vlib.validate_trace("Trace_Service", tcfg, p, name="C41-selftest")
    if v.accepted or not v.violations or "BoundedProgress" not in v.violations[0][1]:
        raise vlib.ToolError("self-test: a pending await at End was not judged a BoundedProgress violation")
    rep.extra["selftest"] = "pending await at End rejected and judged a BoundedProgress violation"
