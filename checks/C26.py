"""C26 - sync imports network blocks in order and only after header checks.
MC: SyncImport.tla (import rounds over SyncState's status and Chunker's batching; per chunk the pipeline
get_headers_batch / check_sealed_header / get_blocks with nondeterministic peer answers, the ordered execution
loop, failed_to_process) exhaustively.  B2: `tlc -simulate` behaviours become per-round peer scripts executed on
the real Import with scripted ports on a paused single-thread runtime; B3: seeded random scripts with delays.
Traces are validated by TLC against Trace_SyncImport (strict: each port call is the spec's own step of the chunk
it belongs to; observe: the invariants judge the logged calls)."""
import json
import os
import random
import vlib


def fold(hist, rnd):
    """TLC behaviour -> harness ops (Observe / Round with the answers TLC chose, plus random delays)."""
    ops = []
    cur = None

    def delay(e):
        if rnd.random() < 0.3:
            e["delay"] = rnd.randint(1, 40)
        return e

    for a in hist:
        n = a["name"]
        if n == "Observe":
            ops.append({"a": "Observe", "h": a["h"]})
        elif n == "Begin":
            cur = {"a": "Round", "hdr": {}, "txs": {}, "chk": {}, "exe": {}}
            ops.append(cur)
        elif cur is None:
            continue
        elif n == "GetHeaders":
            e = {"kind": a["resp"]["kind"], "p": a["p"]}
            if e["kind"] == "ok":
                e["hs"] = a["resp"].get("hs", [])
            cur["hdr"][str(a["lo"])] = delay(e)
        elif n == "GetTxs":
            e = {"kind": a["resp"]["kind"], "p": a["p"]}
            if e["kind"] == "ok":
                e["tv"] = a["resp"].get("tv", [])
            cur["txs"][str(a["lo"])] = delay(e)
        elif n == "CheckHeader":
            cur["chk"][str(a["h"])] = bool(a["res"])
        elif n == "Execute":
            cur["exe"][str(a["h"])] = delay({"res": "ok" if a["res"] else "err"})
        elif n == "End":
            cur = None
    return ops


def key(lines, names):
    evs = []
    for ln in lines[1:]:
        o = json.loads(ln)
        o.pop("st", None)
        evs.append(vlib.canon(o))
    return "%s :: %s" % (",".join(sorted(set(names))), " ; ".join(evs[-8:]))


def run(rep, tier, args):
    rep.assumptions += [
        "model bounds: heights 1..3 after committed height 0 (1..5 in simulated behaviours, 1..8 random), header batch "
        "size 2 (3 in a second random run), two peers, two header variants per height, two rounds (four simulated, "
        "five random)",
        "the spec lets the chunk pipelines interleave freely (a superset of block_stream_buffer_size); End is taken "
        "when the paused runtime is quiescent, so pipelines detached by an early stop finish inside their round",
        "observed-height updates happen between rounds; no external commits and no shutdown during a round",
        "a transaction answer shorter than the headers it is zipped with counts as bad data (MissingTransactions or "
        "InvalidTransactions must follow); extra headers / transactions beyond the range are ignored, as the code does"]
    suffix = "" if tier == "quick" else "_thorough"
    rep.model_check("MC_SyncImport", "MC_SyncImport%s.cfg" % suffix, workers=8, timeout=3000,
                    coverage=(tier != "quick"))
    # H_SYNCIMPORT_BIN: a harness binary built elsewhere (private-clone mutation runs)
    hbin = os.environ.get("H_SYNCIMPORT_BIN") or os.path.join(vlib.cargo_build("h-syncimport"), "h-syncimport")
    wd = vlib.workdir("C26")
    if args.replay:
        rep.judge_trace("Trace_SyncImport", "Trace_SyncImport.cfg", args.replay, name="C26-replay", key_fn=key)
        return
    # B2
    # only complete behaviours are printed (Sim cfg: SimDepth = depth - 1)
    num, depth, scfg = (60, 61, "Sim_SyncImport.cfg") if tier == "quick" else (600, 91, "Sim_SyncImport_thorough.cfg")
    hists, r = vlib.sim_walks("Sim_SyncImport", scfg, num=num, depth=depth, name="C26-sim",
                              strip=(), siblings=1)
    rnd = random.Random(vlib.seed())
    walks, seen = [], set()
    for h in hists:
        ops = fold([dict(s, name=s["a"]) for s in h], rnd)
        c = vlib.canon(ops)
        if any(o["a"] == "Round" for o in ops) and c not in seen:
            seen.add(c)
            walks.append(ops)
    if not walks:
        raise vlib.ToolError("no simulated behaviours")
    wp = os.path.join(wd, "walks.ndjson")
    vlib.write_walks(wp, walks)
    tp = os.path.join(wd, "b2.ndjson")
    vlib.run_harness(hbin, ["run", "--walks", wp, "--out", tp, "--size", 2, "--buffer", 3])
    rep.extra["sim_walks"] = len(walks)
    for w in walks:
        rep.count_case(w)
    rep.add_sample({"tlc_behaviour_as_rounds": walks[0][:3]})
    rep.judge_trace("Trace_SyncImport", "Trace_SyncImport.cfg", tp, name="C26-b2", key_fn=key)
    # B3
    n = 150 if tier == "quick" else 2500
    stats = {"executed": 0, "reports": {}}
    first = None
    for size, buf, cfg in ((2, 3, "Trace_SyncImport.cfg"), (3, 10, "Trace_SyncImport_s3.cfg")):
        tp3 = os.path.join(wd, "b3-s%d.ndjson" % size)
        vlib.run_harness(hbin, ["random", "--walks", n, "--len", 5, "--size", size, "--buffer", buf, "--out", tp3])
        ws = vlib.split_trace(tp3)
        first = first or (tp3, ws)
        for w in ws:
            rep.count_case(w)
            for ln in w:
                if ln.startswith('{"ev":"Execute"'):
                    stats["executed"] += 1
                elif ln.startswith('{"ev":"Report"'):
                    rr = json.loads(ln)["r"]
                    stats["reports"][rr] = stats["reports"].get(rr, 0) + 1
        rep.judge_trace("Trace_SyncImport", cfg, tp3, name="C26-b3-s%d" % size, key_fn=key)
    rep.extra["random_executions"] = stats["executed"]
    rep.extra["random_reports"] = stats["reports"]
    rep.add_sample({"random_history": [json.loads(x) for x in first[1][0][1:7]]})
    if not rep.violations:      # (on a violating implementation the traces are not a clean base for it)
        selftest(rep, wd, first[1])


def selftest(rep, wd, ws):
    """(a) a fault whose report is removed from the trace, (b) an execution moved to the wrong height:
    both must be judged violations."""
    done = set()
    for w in ws:
        w = list(w)
        for i in range(2, len(w)):
            o = json.loads(w[i])
            if "a" not in done and o["ev"] == "Report" and o["r"] in ("BadBlockHeader", "MissingBlockHeaders",
                                                                     "InvalidTransactions"):
                ends = [j for j in range(i, len(w)) if w[j].startswith('{"ev":"End"')]
                if ends:
                    t = w[:i] + w[i + 1:ends[0] + 1]
                    _expect(wd, "a", t, "BadPeersReported")
                    done.add("a")
            if "b" not in done and o["ev"] == "Execute":
                o["h"] += 1
                t = w[:i] + [json.dumps(o, separators=(",", ":"))]
                _expect(wd, "b", t, "ExecutedConsecutive")
                done.add("b")
        if len(done) == 2:
            break
    if len(done) < 2:
        raise vlib.ToolError("self-test: no suitable events in the random traces")
    rep.extra["selftest"] = "a removed peer report and an execution at the wrong height are both judged violations"


def _expect(wd, tag, lines, inv):
    p = os.path.join(wd, "selftest-%s.ndjson" % tag)
    open(p, "w").write("\n".join(lines) + "\n")
    v = vlib.validate_trace("Trace_SyncImport", "Trace_SyncImport.cfg", p, name="C26-selftest-" + tag)
    names = [n for (_, ns, _) in v.violations for n in ns]
    if v.accepted or inv not in names:
        raise vlib.ToolError("self-test %s: corrupted trace not judged a violation of %s (got %s)" % (tag, inv, names))
