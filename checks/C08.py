"""C08 - the importer only commits the next unique block, atomically, in order.
MC: Importer.tla (the importer's port calls as actions over an abstract on-chain database) exhaustively.
B2: `tlc -simulate` behaviours are folded back into request sequences (with the second client's attempts placed
at the port call where TLC interleaved them) and executed on the real Importer over the real in-memory
Database<OnChain>; B3: seeded random request sequences.  Every trace is validated by TLC against
Trace_Importer (strict: each port call / return is the spec's own step with the logged database projection;
observe: the invariants judge the logged database states, digests and subscriber sequences)."""
import json
import os
import vlib

GATES = ("ReadHeight", "StoreNew", "Verify", "Execute", "CheckRoot", "Publish", "DbCommit")


def fold(hist):
    """TLC behaviour (stage-level actions) -> harness ops (requests with `during` attempts)."""
    ops = []
    cur = None          # the op of the request in flight
    for i, a in enumerate(hist):
        n = a["name"]
        if n == "Lock":
            r = a["req"]
            cur = {"a": "Req", "c": a["c"], "kind": r["kind"], "b": r["b"], "exe": r["exe"], "ver": r["ver"],
                   "pub": r["pub"], "during": []}
            ops.append(cur)
        elif n == "LockFail":
            if cur is None:
                continue
            # park the request in flight at its next port call (or, failing that, at the previous one)
            at = None
            for b in hist[i + 1:]:
                if b.get("c") == cur["c"] and b["name"] in GATES:
                    at = b["name"]
                    break
                if b["name"] in ("Return", "Lock"):
                    break
            if at is None:
                continue
            r = a["req"]
            cur["during"].append({"at": at, "c": a["c"], "kind": r["kind"], "b": r["b"], "exe": r["exe"],
                                  "ver": r["ver"], "pub": r["pub"]})
        elif n == "Return":
            cur = None
        elif n == "Seed":
            ops.append({"a": "Seed", "what": a["what"], "x": a["x"]})
        elif n == "Release":
            ops.append({"a": "Release"})
        elif n == "Subscribe":
            ops.append({"a": "Subscribe", "s": a["s"]})
    return ops


def key(lines, names):
    evs = []
    for ln in lines[1:]:
        o = json.loads(ln)
        if o["ev"] == "Lock":
            evs.append("%s%s(%s,%s,%s,%s,%s)%s" % (o["kind"][0], o["c"], vlib.canon(o["b"]), o["exe"], o["ver"],
                                                 o["pub"], "", "" if o["res"] == "Ok" else "!"))
        elif o["ev"] in ("Return", "DbCommit"):
            evs.append("%s:%s" % (o["ev"], o["res"]))
        elif o["ev"] in ("Seed",):
            evs.append("Seed(%s,%s)" % (o["what"], o["x"]))
    return "%s :: %s" % (",".join(sorted(set(names))), " ; ".join(evs[-12:]))


def run(rep, tier, args):
    rep.assumptions += [
        "model bounds: heights 0..2 (0..3 in simulated behaviours, 0..8 random), <=3 transaction-id sets per block, "
        "notification buffer 2, two clients",
        "scripted Validator / BlockVerifier / write port; the database is the real in-memory Database<OnChain> behind "
        "a delegating wrapper that logs the ImporterDatabase / DatabaseTransaction calls",
        "the two closures execute_and_commit runs on its rayon pool are independent and read-only; their events are "
        "emitted in the canonical order block-changes branch, execution branch",
        "the root class 'chain' is decided against fuel_merkle's binary MerkleRootCalculator over the stored block ids",
        "RocksDB batch atomicity is not exercised (in-memory store)"]
    suffix = "" if tier == "quick" else "_thorough"
    rep.model_check("MC_Importer", "MC_Importer%s.cfg" % suffix, workers=8, timeout=3000,
                    coverage=(tier != "quick"))
    # H_IMPORTER_BIN: a harness binary built elsewhere (private mutation runs)
    hbin = os.environ.get("H_IMPORTER_BIN") or os.path.join(vlib.cargo_build("h-importer"), "h-importer")
    wd = vlib.workdir("C08")
    if args.replay:
        rep.judge_trace("Trace_Importer", "Trace_Importer.cfg", args.replay, name="C08-replay", key_fn=key)
        return
    # B2: simulated behaviours
    # only complete behaviours are printed (Sim cfg: SimDepth = depth - 1)
    num, depth, scfg = (60, 71, "Sim_Importer.cfg") if tier == "quick" else (600, 101, "Sim_Importer_thorough.cfg")
    hists, r = vlib.sim_walks("Sim_Importer", scfg, num=num, depth=depth, name="C08-sim",
                              strip=(), siblings=1)
    walks = []
    seen = set()
    for h in hists:
        ops = fold([dict(s, name=s["a"]) for s in h])
        c = vlib.canon(ops)
        if ops and c not in seen:
            seen.add(c)
            walks.append(ops)
    if not walks:
        raise vlib.ToolError("no simulated behaviours")
    wp = os.path.join(wd, "walks.ndjson")
    vlib.write_walks(wp, walks)
    tp = os.path.join(wd, "b2.ndjson")
    vlib.run_harness(hbin, ["run", "--walks", wp, "--out", tp])
    rep.extra["sim_walks"] = len(walks)
    rep.extra["sim_concurrent_attempts"] = sum(len(o.get("during", [])) for w in walks for o in w)
    for w in walks:
        rep.count_case(w, nontrivial=any(o["a"] == "Req" for o in w))
    rep.add_sample({"tlc_behaviour_as_requests": walks[0][:4]})
    rep.judge_trace("Trace_Importer", "Trace_Importer.cfg", tp, name="C08-b2", key_fn=key)
    # B3: seeded random request sequences
    n, ln = (250, 14) if tier == "quick" else (4000, 18)
    tp3 = os.path.join(wd, "b3.ndjson")
    vlib.run_harness(hbin, ["random", "--walks", n, "--len", ln, "--out", tp3])
    ws = vlib.split_trace(tp3)
    commits = 0
    fails = set()
    for w in ws:
        rep.count_case(w)
        for ln_ in w:
            if ln_.startswith('{"ev":"DbCommit"') and '"res":"Ok"' in ln_:
                commits += 1
            if ln_.startswith('{"ev":"Return"') or ln_.startswith('{"ev":"Lock"'):
                res = json.loads(ln_)["res"]
                if res != "Ok":
                    fails.add(res)
    rep.extra["random_commits"] = commits
    rep.extra["random_failure_kinds"] = sorted(fails)
    rep.add_sample({"random_history": [json.loads(x) for x in ws[0][1:6]]})
    rep.judge_trace("Trace_Importer", "Trace_Importer.cfg", tp3, name="C08-b3", key_fn=key)
    if not rep.violations:      # (on a violating implementation the traces are not a clean base for it)
        selftest(rep, wd, ws)


def selftest(rep, wd, ws):
    """The binding is not vacuous: (a) a failed import whose logged digest version moved must be judged a
    violation, (b) a broadcast moved in front of its database commit must be judged a violation."""
    done = set()
    for w in ws:
        w = list(w)
        for i in range(len(w) - 1, 1, -1):
            o = json.loads(w[i])
            if "a" not in done and o["ev"] == "Return" and o["res"] not in ("Ok",) and i > 3:
                o["dv"] += 7
                t = w[:i] + [json.dumps(o, separators=(",", ":"))]
                _expect_violation(wd, "a", t, "FailedImportNoChange")
                done.add("a")
            if "b" not in done and o["ev"] == "Broadcast" and json.loads(w[i - 1])["ev"] == "DbCommit":
                t = w[:i - 1] + [w[i], w[i - 1]]
                _expect_violation(wd, "b", t, "AnnouncedOnceInOrderAfterReadable")
                done.add("b")
        if len(done) == 2:
            break
    if len(done) < 2:
        raise vlib.ToolError("self-test: no suitable events found in the random traces")
    rep.extra["selftest"] = "corrupted digest after a failed import and a broadcast before its commit are both judged violations"


def _expect_violation(wd, tag, lines, inv):
    p = os.path.join(wd, "selftest-%s.ndjson" % tag)
    open(p, "w").write("\n".join(lines) + "\n")
    v = vlib.validate_trace("Trace_Importer", "Trace_Importer.cfg", p, name="C08-selftest-" + tag)
    names = [n for (_, ns, _) in v.violations for n in ns]
    if v.accepted or inv not in names:
        raise vlib.ToolError("self-test %s: corrupted trace was not judged a violation of %s (got %s)" % (tag, inv, names))
