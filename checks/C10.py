"""C10 — storage transactions: read-your-writes, exact commit, sibling-merge conflicts.
MC: KV.tla (overlay `Changes` stack transcribed from transactional.rs; ghost = plain map model per level).
B1: every edge of five small reachable graphs replayed on the real StorageTransaction / InMemoryStorage.
B2: `tlc -simulate` behaviours of the large configuration (2x2 cells, 3 values, depth 3, 2 siblings).
B3: seeded random driver of the harness.  All implementation traces are judged by TLC (Trace_KV)."""
import os
import sys

import vlib

sys.path.insert(0, os.path.join(vlib.VERIF, "tools"))
import stor  # noqa: E402

EDGE_CFGS = ["Edges_KV_reads.cfg", "Edges_KV_ops.cfg", "Edges_KV_sib1.cfg", "Edges_KV_sib2.cfg",
             "Edges_KV_nest.cfg"]

CELL = lambda a: {"col": a[0][0], "key": a[0][1]}  # noqa: E731
ARGMAP = {
    "Begin": lambda a: {"pol": a[0]},
    "Put": lambda a: dict(CELL(a), v=a[1]), "Write": lambda a: dict(CELL(a), v=a[1]),
    "Replace": lambda a: dict(CELL(a), v=a[1]),
    "Take": CELL, "Delete": CELL, "Get": CELL, "Exists": CELL, "Size": CELL,
    "ReadExact": lambda a: dict(CELL(a), off=a[1], n=a[2]), "ReadZero": lambda a: dict(CELL(a), off=a[1], n=a[2]),
    "Drop": lambda a: {}, "Detach": lambda a: {}, "Commit": lambda a: {},
    "Merge": lambda a: {"j": a[0]}, "DropDet": lambda a: {"j": a[0]},
}


def run(rep, tier, args):
    thorough = tier == "thorough"
    rep.assumptions += [
        "MC bounds: 2 cells x 2 values x depth 2 with all reads; 3 cells (2 columns) x depth 1 x 1 detached sibling "
        "(thorough: +1 detached sibling at depth 2, 2 siblings over 3 cells); traces: 2x2 cells, 3 values, depth<=3, "
        "<=2 detached siblings",
        "base store = fuel_core_storage's InMemoryStorage (test-helpers); siblings are modelled as detached Changes "
        "(into_inner) merged with commit_changes; only the top transaction's Changes and the reads at the top are "
        "observed (lower frames cannot change without becoming the top)",
        "a rejected fail-on-conflict merge may leave a partial application (HashMap column order): modelled as "
        "nondeterminism, the property is silent about it",
    ]
    hbin = stor.harness_bin()
    wd = vlib.workdir("C10")
    if args.replay:
        rep.judge_trace("Trace_KV", "Trace_KV.cfg", args.replay, name="C10-replay")
        return
    mcs = ["MC_KV.cfg", "MC_KV_sib.cfg"] + (["MC_KV_thorough.cfg", "MC_KV_sib_thorough.cfg",
                                              "MC_KV_sib2_thorough.cfg"] if thorough else [])
    from concurrent.futures import ThreadPoolExecutor
    with ThreadPoolExecutor(max_workers=3) as ex:
        futs = [ex.submit(rep.model_check, "MC_KV", c, workers=4, coverage=thorough, timeout=3000) for c in mcs]
        # B1 while the model checker runs
        walks, n_edges, info = stor.edge_walks_multi("MC_KV", EDGE_CFGS, rep=None, workers=3)
        mres = [f.result() for f in futs]
    for c, m in zip(mcs, mres):
        if m.violated:
            vlib.log("model %s violates %s; the implementation traces decide" % (c, m.violated))
        if thorough:
            cov = m.coverage()
            dead = [a for a in ("Begin", "Put", "Replace", "Take", "Commit", "Drop") if a in cov and cov[a][1] == 0]
            if dead:
                raise vlib.ToolError("vacuity: actions never fired in %s: %s" % (c, dead))
    rep.extra["edge_cfgs"] = info
    rep.extra["edges"] = n_edges
    rep.extra["exhaustive"] = True
    wp = os.path.join(wd, "walks-b1.ndjson")
    vlib.write_walks(wp, walks)
    tp = os.path.join(wd, "trace-b1.ndjson")
    vlib.run_harness(hbin, ["kv", "--walks", wp, "--out", tp])
    for w in walks:
        rep.count_case(w)
    rep.add_sample({"b1_walk": walks[-1][:10]})
    stor.judge_chunks(rep, "Trace_KV", "Trace_KV.cfg", tp, "C10-b1", parts=4)
    # B2: simulated behaviours of the large configuration
    nsim, dsim = (60, 40) if not thorough else (1500, 60)
    swalks, sr = stor.simulate_walks("MC_KV", "Sim_KV.cfg", ARGMAP, nsim, dsim, "C10")
    if sr.violated:
        vlib.log("simulation of Sim_KV.cfg violates %s; the implementation traces decide" % sr.violated)
    wp2 = os.path.join(wd, "walks-b2.ndjson")
    vlib.write_walks(wp2, swalks, start_id=100000)
    tp2 = os.path.join(wd, "trace-b2.ndjson")
    vlib.run_harness(hbin, ["kv", "--walks", wp2, "--out", tp2])
    for w in swalks:
        rep.count_case(w)
    rep.extra["simulated_behaviours"] = len(swalks)
    # B3: seeded random driver
    n3, l3 = (120, 50) if not thorough else (4000, 80)
    tp3 = os.path.join(wd, "trace-b3.ndjson")
    vlib.run_harness(hbin, ["kv-random", "--walks", n3, "--len", l3, "--out", tp3])
    t3 = vlib.split_trace(tp3)
    for w in t3:
        rep.count_case(w)
    rep.add_sample({"random_history": t3[0][:8]})
    # judge B2 and B3 together
    tpx = os.path.join(wd, "trace-b23.ndjson")
    with open(tpx, "w") as f:
        f.write(open(tp2).read())
        f.write(open(tp3).read())
    stor.judge_chunks(rep, "Trace_KV", "Trace_KV.cfg", tpx, "C10-b23", parts=4 if not thorough else 8)
    rep.extra["selftest"] = stor.selftest_corrupt("Trace_KV", "Trace_KV.cfg", tp3, "C10-selftest", corrupt)


def corrupt(evs):
    """a read through the transaction returns something else than the pending write"""
    for e in evs[1:]:
        if e["ev"] in ("Get", "Replace", "Take") and e["d"] >= 1 and isinstance(e.get("res"), int) and e["res"] >= 1:
            e["res"] = 0
            return True
    return False
