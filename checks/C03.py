"""C03 — Block fee, coinbase and resource limits are respected.
Exec.tla invariants: MintRules (last and only mint, index, gas price, amount = sum of charged fees or 0 without recipient), Limits (gas/size/count), AskedWhatIsLeft (arguments of every TransactionsSource::next call), MintTamperedRejected (validation of blocks with a deviating mint).
MC of MC_Exec, B2: Sim_Exec behaviours executed by the real executor, B3: seeded driver; all judged by TLC through
Trace_Exec (tools/exec_common.py holds the shared pipeline)."""
import exec_common


def run(rep, tier, args):
    exec_common.run(rep, tier, args, "C03")
