"""C01 — A produced block is accepted by validation with identical effects.
Exec.tla invariants: ValidateAccepts (every validate of the produced block on the same parent is Accept with the digests of Changes/statuses/events of production, twice), BlockAsSpec, CommitIsProduced; MC adds ReplayOk (the abstract validation path — no source, no skips, mint checked — reproduces production's effects).
MC of MC_Exec, B2: Sim_Exec behaviours executed by the real executor, B3: seeded driver; all judged by TLC through
Trace_Exec (tools/exec_common.py holds the shared pipeline)."""
import exec_common


def run(rep, tier, args):
    exec_common.run(rep, tier, args, "C01")
