"""C19 — admission.  TxPool.tla action properties over ghosts that never forget: InsertAdmits (new id, inputs exist,
not committed, fields match), InsertBeatsCollisions (strictly higher tip per gas than every collided subtree, which
is evicted), InsertRespectsHandedOut (no input of a handed-out, unsettled transaction).  The spent-inputs cache is
modelled as the bounded LRU it is; TLC finds the run in which forgetting admits a conflicting transaction, the
counterexample is replayed on the real pool, and the reproduced violation is keyed by its cause (known finding C19-1);
any other wrong admission fails the check."""
import json
import os
import vlib
import txpool_common as tc


def run(rep, tier, args):
    tc.run_family(rep, tier, args, "C19", selftest=selftest, extra=handed_out)


def handed_key(udata):
    tpl = udata["tpl"]

    def spend(t):
        return [i["key"] for i in tpl[t]["ins"] if i["k"] in ("coin", "msg")]

    def key_fn(lines, names):
        if "InsertRespectsHandedOut" not in names:
            return tc.slim_key(lines, names)
        evs = [json.loads(x) for x in lines[1:]]
        last, t = evs[-1], evs[-1]["t"]
        handed, pre, prev = {}, [], {"pool": [], "tentative": {}, "spender": {}, "lru": []}
        poppable = []      # per event: the markers its own statements may pop (squeeze-out / rollback of their spender)
        overflow = []      # per event: can its own puts overflow the cache (an eviction needs that)
        for idx, e in enumerate(evs[:-1]):
            ev, pops, puts = e["ev"], set(), set()
            if ev == "Extract":
                for x in e["res"]:
                    handed[x] = idx
                    puts |= {x} | set(spend(x))
            elif ev == "Preconf":
                if e["kind"] == "Q":
                    handed.pop(e["t"], None)
                    pops = {e["t"]} | set(prev["spender"].get(e["t"], []))
                elif e["res"] != "late":
                    if e["t"] in prev["pool"]:
                        handed[e["t"]] = idx
                    pre.append((e["h"], e["t"]))
                    puts = {e["t"]} | set(spend(e["t"])) | set(prev["spender"].get(e["t"], []))
            elif ev == "Block":
                rb = {x for (h, x) in pre if h <= e["h"]} - set(e["txs"])
                pre = [(h, x) for (h, x) in pre if h > e["h"]]
                for x in rb:
                    pops |= {x} | set(prev["tentative"].get(x, []))
                for x in e["txs"]:
                    puts |= {x} | set(spend(x)) | set(prev["spender"].get(x, []))
                for x in list(handed):
                    if x in e["txs"] or x in rb:
                        handed.pop(x)
            poppable.append(pops)
            overflow.append(len(set(prev.get("lru", [])) | puts) > e["st"]["cap"])
            prev = e.get("st", prev)
        causes, detail = set(), []
        for x, idx in sorted(handed.items()):
            keys = ([x] if x == t else []) + [k for k in spend(x) if k in spend(t)]
            for k in keys:
                cause, present = "never-marked", False
                for j in range(idx, len(evs) - 1):
                    st = evs[j]["st"]
                    if k in st["lru"]:
                        cause, present = "marker-present", True
                    elif present or j == idx:
                        # the marker vanished in event j (or did not survive the hand-out event itself): entries leave
                        # the cache only by a pop (squeeze-out / rollback of their spender) or by eviction
                        cause = "unmarked-by-" + evs[j]["ev"] if k in poppable[j] else \
                            "lru-evicted" if overflow[j] else "vanished-in-" + evs[j]["ev"]
                        present = False
                causes.add(cause)
                detail.append("%s/%s:%s" % (x, k, cause))
        cause = "lru-evicted" if causes == {"lru-evicted"} else "+".join(sorted(causes)) or "no-offender"
        return "InsertRespectsHandedOut :: cause=%s :: insert=%s :: %s" % (cause, t, ",".join(detail))
    return key_fn


def handed_out(rep, tier, wd, uni, udata, hbin, replay=None, traces=None):
    key_fn = handed_key(udata)
    suffix = "" if tier == "quick" else "_thorough"
    cfg = "Trace_TxPool_C19h%s.cfg" % suffix
    if replay:
        tc.register(rep, vlib.validate_trace(tc.TRACE, cfg, replay, name="C19-replay-h"), "C19-replay-h", key_fn)
        return
    # 1. the model: does forgetting (bounded LRU) let the transcription admit what the ghosts forbid?
    r = vlib.require_clean(vlib.tlc(tc.MODULE, "Sim_TxPool_C19h%s.cfg" % suffix, name="C19-mc-h", workers=4, timeout=900,
                                    extra=["-simulate", "num=100000", "-depth", "16" if tier == "quick" else "22", "-seed", str(vlib.seed())]), "MC C19h")
    rep.add_mc(tc.sim_counts(r), "simulate-handed-out")
    rep.extra["model_handed_out"] = r.violated or "held in %d simulated states" % r.generated
    if r.violated:
        steps = tc.last_hist(r.out)
        if not steps:
            raise vlib.ToolError("cannot read the counterexample of InsertRespectsHandedOut")
        rep.add_sample({"model_counterexample": steps})
        tpc = tc.run_walks(hbin, uni, [steps], wd, "cex-handed")
        v = vlib.validate_trace(tc.TRACE, cfg, tpc, name="C19-cex-h")
        rep.extra["model_counterexample_on_implementation"] = (
            "reproduced" if v.violations else "accepted without violation" if v.accepted else "diverged")
        tc.register(rep, v, "C19-cex-h", key_fn)
    # 2. the implementation's own traces, judged against the same ghost
    sub = os.path.join(wd, "b3-head.ndjson")
    walks = vlib.split_trace(traces[1])[:40 if tier == "quick" else 400]
    open(sub, "w").write("\n".join("\n".join(w) for w in walks) + "\n")
    v = vlib.validate_trace(tc.TRACE, cfg, sub, name="C19-b3-h", max_divergent=4 if tier == "quick" else 12)
    tc.register(rep, v, "C19-b3-h", key_fn)


def selftest(rep, wd, cfg, traces):
    def accept(o):
        o["res"] = "Ok"
    tc.corrupt_and_judge(rep, wd, cfg, traces, lambda o: o["ev"] == "Insert" and o["res"] == "Collided", accept,
                         ["InsertBeatsCollisions"], "collided-accepted")
    # only rejections whose acceptance must break InsertAdmits whatever the history: mismatching input fields or an
    # unknown message (an input marked spent may be marked on behalf of a handed-out transaction, which is the
    # business of InsertRespectsHandedOut, not of this cfg)
    tc.corrupt_and_judge(rep, wd, cfg, traces,
                         lambda o: o["ev"] == "Insert" and o["res"] in ("CoinMismatch", "MsgUnknown", "IoWrongAmount"),
                         accept, ["InsertAdmits"], "invalid-accepted")
