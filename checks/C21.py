"""C21 — every transaction leaving the pool without inclusion is reported squeezed out exactly once, handed-out and
committed ones never (SqueezedExactlyOnce in TxPool.tla).  The status port of the real pool is the hook's recorder;
TLC compares, for every logged step, the recorded notifications with the transactions that left the logged pool."""
import txpool_common as tc


def run(rep, tier, args):
    tc.run_family(rep, tier, args, "C21", selftest=selftest)


def selftest(rep, wd, cfg, traces):
    def drop(o):
        o["sq"] = o["sq"][:-1]
    tc.corrupt_and_judge(rep, wd, cfg, traces, lambda o: o["ev"] != "Preconf" and len(o["sq"]) >= 1, drop,
                         ["SqueezedExactlyOnce"], "missing-report")
    def dup(o):
        o["sq"] = o["sq"] + o["sq"][-1:]
    tc.corrupt_and_judge(rep, wd, cfg, traces, lambda o: o["ev"] != "Preconf" and len(o["sq"]) >= 1, dup,
                         ["SqueezedExactlyOnce"], "double-report")
