"""C37 — coins-to-spend answers are sound.
MC: CoinsQuery.tla transcribes the three real algorithms (select_coins_to_spend over the CoinsToSpend index,
largest_first, random_improve) with their randomness as nondeterminism; TLC checks for every small wallet / target /
max / exclusion / partial flag that every possible answer is Sound and that errors only occur when no admissible
selection exists.
I->S (the algorithms are randomised): generated wallets (dust and big coins around the x2 / x5 thresholds, ties,
zeros, foreign-owner / other-asset / retryable / spent resources) are built through the real off-chain indexation;
the answers of the real algorithms are logged and TLC judges them through Trace_CoinsQuery (strict: the answer is a
possible answer of the transcription; observe: the invariants on the recorded answer)."""
import json
import os
import vlib


def run(rep, tier, args):
    rep.assumptions += [
        "MC: 3 resource slots (coin, message, coin; thorough 4), amounts {1,2,4}, targets 0..5, max 0..3, at most one "
        "excluded id; traces: wallets of up to 10 resources, amounts 0..60, max in {0,1,2,3,n,255}",
        "the wallet's on-chain tables are written directly; the CoinsToSpend / owned-coin / owned-message indexes are "
        "produced by the real process_executor_events (C36)",
        "'admissible selection' = at most max spendable (unspent, owned, right asset, not excluded, non-retryable) "
        "resources whose total covers the target, or - with partial results - has a positive total; an error is "
        "allowed exactly when none exists (decided by the spec's search, cross-checked against a subset enumeration "
        "in MC)",
        "saturation at u64 / u128 limits and more than u16::MAX selected coins are not reached",
    ]
    thorough = tier == "thorough"
    mc = rep.model_check("MC_CoinsQuery", "MC_CoinsQuery_thorough.cfg" if thorough else "MC_CoinsQuery.cfg",
                         workers=12, timeout=6000)
    if mc.violated:
        vlib.log("model violates %s; the implementation trace decides" % mc.violated)
    # the request shape of known finding C37-1 is kept out of the main model run (TLC stops at the first violation)
    m0 = rep.model_check("MC_CoinsQuery", "MC_CoinsQuery_max0.cfg", workers=2, label="MC_CoinsQuery_max0.cfg")
    rep.extra["model_max0"] = "model violates %s for indexed/max=0 (known finding C37-1)" % m0.violated \
        if m0.violated else "model holds for indexed/max=0"
    hbin = os.environ.get("VERIF_HBIN_H_API") or os.path.join(vlib.cargo_build("h-api"), "h-api")
    wd = vlib.workdir("C37")
    cfg = "Trace_CoinsQuery.cfg"
    if args.replay:
        rep.judge_trace("Trace_CoinsQuery", cfg, args.replay, name="C37-replay", key_fn=key)
        return
    n = 150 if not thorough else 3000
    tp = os.path.join(wd, "b3.ndjson")
    vlib.run_harness(hbin, ["coins-random", "--walks", n, "--len", 12, "--maxn", 10, "--out", tp])
    ws = vlib.split_trace(tp)
    kinds = {}
    for w in ws:
        rep.count_case(w)
        for ln in w[2:]:
            o = json.loads(ln)
            k = "%s/%s" % (o["algo"], o["res"]["kind"] if o["res"]["kind"] != "err" else o["res"]["why"])
            kinds[k] = kinds.get(k, 0) + 1
    rep.extra["answers_by_algorithm"] = kinds
    rep.evaluations = sum(kinds.values())
    rep.add_sample({"wallet_and_queries": [json.loads(x) for x in ws[1][1:4]]})
    rep.judge_trace("Trace_CoinsQuery", cfg, tp, name="C37-b3", key_fn=key, timeout=3000)
    if not rep.violations and not rep.divergences:      # health of the driver (vacuity), on conforming code only
        for need in ("indexed/ok", "indexed/insufficient", "indexed/max", "largest/ok", "largest/max", "improve/ok"):
            if not kinds.get(need):
                raise vlib.ToolError("driver did not produce any %s answer" % need)
    # the known-finding request shape, one walk
    tp0 = os.path.join(wd, "probe-max0.ndjson")
    vlib.run_harness(hbin, ["coins-probe-max0", "--out", tp0])
    rep.judge_trace("Trace_CoinsQuery", cfg, tp0, name="C37-max0", key_fn=key)
    selftest(rep, tp, cfg)


def key(lines, names):
    o = json.loads(lines[-1])
    r = o.get("res", {})
    return "%s :: algo=%s o=%s a=%s t=%s max=%s ex=%s p=%s res=%s sel=%s" % (
        ",".join(sorted(set(names))), o.get("algo"), o.get("o"), o.get("a"), o.get("t"), o.get("max"), o.get("ex"),
        o.get("p"), r.get("kind") if r.get("kind") != "err" else r.get("why"), r.get("sel"))


def selftest(rep, trace, cfg):
    """Add an excluded / foreign id to one recorded selection: strict must reject, observe must break Sound."""
    if rep.violations or rep.divergences:
        return      # the code under test already deviates: report that, the self-test needs conforming traces
    for w in vlib.split_trace(trace):
        w = list(w)
        wallet = json.loads(w[1])["res"]
        for i in range(len(w) - 1, 1, -1):
            o = json.loads(w[i])
            if o["res"]["kind"] == "ok" and o["res"]["sel"] and len(o["res"]["sel"]) < len(wallet):
                extra = [r["id"] for r in wallet if r["id"] not in o["res"]["sel"]][0]
                o["res"]["sel"] = o["res"]["sel"] + [o["res"]["sel"][0]]      # a duplicate
                w[i] = json.dumps(o, separators=(",", ":"))
                p = os.path.join(vlib.WORK, "C37", "selftest.ndjson")
                open(p, "w").write("\n".join(w[:i + 1]) + "\n")
                v = vlib.validate_trace("Trace_CoinsQuery", cfg, p, name="C37-selftest")
                if v.accepted or not v.violations:
                    raise vlib.ToolError("self-test: a selection with a duplicate was not judged a violation")
                rep.extra["selftest"] = "selection with a duplicated coin rejected and judged a violation (%s)" % (
                    ",".join(v.violations[0][1]))
                return
    raise vlib.ToolError("self-test: no suitable answer found")
