"""C17 — dependencies: parents are handed out before children, removals other than inclusion cascade to all
dependents, chains stay within the limit, no diamonds.  TxPool.tla: ParentBeforeChild, RemovalCascades (action
properties), ChainLen, NoDiamond, EdgesCoverCoinParents, EdgesInPool, ExecutableHaveNoParents (invariants), judged by
TLC on the dependency graph, executable set and extraction results the real pool logged."""
import txpool_common as tc


def run(rep, tier, args):
    tc.run_family(rep, tier, args, "C17", selftest=selftest)


def selftest(rep, wd, cfg, traces):
    def keep_child(o):
        # pretend the cascade did not happen: put a squeezed dependent back into the logged pool
        o["st"]["pool"] = sorted(set(o["st"]["pool"]) | {o["sq"][-1]})
    ok = tc.corrupt_and_judge(rep, wd, cfg, traces,
                              lambda o: o["ev"] == "Expire" and len(set(o["ids"])) == 1 and len(o["sq"]) >= 2, keep_child,
                              ["RemovalCascades"], "cascade")
    def drop_edge(o):
        o["st"]["deps"] = o["st"]["deps"][1:]
    tc.corrupt_and_judge(rep, wd, cfg, traces, lambda o: len(o["st"]["deps"]) >= 1, drop_edge,
                         ["EdgesCoverCoinParents", "ExecutableHaveNoParents", "ParentBeforeChild"], "edge")
