"""C17 — dependencies: parents are handed out before children, removals other than inclusion cascade to all
dependents, chains stay within the limit, no diamonds.  TxPool.tla: ParentBeforeChild, RemovalCascades (action
properties), ChainLen, NoDiamond, EdgesCoverCoinParents, EdgesInPool, ExecutableHaveNoParents (invariants), judged by
TLC on the dependency graph, executable set and extraction results the real pool logged."""
import txpool_common as tc


def run(rep, tier, args):
    tc.run_family(rep, tier, args, "C17", selftest=selftest)


def selftest(rep, wd, cfg, traces):
    def keep_child(o):
        # pretend the cascade did not happen: put a squeezed dependent back into the logged pool
        o["st"]["pool"] = sorted(set(o["st"]["pool"]) | {o["sq"][-1]})
    ok = tc.corrupt_and_judge(rep, wd, cfg, traces,
                              lambda o: o["ev"] == "Expire" and len(set(o["ids"])) == 1 and len(o["sq"]) >= 2, keep_child,
                              ["RemovalCascades"], "cascade")
    def drop_edge(o):
        o["st"]["deps"] = o["st"]["deps"][1:]
    # only a coin edge (the child spends an output "<parent>:<n>"): dropping a contract edge breaks no invariant
    import json, os
    tpl = json.load(open(os.path.join(wd, "universe.json")))["tpl"]

    def coin_edge(o):
        d = o["st"]["deps"]
        return len(d) >= 1 and any(i["k"] == "coin" and i["key"].startswith(d[0][0] + ":") for i in tpl[d[0][1]]["ins"])
    tc.corrupt_and_judge(rep, wd, cfg, traces, coin_edge, drop_edge, ["EdgesCoverCoinParents"], "edge")
