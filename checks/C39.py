"""C39 — snapshot export followed by regenesis reproduces the chain state.
MC: Genesis.tla (Export cuts every table into groups of size g, the import workers consume them) — small
instance with every interleaving of four workers, and all 26 real workers over the sizes of the generated
states (Crash_Genesis, sequential scheduling as in run_workers).
B2: for every (state shape, encoding, group size) the real Exporter writes real JSON / parquet snapshot files,
the real SnapshotReader yields the groups (logged, must equal the spec's chunking) and the real
execute_genesis_block imports them into fresh in-memory / RocksDB databases; TLC compares the imported tables
with the source tables entry by entry (ids: position in the source table; a differing value gets another id).
The JSON encoding has no fields for processed transactions and block Merkle data: JSON walks are judged with
the invariant restricted to the tables JSON carries, and one JSON walk under the full invariant documents the
loss (known finding C39-1)."""
import json
import os
import vlib
import genesis as G


def run(rep, tier, args):
    rep.assumptions += [
        "entries are identified by their position in the source table; encode/decode fidelity is exercised on the "
        "generated values only (values of several lengths, empty message data, contracts without slots)",
        "contract state/balance Merkle roots are covered through the C40 digests, not compared here",
        "chain height: the regenesis block has height last_block + 1 (continuation of the source chain)",
        "JSON: group size is applied by the reader (open_w_config); the exporter ignores it, as the CLI does",
    ]
    thorough = tier != "quick"
    mc = rep.model_check("MC_Genesis", "MC_Genesis_C39.cfg", workers=8, coverage=thorough)
    if mc.violated:
        rep.extra["model_violations"] = mc.violated
    mj = rep.model_check("MC_Genesis", "MC_Genesis_json.cfg", workers=2, label="MC_Genesis_json (model of the JSON loss)")
    rep.extra["model_json_loss"] = mj.violated  # expected: ImportedEqualsExported fails in the model for JSON
    hbin = os.path.join(vlib.cargo_build("h-genesis"), "h-genesis")
    wd = vlib.workdir("C39")
    if args.replay:
        rep.judge_trace("Trace_Genesis", "Trace_Genesis.cfg", args.replay, name="C39-replay", key_fn=G.key_c39)
        return
    shapes = ["small", "medium", "bare", "wide"] + (["large"] if thorough else [])
    gsizes = [1, 2, 3, 0] + ([5, 7] if thorough else [])
    combos = [(s, e, g) for s in shapes for e in ("parquet", "json") for g in gsizes]
    # all real workers over the real table sizes of every combination (model level)
    wpath = os.path.join(wd, "worlds.ndjson")
    G.write_worlds(wpath, hbin, combos)
    r, _ = G.enumerate_tlc(rep, "Crash_Genesis_nocrash.cfg", wpath, "C39-real-tables", workers=4)
    if r.violated:
        rep.extra.setdefault("model_violations", []).extend(r.violated)
    walks_pq, walks_js = [], []
    k = 0
    for (s, e, g) in combos:
        k += 1
        db = "rocks" if (k + vlib.seed()) % 4 == 0 else "mem"
        (walks_pq if e == "parquet" else walks_js).append(G.plain_walk(s, e, g, db))
    for nm, walks, cfg in (("pq", walks_pq, "Trace_Genesis.cfg"), ("js", walks_js, "Trace_Genesis_json.cfg")):
        wp = os.path.join(wd, "walks-%s.ndjson" % nm)
        tp = os.path.join(wd, "b2-%s.ndjson" % nm)
        vlib.write_walks(wp, walks)
        vlib.run_harness(hbin, ["run", "--walks", wp, "--out", tp])
        for w in walks:
            rep.count_case({"shape": w[0]["shape"], "enc": w[0]["enc"], "g": w[0]["g"], "db": w[0]["db"]})
        G.judge_parallel(rep, "Trace_Genesis", cfg, tp, name="C39-b2-" + nm, key_fn=G.key_c39, parts=4)
        ws = vlib.split_trace(tp)
        ex = json.loads(ws[0][1])
        rep.add_sample({"enc": ex["enc"], "g": ex["g"], "source_sizes": ex["n"],
                        "snapshot_groups": {t: ex["snap"][t] for t in ("Coins", "ContractsState")}})
    # the property as stated, on one JSON snapshot: processed transactions and block Merkle data are lost
    one = os.path.join(wd, "json-full.ndjson")
    js = vlib.split_trace(os.path.join(wd, "b2-js.ndjson"))
    pick = next(w for w in js if json.loads(w[1])["n"]["ProcessedTransactions"] > 0)
    open(one, "w").write("\n".join(pick) + "\n")
    rep.judge_trace("Trace_Genesis", "Trace_Genesis.cfg", one, name="C39-json-full", key_fn=G.key_c39)
    if rep.violations or rep.divergences:
        return      # the self-test needs walks the unchanged spec accepts; violations are reported as they are
    # self-test: an imported coin with a changed value (id + 100) must be judged a violation
    pq = vlib.split_trace(os.path.join(wd, "b2-pq.ndjson"))
    w = list(next(x for x in pq if json.loads(x[1])["n"]["Coins"] > 0))
    for i, ln in enumerate(w):
        o = json.loads(ln)
        if o["ev"] == "End" and o["res"] == "Ok":
            o["tabs"]["Coins"][0] += 100
            w[i] = json.dumps(o, separators=(",", ":"))
    sp = os.path.join(wd, "selftest.ndjson")
    open(sp, "w").write("\n".join(w) + "\n")
    sv = vlib.validate_trace("Trace_Genesis", "Trace_Genesis.cfg", sp, name="C39-selftest")
    if sv.accepted or not sv.violations:
        raise vlib.ToolError("self-test: a corrupted imported coin was not judged a violation")
    rep.extra["selftest"] = "corrupted imported coin judged a violation: %s" % sv.violations[0][1]
