"""C45 — dry runs and read-only queries leave the chain state unchanged.
MC: ReadOnly.tla (abstract node: Submit / Produce change the chain; DryRun at the latest or a past height, with
and without utxo validation / storage-read recording / gas price, Est(imatePredicates) and Asm (assembleTx)
execute on a view and drop the result) satisfies ReadOnlyFrame and Repeatable for every request in the bound.
B2: `tlc -simulate` behaviours are executed on a real FuelService (RocksDB with full state rewind, GraphQL API,
real client); B3: a seeded driver interleaves block production with groups of (often repeated) requests.
Before/after every request the harness logs digests of every column of the on-chain and off-chain databases,
the abstract content (blocks, A's coins, counter slot, owned-coins index), the pool's resident transactions and
its spent markers (non-inserting probe) and the answer; TLC judges through Trace_ReadOnly."""
import json
import os
import vlib

TRACE, CFG = "Trace_ReadOnly", "Trace_ReadOnly.cfg"


def key(lines, names):
    """the request at which the property broke, what changed, and the requests' kinds before it"""
    o = json.loads(lines[-1])
    req = {k: v for k, v in o.items() if k not in ("st", "pre", "ans")}
    changed = []
    if "pre" in o:
        for f in ("h", "on", "off", "ptx", "psp"):
            if o["pre"].get(f) != o["st"].get(f):
                changed.append(f)
    ans = {k: v for k, v in o.get("ans", {}).items() if k != "dg"}
    return "%s :: at=%s changed=%s ans=%s" % (",".join(sorted(set(names))), vlib.canon(req), ",".join(changed),
                                              vlib.canon(ans))


def run(rep, tier, args):
    rep.assumptions += [
        "one node configuration: RocksDB in a temp dir with full state rewind, historical execution on, utxo "
        "validation on, native executor, gas price 0, manual block production; 3 coins of one owner, one counter "
        "contract, at most 2 transactions per dry run",
        "the state is observed through full iteration over every column of the on-chain and off-chain databases "
        "(the history columns behind the historical RocksDB are not enumerated), the pool through its resident "
        "transaction ids and a probe transaction that can never be inserted (spends the coin under test and an "
        "unknown message)",
        "requests are issued one at a time; after a block the harness waits until the off-chain worker and the gas "
        "price service reached the new height",
        "assembleTx draws the number of dust coins at random: the concrete assembled transaction is required to "
        "repeat only when the fee payer has at most one coin (its status must always repeat)",
        "answers are compared by the Debug rendering of the client's decoded response (statuses, receipts, gas, "
        "fee, storage reads, assembled transaction) or the error text",
    ]
    thorough = tier == "thorough"
    mc = rep.model_check("MC_ReadOnly", "MC_ReadOnly_thorough.cfg" if thorough else "MC_ReadOnly.cfg", workers=8,
                         coverage=thorough, timeout=6000)
    if mc.violated:
        vlib.log("model violates %s; the implementation trace decides" % mc.violated)
    hbin = os.environ.get("VERIF_HBIN_H_NODE") or os.path.join(vlib.cargo_build("h-node"), "h-node")
    wd = vlib.workdir("C45")
    if args.replay:
        rep.judge_trace(TRACE, CFG, args.replay, name="C45-replay", key_fn=key)
        return
    # B2: TLC behaviours on the real node
    num, depth = (6, 30) if not thorough else (40, 40)
    walks, r = vlib.sim_walks("Sim_ReadOnly", "Sim_ReadOnly.cfg", num=num, depth=depth, name="C45-sim", siblings=1)
    walks = [w for w in walks if len(w) >= 5]
    if not thorough:
        walks = walks[:8]
    wp = os.path.join(wd, "walks.ndjson")
    vlib.write_walks(wp, walks)
    tp = os.path.join(wd, "b2.ndjson")
    vlib.run_harness(hbin, ["run", "--walks", wp, "--out", tp])
    rep.extra["sim_walks"] = len(walks)
    for w in walks:
        for s in w:
            rep.count_case(s, nontrivial=s["a"] in ("DryRun", "Est", "Asm"))
    if walks:
        rep.add_sample({"tlc_behaviour": walks[-1][:5]})
    rep.judge_trace(TRACE, CFG, tp, name="C45-b2", key_fn=key, timeout=3000)
    # directed walks (fixed action sequences, validated like the others): a time-reading dry run that names the
    # next height explicitly (at = latest + 1), repeated after wall-clock time has passed; at = latest (0) as control;
    # once on the initial chain and once after a block
    def dr(at, k="ok", c=2):
        return {"a": "DryRun", "txs": [{"k": k, "c": c}], "at": at, "uv": -1, "rec": False, "gp": -1}
    tick = {"a": "Tick"}
    directed = [
        [dr(2), tick, dr(2), dr(0), tick, dr(0)],
        [{"a": "Submit", "k": "inc", "c": 1}, {"a": "Produce"}, dr(3), dr(0), dr(3, "inc", 3), tick, dr(3), dr(0),
         dr(3, "inc", 3)],
    ]
    wpd = os.path.join(wd, "directed.ndjson")
    vlib.write_walks(wpd, directed)
    tpd = os.path.join(wd, "directed-trace.ndjson")
    vlib.run_harness(hbin, ["run", "--walks", wpd, "--out", tpd])
    rep.extra["directed_walks"] = len(directed)
    rep.judge_trace(TRACE, CFG, tpd, name="C45-directed", key_fn=key, timeout=3000)
    # B3: seeded driver
    n, ln = (8, 40) if not thorough else (60, 60)
    tp3 = os.path.join(wd, "b3.ndjson")
    vlib.run_harness(hbin, ["random", "--walks", n, "--len", ln, "--out", tp3])
    ws = vlib.split_trace(tp3)
    kinds = {}
    for w in ws:
        for ln_ in w[1:]:
            o = json.loads(ln_)
            req = {k: v for k, v in o.items() if k not in ("st", "pre", "ans")}
            rep.count_case(req, nontrivial=o["ev"] in ("DryRun", "Est", "Asm"))
            if "ans" in o:
                a = o["ans"]
                kk = "%s:%s" % (o["ev"], a["e"] or "/".join(x["s"] for x in a["r"]))
                kinds[kk] = kinds.get(kk, 0) + 1
    rep.extra["answers_seen"] = kinds
    rep.add_sample({"random_history": [{k: v for k, v in json.loads(x).items() if k not in ("st", "pre")}
                                       for x in ws[0][1:5]]})
    rep.judge_trace(TRACE, CFG, tp3, name="C45-b3", key_fn=key, timeout=3000)
    selftest(rep, ws, wd)


def selftest(rep, ws, wd):
    """(a) a read-only event whose logged post-state has another off-chain digest, (b) a repeated request with
    another answer digest: strict must reject, observe must judge the matching property violated."""
    if rep.violations or rep.divergences:
        return
    done = {}
    for w in ws:
        w = list(w)
        seen = {}
        for i in range(1, len(w)):
            o = json.loads(w[i])
            if o["ev"] == "Tick":
                continue
            if o["ev"] not in ("DryRun", "Est", "Asm"):
                seen = {}
                continue
            rq = vlib.canon({k: v for k, v in o.items() if k not in ("st", "pre", "ans")})
            if "frame" not in done:
                o2 = json.loads(w[i])
                o2["st"]["off"]["dg"] += 1000
                _expect(w[:i] + [json.dumps(o2, separators=(",", ":"))], wd, "frame", "ReadOnlyFrame")
                done["frame"] = 1
            if rq in seen and "rep" not in done and (o["ev"] != "Asm" or o["who"] != "A"):
                o2 = json.loads(w[i])
                o2["ans"]["dg"] += 1000
                _expect(w[:i] + [json.dumps(o2, separators=(",", ":"))], wd, "repeat", "Repeatable")
                done["rep"] = 1
            seen[rq] = 1
            if len(done) == 2:
                rep.extra["selftest"] = "changed off-chain digest -> ReadOnlyFrame, changed repeated answer -> Repeatable"
                return
    raise vlib.ToolError("self-test: no repeated request found in the random traces (%s)" % sorted(done))


def _expect(lines, wd, label, prop):
    p = os.path.join(wd, "selftest-%s.ndjson" % label)
    open(p, "w").write("\n".join(lines) + "\n")
    v = vlib.validate_trace(TRACE, CFG, p, name="C45-selftest-" + label)
    if v.accepted == len(vlib.split_trace(p)) or not v.violations or prop not in v.violations[0][1]:
        raise vlib.ToolError("self-test %s: corrupted trace not judged a %s violation (%s)" % (
            label, prop, v.violations[0][1] if v.violations else "accepted"))
