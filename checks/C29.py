"""C29 — the relayer records every DA block's events exactly once.
MC: Relayer.tla (run / download_logs paging / AdaptivePageSizer::update / write_logs / insert_events transcribed)
for every RPC outcome sequence (ok / too many logs / error / stop) in the bound.
B2: `tlc -simulate` behaviours replayed on the real relayer service; B3: seeded random DA chains, page sizes,
deploy heights, fault scripts and restarts, plus long histories that reach the sizer's growth (50 successful
calls).  Every port call of the real service (finalized block, get_logs page, EventsHistory commit) is one event;
TLC validates page by page / write by write (strict) and judges the invariants on the logged writes (observe)."""
import json
import os
import vlib


def key(lines, names):
    cfg = {}
    evs = []
    for ln in lines[1:]:
        o = json.loads(ln)
        if o["ev"] == "New":
            cfg = {k: o[k] for k in ("deploy", "psize", "maxlogs", "retry")}
            continue
        evs.append(vlib.canon({k: v for k, v in o.items()}))
    return "%s :: cfg=%s :: last=%s :: %s" % (",".join(sorted(set(names))), vlib.canon(cfg), evs[-1] if evs else "",
                                             " ; ".join(evs[-12:]))


def run(rep, tier, args):
    rep.assumptions += [
        "model: DA heights <= 6 (7 thorough), page sizes 1..5, <= 6 (7) RPCs per behaviour, grow threshold 2 in the "
        "model (50 in the code: reached on the implementation by the long random histories)",
        "relayer database = the real EventsHistory table over fuel-core-storage's in-memory key-value store behind "
        "the relayer's Transactional port (storage.rs insert_events runs); fuel-core's Database<Relayer> additionally "
        "refuses non-consecutive heights (C09) and is not part of this check",
        "DA node = the crate's MockProvider wrapped by a scripted provider (log indexes distinct inside a block); "
        "production error policy (retry_on_error) reached through the add-only hook fuel-core-relayer/verif",
        "heights are judged from max(da_deploy_height, 1): with da_deploy_height = 0 the relayer starts at height 1",
    ]
    suffix = "" if tier == "quick" else "_thorough"
    mc = rep.model_check("MC_Relayer", "MC_Relayer%s.cfg" % suffix, workers=8 if tier == "quick" else 12,
                         timeout=3000, coverage=(tier != "quick"))
    if mc.violated:
        vlib.log("model violates %s; the implementation traces decide" % mc.violated)
    if tier != "quick":
        cov = mc.coverage()
        dead = [a for a in ("New", "BeginSync", "RpcSucc", "RpcErr", "RpcCancel", "WriteHeight", "WriteFail", "EndSync",
                            "Restart") if cov.get(a, (1, 1))[0] == 0]
        if dead:
            raise vlib.ToolError("actions never fired in MC: %s" % dead)
        rep.extra["coverage"] = {k: v[0] for k, v in cov.items()}
    hbin = os.path.join(vlib.cargo_build("h-relayer"), "h-relayer")
    wd = vlib.workdir("C29")
    cfg = "Trace_Relayer.cfg"
    if args.replay:
        rep.judge_trace("Trace_Relayer", cfg, args.replay, name="C29-replay", key_fn=key)
        return
    # B2: TLC behaviours replayed on the real service
    num, depth = (40, 45) if tier == "quick" else (600, 60)
    walks, r = vlib.sim_walks("Sim_Relayer", "Sim_Relayer.cfg", num=num, depth=depth, name="C29-sim", siblings=1)
    das = r.printed("DAS")[0]
    walks = [w for w in walks if w and w[0]["a"] == "New"]
    for w in walks:
        w[0]["da"] = das[w[0]["da"]]
    wp = os.path.join(wd, "walks.ndjson")
    vlib.write_walks(wp, walks)
    tp = os.path.join(wd, "b2.ndjson")
    vlib.run_harness(hbin, ["run", "--walks", wp, "--out", tp])
    rep.extra["sim_walks"] = len(walks)
    for w in walks:
        rep.count_case([s for s in w if s["a"] != "New"] + [w[0].get("psize"), w[0].get("deploy")],
                       nontrivial=any(s["a"].startswith("Rpc") for s in w))
    if walks:
        rep.add_sample({"tlc_behaviour": [{k: v for k, v in s.items() if k != "da"} for s in walks[0][:10]]})
    rep.judge_trace("Trace_Relayer", cfg, tp, name="C29-b2", key_fn=key)
    # B3: seeded random scenarios + long histories reaching page growth
    n, long_ = (250, 3) if tier == "quick" else (4000, 30)
    tp3 = os.path.join(wd, "b3.ndjson")
    vlib.run_harness(hbin, ["random", "--walks", n, "--long", long_, "--out", tp3])
    ws = vlib.split_trace(tp3)
    outs = {}
    grown = 0
    for w in ws:
        evs = [json.loads(x) for x in w[1:]]
        rep.count_case(w, nontrivial=any(e["ev"] == "Rpc" for e in evs))
        for e in evs:
            if e["ev"] == "Rpc":
                outs[e["out"]] = outs.get(e["out"], 0) + 1
        # growth: a page wider than an earlier page of the same attempt after a shrink
        last = None
        low = None
        for e in evs:
            if e["ev"] == "BeginSync":
                last = None
            if e["ev"] == "Rpc":
                size = e["hi"] - e["lo"] + 1
                if last is not None and size < last:
                    low = size
                if low is not None and size > low and last is not None and size > last:
                    grown += 1
                    low = None
                last = size
    rep.extra["rpc_outcomes_b3"] = outs
    rep.extra["page_growth_observed"] = grown
    rep.add_sample({"random_history": [json.loads(x) for x in ws[1][2:10]]})
    rep.judge_trace("Trace_Relayer", cfg, tp3, name="C29-b3", key_fn=key, timeout=3000)
    # health of the drivers (only meaningful when the traces were accepted)
    if not rep.violations and not rep.divergences:
        if not grown:
            raise vlib.ToolError("no page growth reached by the long histories")
        for need in ("ok", "many", "resp", "transport", "cancel"):
            if not outs.get(need):
                raise vlib.ToolError("random driver never produced RPC outcome %s" % need)
        selftest(rep, ws, wd, cfg)


def selftest(rep, ws, wd, cfg):
    """The binding is not vacuous: swap two stored events of a synced height; TLC must judge a violation."""
    for w in ws:
        w = list(w)
        for i, ln in enumerate(w):
            o = json.loads(ln)
            if o["ev"] == "Write" and o["res"] == "ok" and len(o["ids"]) >= 2:
                o["ids"] = list(reversed(o["ids"]))
                w[i] = json.dumps(o, separators=(",", ":"))
                if any(json.loads(x)["ev"] == "EndSync" and json.loads(x)["h"] >= o["h"] for x in w[i:]):
                    sp = os.path.join(wd, "selftest.ndjson")
                    open(sp, "w").write("\n".join(w) + "\n")
                    sv = vlib.validate_trace("Trace_Relayer", cfg, sp, name="C29-selftest")
                    if sv.accepted or not sv.violations:
                        raise vlib.ToolError("self-test: reordered stored events were not judged a violation")
                    rep.extra["selftest"] = "reordered stored events judged a StoredEqualsDa violation"
                    return
                break
    raise vlib.ToolError("self-test: no suitable write found")
