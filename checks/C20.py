"""C20 — reconciliation with blocks and preconfirmations.  TxPool.tla: BlockReconciles (included transactions leave,
stale preconfirmations absent from the block are rolled back: outputs withdrawn, dependents evicted, the tx id and its inputs no longer marked spent on its account = resubmittable),
LatePreconfIsNoop, and InsertAdmits over the never-forgetting ghost of committed inputs ("inputs become
unspendable"); judged by TLC on the states the real PoolWorker logged."""
import txpool_common as tc


def run(rep, tier, args):
    tc.run_family(rep, tier, args, "C20", selftest=selftest)


def selftest(rep, wd, cfg, traces):
    def touch(o):
        o["st"]["lru"] = (["c1"] + [k for k in o["st"]["lru"] if k != "c1"])[:o["st"]["cap"]] if o["st"]["lru"][:1] != ["c1"] \
            else o["st"]["lru"][1:]
    tc.corrupt_and_judge(rep, wd, cfg, traces, lambda o: o["ev"] == "Preconf" and o["res"] == "late", touch,
                         ["LatePreconfIsNoop"], "late-preconf")
    def keep(o):
        o["st"]["pool"] = sorted(set(o["st"]["pool"]) | {o["txs"][0]})
    tc.corrupt_and_judge(rep, wd, cfg, traces, lambda o: o["ev"] == "Block" and len(o["txs"]) >= 1, keep,
                         ["BlockReconciles"], "included-stays")
