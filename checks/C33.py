"""C33 — DA-compressed blocks decompress to the original blocks.
MC: Compression.tla (compress / decompress / evictor / temporal-registry write path transcribed per keyspace)
exhaustively with 3 keys, 4 values, timestamps spanning the retention window: RoundTrip, EveryRefResolvesToOriginal,
RegistriesAgree, CompressTotal.
B2: `tlc -simulate` behaviours of the same spec with the real key space (2^24-1 keys, cursor parked around the
wrap-around point) replayed on the real compress / decompress over the compression service's registry tables;
B3: seeded block sequences with repeated and fresh values, expiring timestamps, cursor jumps and a lagging
decompressor.  TLC validates every event (strict: registrations, references, both registry databases after the
step) and judges the invariants on the logged values."""
import json
import os
import vlib

KS = ["address", "asset_id", "contract_id", "script_code", "predicate_code"]
RETENTION = 2


def key(lines, names):
    """canonical key: violated invariants + the last event without the bulky state + the blocks before it"""
    evs = []
    for ln in lines[1:]:
        o = json.loads(ln)
        o.pop("st", None)
        o.pop("why", None)
        evs.append(o)
    last = evs[-1] if evs else {}
    hist = ["%s%s" % (e["ev"][0], ("@%s" % e.get("ts")) if "ts" in e else "") for e in evs]
    return "%s :: last=%s :: %s" % (",".join(sorted(set(names))), vlib.canon(last), " ".join(hist)[-400:])


def stats(path):
    """evidence only: how often the interesting cases occurred in an implementation trace"""
    s = {"blocks": 0, "compress_err": 0, "registrations": 0, "overwrites": 0, "evictions_of_live_keys": 0,
         "wraparounds": 0, "reregistered_after_expiry": 0, "default_refs": 0, "reused_refs": 0}
    prev = None
    for line in open(path):
        o = json.loads(line)
        if o["ev"] == "reset":
            prev = {k: {} for k in KS}
            continue
        st = o.get("st")
        if o["ev"] == "CompressBlock":
            s["blocks"] += 1
            if o["res"] != "Ok":
                s["compress_err"] += 1
            else:
                for ks in KS:
                    regd = {k: v for k, v in o["regs"][ks]}
                    for k, v in regd.items():
                        s["registrations"] += 1
                        if k == 0 and prev[ks] and max(prev[ks]) > 1000:
                            s["wraparounds"] += 1
                        if k in prev[ks]:
                            s["overwrites"] += 1
                            if o["ts"] - prev[ks][k][1] <= RETENTION:
                                s["evictions_of_live_keys"] += 1
                        if any(pv == v for (pv, _) in prev[ks].values()):
                            s["reregistered_after_expiry"] += 1
                    for r in o["refs"][ks]:
                        if r == -1:
                            s["default_refs"] += 1
                        elif r not in regd:
                            s["reused_refs"] += 1
        if st:
            prev = {ks: {e["k"]: (e["v"], e["ts"]) for e in st["creg"][ks]} for ks in KS}
    return s


def run(rep, tier, args):
    rep.assumptions += [
        "model bounds: one keyspace (keyspaces share only the block timestamp and the all-or-nothing commit), 3 keys, "
        "4 values + the default value, <=2 values per block, timestamps 0..3 with retention 1, decompressor lag <=1",
        "implementation traces: real key space 2^24-1; wrap-around / eviction are provoked by setting the persisted "
        "latest-assigned key (EvictorCache table) near the end of the key space and back into the occupied region",
        "round trip is exact for blocks whose executor-filled fields (the ones fuel-tx marks compress(skip): input "
        "tx pointers, contract roots, change/variable outputs, receipts root) are at their defaults; blocks with those "
        "fields filled are compared by transaction id",
        "registry storage: compression service tables over fuel-core-storage's InMemoryStorage; history lookups from an "
        "in-memory on-chain database",
    ]
    thorough = tier != "quick"
    mc = rep.model_check("MC_Compression", "MC_Compression.cfg", workers=8, timeout=3000, coverage=thorough)
    if thorough:
        mc2 = rep.model_check("MC_Compression", "MC_Compression_thorough.cfg", workers=8, timeout=6000)
        mc.violated += mc2.violated
    if mc.violated:
        vlib.log("model violates %s; the implementation trace decides" % mc.violated)
    hbin = os.path.join(vlib.cargo_build("h-compress"), "h-compress")
    wd = vlib.workdir("C33")
    tcfg = "Trace_Compression.cfg"
    if args.replay:
        rep.judge_trace("Trace_Compression", tcfg, args.replay, name="C33-replay", key_fn=key)
        return
    # B2: simulated behaviours of the spec on the real code
    num, depth = (25, 14) if not thorough else (250, 14)
    walks, r = vlib.sim_walks("Sim_Compression", "Sim_Compression.cfg", num=num, depth=depth, name="C33-sim", timeout=3000)
    if r.violated:
        vlib.log("simulation violates %s; the implementation trace decides" % r.violated)
    wp = os.path.join(wd, "walks.ndjson")
    vlib.write_walks(wp, walks)
    b2 = os.path.join(wd, "b2.ndjson")
    vlib.run_harness(hbin, ["c33-run", "--walks", wp, "--out", b2, "--retention", RETENTION])
    rep.extra["sim_walks"] = len(walks)
    for w in walks:
        rep.count_case(w, nontrivial=any(s["a"] == "CompressBlock" for s in w))
    if walks:
        rep.add_sample({"tlc_behaviour": walks[0][:6]})
    rep.judge_trace("Trace_Compression", tcfg, b2, name="C33-b2", key_fn=key, timeout=3000)
    # B3: seeded random block sequences
    n, ln = (150, 16) if not thorough else (2500, 20)
    b3 = os.path.join(wd, "b3.ndjson")
    vlib.run_harness(hbin, ["c33-random", "--walks", n, "--len", ln, "--out", b3, "--retention", RETENTION])
    ws = vlib.split_trace(b3)
    for w in ws:
        rep.count_case([json.loads(x).get("used") for x in w if x.startswith('{"ev":"CompressBlock"')])
    first = [json.loads(x) for x in ws[0] if x.startswith('{"ev":"CompressBlock"')][:2]
    for o in first:
        o.pop("st", None)
    rep.add_sample({"random_history": first})
    rep.judge_trace("Trace_Compression", tcfg, b3, name="C33-b3", key_fn=key, timeout=3000)
    st = stats(b3)
    st2 = stats(b2)
    rep.extra["impl_cases_b3"] = st
    rep.extra["impl_cases_b2"] = st2
    if rep.violations or rep.divergences:
        return      # the health checks below describe the unchanged behaviour; never let them mask a verdict
    for k in ("overwrites", "evictions_of_live_keys", "wraparounds", "reregistered_after_expiry", "reused_refs"):
        if st[k] + st2[k] == 0:
            raise vlib.ToolError("health: the drivers never produced the case '%s'" % k)
    selftest(rep, ws, wd, tcfg)


def selftest(rep, ws, wd, tcfg):
    """corrupt one decompressed value of one recorded event: TLC must judge it a RoundTrip violation"""
    for w in ws:
        w = list(w)
        for i, ln in enumerate(w):
            if ln.startswith('{"ev":"DecompressBlock"'):
                o = json.loads(ln)
                ks = next((k for k in KS if o.get("res") == "Ok" and any(v > 0 for v in o["out"][k])), None)
                if ks is None:
                    continue
                j = next(j for j, v in enumerate(o["out"][ks]) if v > 0)
                o["out"][ks][j] += 1
                w[i] = json.dumps(o, separators=(",", ":"))
                p = os.path.join(wd, "selftest.ndjson")
                open(p, "w").write("\n".join(w[:i + 1]) + "\n")
                v = vlib.validate_trace("Trace_Compression", tcfg, p, name="C33-selftest")
                if v.accepted or not any("RoundTrip" in n for (_, names, _) in v.violations for n in names):
                    raise vlib.ToolError("self-test: a corrupted decompressed value was not judged a RoundTrip violation")
                rep.extra["selftest"] = "corrupted decompressed value rejected and judged a RoundTrip violation"
                return
    raise vlib.ToolError("self-test: no decompressed block with a registry value found")
