"""C07 — the WASM and the native state transition function behave identically.
The harness h-exec-wasm (h-exec's sources + feature `wasm-executor` of fuel-core-upgradable-executor) produces,
validates (twice) and tamper-validates every generated block with BOTH Executor::native and Executor::wasm on the
same parent state, header and transaction source.  The events of the primary strategy are validated by TLC against
Trace_Exec (strict: the deterministic spec must accept them; once with native, once with wasm as the primary) and
the invariant WasmEqualsNative requires the other strategy's block id, digests of Changes / statuses / events,
skipped list or error class to be equal at every step.  MC: MC_Exec (ReplayOk: the abstract transition function is
deterministic given the block)."""
import json
import os
import shutil
import glob
from concurrent.futures import ThreadPoolExecutor

import exec_common
import vlib


TOOLCHAIN = "1.93.0"          # /repo/rust-toolchain.toml: the only installed toolchain with the wasm32 target
TARGET = os.path.join(vlib.HARNESS, "target-wasm")   # own target dir: a different rustc must not thrash the shared one


def force_wasm_rebuild():
    """upgradable-executor/build.rs only reruns when build.rs itself changes, so an edited executor would keep a
    stale wasm blob: drop the build-script outputs, the inner `cargo install` is incremental through its cache."""
    tgt = os.path.join(TARGET, "release")
    for d in glob.glob(os.path.join(tgt, "build", "fuel-core-upgradable-executor-*")):
        if os.path.exists(os.path.join(d, "output")) or os.path.exists(os.path.join(d, "out")):
            shutil.rmtree(d, ignore_errors=True)
    for d in glob.glob(os.path.join(tgt, ".fingerprint", "fuel-core-upgradable-executor-*")):
        if any(n.startswith("run-build-script") for n in os.listdir(d)):
            shutil.rmtree(d, ignore_errors=True)
    # The inner `cargo install` keeps ONE set of wasm32 artifacts of the fuel-core crates whatever checkout they
    # come from (same metadata hash for /repo and for a scratch worktree) and judged a blob built from a mutated
    # worktree fresh for /repo.  When the checkout changes, drop the fuel-core part of that cache (third-party
    # wasm32 crates stay).
    marker = os.path.join(TARGET, "last-checkout")
    here = os.path.realpath(vlib.REPO)
    last = open(marker).read().strip() if os.path.exists(marker) else ""
    if last != here:
        inner = os.path.join(tgt, "fuel-core-upgradable-executor-cache", "wasm32-unknown-unknown", "release")
        for pat in (".fingerprint/fuel-core-*", "deps/fuel_core_*", "deps/libfuel_core_*", "fuel-core-wasm-executor*",
                    "fuel_core_wasm_executor*"):
            for f in glob.glob(os.path.join(inner, pat)):
                shutil.rmtree(f, ignore_errors=True) if os.path.isdir(f) else os.remove(f)
    os.makedirs(TARGET, exist_ok=True)
    open(marker, "w").write(here)


def build_wasm_harness(timeout=10000):
    """vlib.cargo_build with the repository's toolchain and an own target dir.  CARGO_NET_OFFLINE must be in the
    environment: the build script's inner `cargo install --target wasm32-unknown-unknown` does not inherit --offline."""
    import subprocess
    import time
    lock_dst = os.path.join(vlib.HARNESS, "Cargo.lock")
    tmp = lock_dst + ".%d.tmp" % os.getpid()
    shutil.copy(os.path.join(vlib.REPO, "Cargo.lock"), tmp)
    os.replace(tmp, lock_dst)
    cmd = ["cargo", "build", "--offline", "--release", "-p", "h-exec-wasm"]
    e = dict(os.environ, CARGO_NET_OFFLINE="true", RUSTUP_TOOLCHAIN=TOOLCHAIN, CARGO_TARGET_DIR=TARGET)
    cwd = vlib.HARNESS
    if os.path.realpath(vlib.REPO) != "/repo":
        # another checkout (scratch worktree with a mutation).  vlib's `paths` override cannot be used here: the
        # wasm executor depends on fuel-core-types twice (current + 0.35 under another name) and an override by
        # package name collapses both.  Build a copy of the harness workspace whose path dependencies point at
        # that checkout; the target dir is shared, so third-party crates are reused.
        cwd = os.path.join(vlib.SCRATCH or vlib.WORK, "harness-wasm")
        shutil.rmtree(cwd, ignore_errors=True)
        os.makedirs(os.path.join(cwd, "crates"))
        for f in ("Cargo.toml", "Cargo.lock"):
            shutil.copy(os.path.join(vlib.HARNESS, f), os.path.join(cwd, f))
        for c in ("h-common", "h-exec", "h-exec-wasm"):
            shutil.copytree(os.path.join(vlib.HARNESS, "crates", c), os.path.join(cwd, "crates", c))
            mf = os.path.join(cwd, "crates", c, "Cargo.toml")
            txt = open(mf).read().replace('"/repo/', '"%s/' % os.path.realpath(vlib.REPO))
            open(mf, "w").write(txt)
    t0 = time.time()
    p = subprocess.run(["timeout", str(timeout)] + cmd, cwd=cwd, env=e, stdout=subprocess.PIPE,
                       stderr=subprocess.STDOUT, text=True, errors="replace")
    if p.returncode != 0:
        raise vlib.ToolError("cargo build -p h-exec-wasm failed (rc=%s)\n%s" % (
            p.returncode, "\n".join(p.stdout.splitlines()[-40:])[-4000:]))
    vlib.log("[build] h-exec-wasm ok in %.1fs" % (time.time() - t0))
    return os.path.join(TARGET, "release")


def run(rep, tier, args):
    rep.assumptions += exec_common.ASSUMPTIONS + [
        "both strategies run in one process on the same in-memory store; the wasm blob is the one built from the "
        "current tree by the upgradable executor's build script (no uploaded / historical bytecode versions)",
        "equality is established on the explored blocks only (quick ~100 blocks, thorough ~1000 blocks per primary strategy, each produced once and validated 2+ times by both)",
    ]
    cfg = "Trace_Exec_C07.cfg"
    if args.replay:
        rep.judge_trace("Trace_Exec", cfg, args.replay, name="C07-replay", key_fn=exec_common.key_fn)
        return
    mc = rep.model_check("MC_Exec", "MC_Exec_C07%s.cfg" % ("" if tier == "quick" else "_thorough"), name="MC_Exec_C07",
                         workers=8, timeout=1500 if tier == "quick" else 5000)
    if mc.violated:
        vlib.log("model violates %s; the implementation trace decides" % mc.violated)
    force_wasm_rebuild()
    hbin = os.path.join(build_wasm_harness(), "h-exec-wasm")
    wd = vlib.workdir("C07")
    wp, walks, sim = exec_common.sim_walks(tier, wd, "C07")
    rep.add_mc(sim, "Sim_Exec")
    nb2 = 8 if tier == "quick" else 120
    with open(wp) as f:
        lines = f.readlines()[:nb2]
    with open(wp, "w") as f:
        f.writelines(lines)
    n, blocks = (12, 6) if tier == "quick" else (70, 8)
    traces = []
    for primary in ("native", "wasm"):
        t2 = os.path.join(wd, "b2-%s.ndjson" % primary)
        vlib.run_harness(hbin, ["run", "--walks", wp, "--out", t2, "--primary", primary])
        t3 = os.path.join(wd, "b3-%s.ndjson" % primary)
        vlib.run_harness(hbin, ["random", "--walks", n, "--blocks", blocks, "--out", t3, "--primary", primary])
        traces += [t2, t3]
    # the binding is not vacuous: both strategies were really run at every step
    steps = {"ProduceEnd": 0, "Validate": 0, "Tamper": 0}
    for t in traces:
        for line in open(t):
            e = json.loads(line)
            if e["ev"] in steps:
                body = e[{"ProduceEnd": "p", "Validate": "v", "Tamper": "t"}[e["ev"]]]
                if "other" not in body:
                    raise vlib.ToolError("event without the other strategy's result: " + line[:200])
                steps[e["ev"]] += 1
    if steps["ProduceEnd"] == 0:
        raise vlib.ToolError("no block was produced")
    rep.extra["dual_strategy_steps"] = steps
    rep.extra["b2_walks"] = len(lines)
    rep.extra["b3_walks"] = n
    rep.extra["trace_stats"] = exec_common.trace_stats(traces)
    files = []
    for t in traces:
        files += exec_common.split_file(t, 2 if tier == "quick" else 5, wd, os.path.basename(t)[:-7])
        for w in vlib.split_trace(t):
            rep.count_case([x[:160] for x in w[2:]])
    first = [json.loads(x) for x in vlib.split_trace(traces[3])[0]]
    ends = [e["p"] for e in first if e["ev"] == "ProduceEnd"][:2]
    rep.add_sample({"wasm_primary_blocks": [{k: p[k] for k in ("strat", "ok", "bid", "dg", "txs", "other")} for p in ends]})

    def one(i):
        return rep.judge_trace("Trace_Exec", cfg, files[i], name="C07-%d" % i, key_fn=exec_common.key_fn, timeout=3000)

    with ThreadPoolExecutor(max_workers=6) as ex:
        list(ex.map(one, range(len(files))))
    selftest(rep, cfg, traces[1])


def selftest(rep, cfg, trace):
    """Flip one digest of the other strategy in one logged event: WasmEqualsNative must fail."""
    for w in vlib.split_trace(trace):
        w = list(w)
        idx = [i for i, x in enumerate(w) if x.startswith('{"ev":"Validate"')]
        if not idx:
            continue
        o = json.loads(w[idx[-1]])
        o["v"]["other"]["dg"]["ch"] = "x000000000000"
        w[idx[-1]] = json.dumps(o, separators=(",", ":"))
        p = os.path.join(vlib.WORK, "C07", "selftest.ndjson")
        open(p, "w").write("\n".join(w) + "\n")
        v = vlib.validate_trace("Trace_Exec", cfg, p, name="C07-selftest")
        if v.accepted or not v.violations:
            raise vlib.ToolError("self-test: a differing wasm digest was not reported as a violation")
        rep.extra["selftest"] = "differing wasm digest -> WasmEqualsNative violated"
        return
    raise vlib.ToolError("self-test: no Validate event")
