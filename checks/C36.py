"""C36 — off-chain indexes agree with the on-chain state.
MC: Offchain.tla (process_executor_events / balances::update / coins_to_spend::update / owned-coin and
owned-message tables / read-side queries, one action per executor event + CommitBlock) keeps IndexesEqualUnspent
after every block for every executor history in the bound.
B2: TLC -simulate behaviours are replayed through the real process_executor_events on an in-memory
Database<OffChain> (indexation enabled, one worker-style storage transaction per block);
B3: seeded random histories.  After every block the five tables and the read-side answers are projected;
TLC judges through Trace_Offchain."""
import json
import os
import vlib


def run(rep, tier, args):
    rep.assumptions += [
        "event histories are the ones an executor emits (a coin/message is created once with a fresh id and consumed "
        "at most once with the attributes it was created with; C02 covers event exactness); the executor itself is "
        "not run",
        "2 owners, 2 assets (asset 0 = base asset), MC: 2 coins / 2 messages / amounts {1,2}; traces: up to 6 coins, "
        "4 messages, amounts 0..8; saturation at u128 / u64 limits not reached",
        "events go through the public process_executor_events inside a Database<OffChain> storage transaction that is "
        "committed with the block-id->height entry like Task::process_block does; the rest of process_block (tx "
        "status, owners index) is not exercised",
        "the balance query is required to return coins + non-retryable (spendable) messages for the base asset, as "
        "both the indexed and the non-indexed implementation do",
    ]
    thorough = tier == "thorough"
    mc = rep.model_check("MC_Offchain", "MC_Offchain_thorough.cfg" if thorough else "MC_Offchain.cfg", workers=8,
                         coverage=thorough, timeout=3000)
    if mc.violated:
        vlib.log("model violates %s; the implementation trace decides" % mc.violated)
    hbin = os.environ.get("VERIF_HBIN_H_API") or os.path.join(vlib.cargo_build("h-api"), "h-api")
    wd = vlib.workdir("C36")
    cfg = "Trace_Offchain.cfg"
    if args.replay:
        rep.judge_trace("Trace_Offchain", cfg, args.replay, name="C36-replay", key_fn=key)
        return
    # B2: TLC behaviours on the real indexation
    num, depth = (40, 24) if not thorough else (400, 30)
    walks, r = vlib.sim_walks("Sim_Offchain", "Sim_Offchain.cfg", num=num, depth=depth, name="C36-sim", siblings=1)
    walks = [w for w in walks if len(w) >= 3]
    if not thorough:
        walks = walks[:120]
    wp = os.path.join(wd, "walks.ndjson")
    vlib.write_walks(wp, walks)
    tp = os.path.join(wd, "b2.ndjson")
    vlib.run_harness(hbin, ["off-run", "--walks", wp, "--out", tp])
    rep.extra["sim_walks"] = len(walks)
    for w in walks:
        rep.count_case(w)
    if walks:
        rep.add_sample({"tlc_behaviour": walks[-1][:6]})
    rep.judge_trace("Trace_Offchain", cfg, tp, name="C36-b2", key_fn=key, timeout=3000)
    # B3: seeded random histories
    n = 60 if not thorough else 1500
    tp3 = os.path.join(wd, "b3.ndjson")
    vlib.run_harness(hbin, ["off-random", "--walks", n, "--len", 8, "--coins", 6, "--msgs", 4, "--out", tp3])
    ws = vlib.split_trace(tp3)
    for w in ws:
        rep.count_case(w)
    rep.add_sample({"random_history": [json.loads(x) for x in ws[0][1:4]]})
    rep.judge_trace("Trace_Offchain", cfg, tp3, name="C36-b3", key_fn=key, timeout=3000)
    selftest(rep, tp3, cfg)


def key(lines, names):
    evs = []
    for ln in lines[1:]:
        o = json.loads(ln)
        if o["ev"] == "Commit":
            evs.append("Commit")
        else:
            evs.append("%s(%s)" % (o["ev"], ",".join("%s=%s" % (k, o[k]) for k in sorted(o) if k != "ev")))
    st = json.loads(lines[-1]).get("st", {})
    return "%s :: %s :: st=%s" % (",".join(sorted(set(names))), " ; ".join(evs), vlib.canon(st))


def selftest(rep, trace, cfg):
    """Corrupt one projected balance of one Commit: strict must reject, observe must break the invariant."""
    if rep.violations or rep.divergences:
        return      # the code under test already deviates: report that, the self-test needs conforming traces
    for w in vlib.split_trace(trace):
        w = list(w)
        for i in range(len(w) - 1, 0, -1):
            o = json.loads(w[i])
            if o.get("ev") == "Commit" and any(b["v"] > 0 for b in o["st"]["bal"]):
                for b in o["st"]["bal"]:
                    if b["v"] > 0:
                        b["v"] += 1
                        break
                w[i] = json.dumps(o, separators=(",", ":"))
                p = os.path.join(vlib.WORK, "C36", "selftest.ndjson")
                open(p, "w").write("\n".join(w[:i + 1]) + "\n")
                v = vlib.validate_trace("Trace_Offchain", cfg, p, name="C36-selftest")
                if v.accepted or not v.violations:
                    raise vlib.ToolError("self-test: a corrupted balance was not judged a violation")
                rep.extra["selftest"] = "corrupted coin balance rejected and judged a violation (%s)" % (
                    ",".join(v.violations[0][1]))
                return
    raise vlib.ToolError("self-test: no commit with a positive balance found")
