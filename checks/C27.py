"""C27 — sync batching partitions every requested range exactly.
MC: Chunker.tla (transcription of Cache::get_chunks) satisfies Partition for every (range, size, cache) in the
bound.  Binding: the harness runs the real get_chunks (hook fuel-core-sync/verif) on every case of the same
bound; TLC compares each result with `Chunks` (strict) and judges `PartitionInv` on the logged result."""
import json
import os
from concurrent.futures import ThreadPoolExecutor
import vlib


def run(rep, tier, args):
    rep.assumptions += ["height universe 0..MaxH, batch sizes 1..MaxSize (quick 0..4/1..5, thorough 0..6/1..7)",
                        "ranges ending at u32::MAX (saturating end) not explored"]
    suffix = "" if tier == "quick" else "_thorough"
    maxh, maxsize = (4, 5) if tier == "quick" else (6, 7)
    mc = rep.model_check("Chunker", "MC_Chunker%s.cfg" % suffix, workers=8)
    if mc.violated:
        vlib.log("model violates %s; the implementation trace decides" % mc.violated)
    hbin = os.path.join(vlib.cargo_build("h-sync"), "h-sync")
    wd = vlib.workdir("C27")
    cfg = "Trace_Chunker%s.cfg" % suffix
    if args.replay:
        rep.judge_trace("Trace_Chunker", cfg, args.replay, name="C27-replay", key_fn=key)
        return
    parts = 1 if tier == "quick" else 12
    files = []
    for p in range(parts):
        f = os.path.join(wd, "trace-%d.ndjson" % p)
        vlib.run_harness(hbin, ["chunker", "--maxh", maxh, "--maxsize", maxsize, "--part", p, "--parts", parts,
                                "--out", f])
        files.append(f)
    n = 0
    for f in files:
        for line in open(f):
            if line.startswith('{"ev":"Call"'):
                n += 1
                if n % 997 == 1:
                    rep.add_sample(json.loads(line))
    rep.evaluations = n
    rep.extra["exhaustive"] = True
    rep.extra["cases"] = n

    def one(i):
        return rep.judge_trace("Trace_Chunker", cfg, files[i], name="C27-p%d" % i, key_fn=key, timeout=3000)

    with ThreadPoolExecutor(max_workers=min(parts, 6)) as ex:
        list(ex.map(one, range(parts)))
    # each Call event is an independent case validated against the implementation
    rep.traces = n if not rep.violations and not rep.divergences else rep.traces
    rep.nontrivial = set(range(n))  # every enumerated case is distinct by construction
    selftest(rep, files[0], cfg)


def key(lines, names):
    o = json.loads(lines[-1])
    return "%s :: lo=%s hi=%s size=%s cache=%s res=%s" % (",".join(names), o.get("lo"), o.get("hi"), o.get("size"),
                                                         "".join(o.get("cache", [])), vlib.canon(o.get("res")))


def selftest(rep, trace, cfg):
    lines = [l.rstrip("\n") for l in open(trace)][:50]
    o = json.loads(lines[-1])
    o["res"][-1]["e"] += 1
    lines[-1] = json.dumps(o, separators=(",", ":"))
    p = os.path.join(vlib.WORK, "C27", "selftest.ndjson")
    open(p, "w").write("\n".join(lines) + "\n")
    v = vlib.validate_trace("Trace_Chunker", cfg, p, name="C27-selftest")
    if v.accepted or not v.violations:
        raise vlib.ToolError("self-test: corrupted result was not judged a violation")
    rep.extra["selftest"] = "corrupted result rejected and judged a Partition violation"
