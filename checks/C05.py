"""C05 — Relayed DA events are imported exactly once with a matching inbox root.
Exec.tla invariants: DaExact (relayer asked for exactly p+1..d in order), ImportedInOrder, MessageImportedOnce, ForcedExecutedOrFailed, InboxRoot (header root = independently computed binary Merkle root of exactly those events), MessagesLand.
MC of MC_Exec, B2: Sim_Exec behaviours executed by the real executor, B3: seeded driver; all judged by TLC through
Trace_Exec (tools/exec_common.py holds the shared pipeline)."""
import exec_common


def run(rep, tier, args):
    exec_common.run(rep, tier, args, "C05")
