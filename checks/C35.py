"""C35 — worst-case gas price estimates are total, monotone in the horizon and bound the compounded price.
MC: GasTable.tla (branch structure of cumulative_percentage_change: table vs computed, table index in domain;
integer compound bound).  Binding: the real cumulative_percentage_change and AlgorithmV1::worst_case are run on
every (price, percentage 0..27, horizon 0..27) of the bound (horizons ascending) and TLC judges Total, Bound and
Monotone on the logged estimates."""
import json
import os
import vlib


def key(lines, names):
    o = json.loads(lines[-1])
    o.pop("est", None)
    return "%s :: %s" % (",".join(sorted(set(names))), vlib.canon(o))


def run(rep, tier, args):
    rep.assumptions += ["percentages and horizons 0..27 exhaustively (covers the 25x25 table and its boundary), prices "
                        "{0,1,99,100,10^4} with the integer bound, three huge prices for totality/monotonicity only",
                        "float accuracy beyond the integer lower bound is not decided",
                        "UniversalGasPriceProvider (fuel-core crate) delegates to the same function and is not driven here"]
    rep.model_check("GasTable", "MC_GasTable.cfg", workers=4)
    hbin = os.path.join(vlib.cargo_build("h-gas"), "h-gas")
    wd = vlib.workdir("C35")
    if args.replay:
        rep.judge_trace("Trace_GasTable", "Trace_GasTable.cfg", args.replay, name="C35-replay", key_fn=key)
        return
    tp = os.path.join(wd, "table.ndjson")
    vlib.run_harness(hbin, ["table", "--maxpct", 27, "--maxblocks", 27, "--out", tp])
    n = 0
    for line in open(tp):
        if not line.startswith('{"ev":"reset"'):
            n += 1
            if n % 4001 == 1:
                rep.add_sample(json.loads(line))
    rep.evaluations = n
    rep.extra["exhaustive"] = True
    v = rep.judge_trace("Trace_GasTable", "Trace_GasTable.cfg", tp, name="C35-table", key_fn=key)
    if not rep.violations and not rep.divergences:
        rep.traces = n
    rep.nontrivial = set(range(n))
    # self-test: an estimate below the compounded price must be judged a Bound violation
    lines = [l.rstrip("\n") for l in open(tp)][:200]
    o = json.loads(lines[-1])
    o["est"] = 0
    o["price"], o["pct"], o["blocks"] = 100, 10, 3
    lines[-1] = json.dumps(o, separators=(",", ":"))
    sp = os.path.join(wd, "selftest.ndjson")
    open(sp, "w").write("\n".join(lines) + "\n")
    sv = vlib.validate_trace("Trace_GasTable", "Trace_GasTable.cfg", sp, name="C35-selftest")
    if not sv.violations:
        raise vlib.ToolError("self-test: too-low estimate was not judged a violation")
    rep.extra["selftest"] = "too-low estimate judged a Bound violation"
