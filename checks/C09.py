"""C09 — database commits are height-linked and the reported height is exact (incl. across reopen).
MC of DbHeight (commits accepted, rejected by the height checks, or rejected by the storage backend after the
height checks passed); B1: every edge of the reachable graph replayed on real `Database<D>` objects of the five
database kinds (in-memory and RocksDB on a temp dir, reopen = drop + open again); B3: seeded random histories
with skipped / repeated / mixed / missing heights.  All judged by TLC through Trace_DbHeight."""
import json
import os
import vlib
import dbharness


# known finding C09-1: rolling back the only height-carrying block (a compression database that started at
# height 3 and is rolled back below its first height, as CombinedDatabase::rollback_to does)
FINDING_WALKS = [
    [{"a": "New", "kind": "compression", "backend": "rocks"}, {"a": "Commit", "S": [3]}, {"a": "Rollback"},
     {"a": "Reopen"}],
]


def run(rep, tier, args):
    suffix = "" if tier == "quick" else "_thorough"
    maxh = 4 if tier == "quick" else 6
    rep.assumptions += [
        "heights bounded by MaxH=%d; at most two height-carrying entries per change set; u32::MAX overflow not explored" % maxh,
        "harness is built with fuel-core features [rocksdb, test-helpers]: the relayer database has no "
        "height-carrying table in this build (heights lookup is `|_| Ok(vec![])`), so for it only height-less "
        "commits and reopen are exercised",
        "RocksDB databases use StateRewindPolicy::RewindFullRange; graph and random walks roll back only where a "
        "previous block remains; rolling back the ONLY height-carrying block is a dedicated walk (known finding "
        "C09-1: cached height becomes h-1 while no block is left and the metadata table is empty)",
        "backend-rejected commits (height checks pass, storage returns ConflictingChanges) are part of the action "
        "space in two forms: a change set that itself writes the metadata entry (all kinds with a height table, through "
        "Modifiable::commit_changes) and a ChangesList whose two change sets write the same key (on-chain, through "
        "ImporterDatabase::commit_changes); other backend failures (I/O) are not injected",
        "height-carrying entries are written as raw column bytes (key/value codecs of FuelBlocks, "
        "FuelBlockIdsToHeights, GasPriceMetadata, CompressedBlocks), values are not decoded by the height lookup",
    ]
    mc = rep.model_check("MC_DbHeight", "MC_DbHeight%s.cfg" % suffix, workers=4, coverage=(tier == "thorough"))
    if mc.violated:
        vlib.log("model violates %s; the implementation traces decide" % mc.violated)
    hbin = os.path.join(vlib.cargo_build("h-db"), "h-db")
    wd = vlib.workdir("C09")
    tcfg = "Trace_DbHeight%s.cfg" % suffix
    if args.replay:
        rep.judge_trace("Trace_DbHeight", tcfg, args.replay, name="C09-replay", key_fn=key)
        return
    # known finding: rollback of the only block (outside the graph on purpose, see DbHeight.tla)
    fp = os.path.join(wd, "trace-findings.ndjson")
    dbharness.run_walks_parallel(hbin, "dbheight", FINDING_WALKS, fp, nproc=1)
    rep.judge_trace("Trace_DbHeight", tcfg, fp, name="C09-findings", key_fn=key)
    # B1: every edge of the reachable graph
    er = vlib.require_clean(vlib.tlc("MC_DbHeight", "Edges_DbHeight%s.cfg" % suffix, workers=1), "edges")
    edges = er.printed("EDGE")
    if not edges:
        raise vlib.ToolError("no edges emitted")
    walks = vlib.edge_walks(edges, max_len=150)
    vlib.write_walks(os.path.join(wd, "walks.ndjson"), walks)
    tp = os.path.join(wd, "trace-b1.ndjson")
    dbharness.run_walks_parallel(hbin, "dbheight", walks, tp, nproc=8)
    rep.extra["edges"] = len(edges)
    rep.extra["edge_walks"] = len(walks)
    rep.extra["exhaustive"] = True
    rep.add_sample({"walk": walks[0][:8]})
    for w in walks:
        rep.count_case(w)
    rep.judge_trace("Trace_DbHeight", tcfg, tp, name="C09-b1", key_fn=key)
    # B3: random histories
    n = 100 if tier == "quick" else 600
    tp3 = os.path.join(wd, "trace-b3.ndjson")
    dbharness.run_random_parallel(hbin, "dbheight-random", tp3, n, extra=["--len", 30, "--maxh", maxh], nproc=5)
    sp = vlib.split_trace(tp3)
    for w in sp:
        rep.count_case(w)
    rep.add_sample({"random_history": sp[0][:7]})
    rep.judge_trace("Trace_DbHeight", tcfg, tp3, name="C09-b3", key_fn=key)
    selftest(rep, tp3, tcfg)


def key(lines, names):
    """canonical key: violated invariants + kind/backend + the action sequence (args and results) of the walk"""
    evs = []
    kb = ""
    for ln in lines[1:]:
        o = json.loads(ln)
        if o["ev"] == "New":
            kb = "%s/%s" % (o.get("kind"), o.get("backend"))
        elif o["ev"] == "Commit":
            cf = o.get("cf", "none")
            evs.append("C%s%s:%s" % ("".join(str(x) for x in o["S"]) or "-", "" if cf == "none" else "/" + cf, o["res"]))
        elif o["ev"] == "Rollback":
            evs.append("RB:%s" % o["res"])
        else:
            evs.append(o["ev"])
    last = json.loads(lines[-1])
    return "%s :: %s :: cached=%s meta=%s :: %s" % (",".join(sorted(set(names))), kb, last.get("cached"),
                                                    last.get("meta"), " ".join(evs))


def selftest(rep, trace, tcfg):
    """corrupt the reported height of one accepted commit: strict mode must reject, observe mode must flag it"""
    walks = vlib.split_trace(trace)
    for w in walks:
        w = list(w)
        for i in range(len(w) - 1, 0, -1):
            o = json.loads(w[i])
            if o["ev"] == "Commit" and o["res"] == "Ok" and o["S"]:
                o["cached"] += 1
                w[i] = json.dumps(o, separators=(",", ":"))
                p = os.path.join(vlib.WORK, "C09", "selftest.ndjson")
                open(p, "w").write("\n".join(w[:i + 1]) + "\n")
                v = vlib.validate_trace("Trace_DbHeight", tcfg, p, name="C09-selftest")
                if v.accepted or not v.violations:
                    raise vlib.ToolError("self-test: corrupted reported height was not judged a violation")
                rep.extra["selftest"] = "corrupted reported height rejected and judged a ReportedExact violation"
                return
    raise vlib.ToolError("self-test: no accepted height-carrying commit in the random traces")
