"""C18 — extraction post-condition (ExtractPost in TxPool.tla): limits, minimal gas price, excluded contracts,
conflict freedom, parents first, non-increasing tip per gas among transactions executable at the same time, none
remains pooled.  Judged by TLC on the result lists and states the real pool logged for every constraint of the menu."""
import txpool_common as tc


def run(rep, tier, args):
    tc.run_family(rep, tier, args, "C18", selftest=selftest)


def selftest(rep, wd, cfg, traces):
    def keep(o):
        o["st"]["pool"] = sorted(set(o["st"]["pool"]) | {o["res"][0]})
    tc.corrupt_and_judge(rep, wd, cfg, traces, lambda o: o["ev"] == "Extract" and len(o["res"]) >= 1, keep,
                         ["ExtractPost"], "remains-pooled")
    def swap(o):
        o["res"] = list(reversed(o["res"]))
    # a parent handed out directly before its child (tied independent transactions may legally come in either order)
    tc.corrupt_and_judge(rep, wd, cfg, traces,
                         lambda o: o["ev"] == "Extract" and len(o["res"]) == 2 and o["_prev"] is not None
                         and [o["res"][0], o["res"][1]] in o["_prev"]["deps"], swap, ["ParentBeforeChild"], "order")
