"""C38 — cursor pagination enumerates every entry exactly once.
MC: Pagination.tla (transcription of schema.rs `query_pagination` + cursor-following sessions) satisfies
EveryEntryOnceInOrder / PageLen / FlagsExact for every collection over 1..MaxKey, page sizes 0..MaxSize, both
directions, every start cursor (absent, in the collection, in a gap, below, above).
B1: every edge of that graph is replayed on the real query_pagination (hook fuel_core::schema::verif);
B3: seeded random traversals over a wider key universe.  TLC judges both through Trace_Pagination."""
import json
import os
import vlib


def run(rep, tier, args):
    rep.assumptions += [
        "collections are subsets of 1..5 (B1) / 1..9 (B3), page sizes 0..6 / 0..11, keys distinct; the collection "
        "does not change during a traversal",
        "the storage iterator handed to query_pagination is a BTreeSet range starting at the cursor inclusive "
        "(what the resolvers' key-value iterators do)",
        "flags are read relative to the traversal (a last/before request is a descending traversal whose "
        "has_next_page announces more entries further down) - the convention fuel-core-client and the repository's "
        "integration tests use; has_previous_page is only required to be sound for a start cursor that is not in "
        "the collection (the code's own TODO)",
    ]
    mc = rep.model_check("MC_Pagination", "MC_Pagination_thorough.cfg" if tier == "thorough" else "MC_Pagination.cfg",
                         workers=8, coverage=(tier == "thorough"), timeout=3000)
    if mc.violated:
        vlib.log("model violates %s; the implementation trace decides" % mc.violated)
    hbin = os.environ.get("VERIF_HBIN_H_API") or os.path.join(vlib.cargo_build("h-api"), "h-api")
    wd = vlib.workdir("C38")
    cfg = "Trace_Pagination.cfg"
    if args.replay:
        rep.judge_trace("Trace_Pagination", "Trace_Pagination_wide.cfg", args.replay, name="C38-replay", key_fn=key)
        return
    # B1: every edge of the reachable graph on the real code
    er = vlib.require_clean(vlib.tlc("MC_Pagination", "Edges_Pagination.cfg", workers=1, timeout=1200), "edges")
    edges = er.printed("EDGE")
    if not edges:
        raise vlib.ToolError("no edges emitted")
    walks = vlib.edge_walks(edges, max_len=600)
    wp = os.path.join(wd, "walks.ndjson")
    vlib.write_walks(wp, walks)
    tp = os.path.join(wd, "trace-b1.ndjson")
    vlib.run_harness(hbin, ["pag-run", "--walks", wp, "--out", tp])
    rep.extra["edges"] = len(edges)
    rep.extra["edge_walks"] = len(walks)
    rep.extra["exhaustive"] = True
    rep.add_sample({"walk": walks[0][:8]})
    for w in walks:
        rep.count_case(w)
    rep.judge_trace("Trace_Pagination", cfg, tp, name="C38-b1", key_fn=key, timeout=3000)
    # B3: seeded random traversals, wider universe
    n = 400 if tier == "quick" else 6000
    tp3 = os.path.join(wd, "trace-b3.ndjson")
    vlib.run_harness(hbin, ["pag-random", "--walks", n, "--len", 6, "--maxkey", 9, "--maxsize", 11, "--out", tp3])
    w3 = vlib.split_trace(tp3)
    for w in w3:
        rep.count_case(w)
    rep.add_sample({"random_traversals": w3[0][:6]})
    rep.judge_trace("Trace_Pagination", "Trace_Pagination_wide.cfg", tp3, name="C38-b3", key_fn=key, timeout=3000)
    selftest(rep, tp3)
    relay_probe(rep, tp3)


def key(lines, names):
    o = json.loads(lines[-1])
    coll = None
    for ln in lines:
        e = json.loads(ln)
        if e.get("ev") == "New":
            coll = e.get("coll")
    return "%s :: coll=%s ev=%s d=%s c=%s cur=%s n=%s res=%s" % (
        ",".join(sorted(set(names))), coll, o.get("ev"), o.get("d"), o.get("c"), o.get("cur"), o.get("n"),
        vlib.canon(o.get("res")))


def selftest(rep, trace):
    """The binding is not vacuous: drop the last edge of one page (strict must not accept, observe must see the
    enumeration skip an entry or the flags lie)."""
    if rep.violations or rep.divergences:
        return      # the code under test already deviates: report that, the self-test needs conforming traces
    for w in vlib.split_trace(trace):
        w = list(w)
        for i in range(len(w) - 1, 0, -1):
            o = json.loads(w[i])
            if o.get("ev") in ("Start", "Follow") and len(o["res"]["edges"]) >= 2 and o["res"]["hn"]:
                o["res"]["edges"] = o["res"]["edges"][:-2] + o["res"]["edges"][-1:]
                w[i] = json.dumps(o, separators=(",", ":"))
                p = os.path.join(vlib.WORK, "C38", "selftest.ndjson")
                open(p, "w").write("\n".join(w[:i + 1]) + "\n")
                v = vlib.validate_trace("Trace_Pagination", "Trace_Pagination_wide.cfg", p, name="C38-selftest")
                if v.accepted or not v.violations:
                    raise vlib.ToolError("self-test: a page that skips an entry was not judged a violation")
                rep.extra["selftest"] = "page skipping an entry rejected and judged a violation (%s)" % (
                    ",".join(v.violations[0][1]))
                return
    raise vlib.ToolError("self-test: no suitable page found")


def relay_probe(rep, trace):
    """Not part of the verdict: how the real answers relate to the *other* reading of the flags (Relay: absolute,
    independent of the traversal direction).  Recorded in the evidence only (DESIGN.md section 8 item 8)."""
    fwd, bwd = None, None
    for w in vlib.split_trace(trace):
        newline = [ln for ln in w if ln.startswith('{"ev":"New"')]
        for ln in w:
            o = json.loads(ln)
            if o.get("ev") == "Start" and o["res"]["kind"] == "ok" and o["res"]["edges"] and o["res"]["hn"] \
                    and o["c"] == -1:
                if o["d"] == "F" and fwd is None:
                    fwd = [w[0], newline[0], ln]
                if o["d"] == "B" and bwd is None:
                    bwd = [w[0], newline[0], ln]
    out = {}
    for nm, w in (("forward", fwd), ("backward", bwd)):
        if w is None:
            continue
        p = os.path.join(vlib.WORK, "C38", "relay-%s.ndjson" % nm)
        open(p, "w").write("\n".join(w) + "\n")
        kind, r, at = vlib._validate_file("Trace_Pagination", "Trace_Pagination_relay.cfg", p, len(w),
                                          "C38-relay-" + nm, False, 600)
        out[nm] = "holds" if kind == "accepted" else "does not hold (%s)" % ",".join(r.violated or [kind])
    rep.extra["relay_absolute_reading_of_flags"] = out
