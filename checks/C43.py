"""C43 — block aggregator conversions preserve blocks; its storage only accepts contiguous heights.
MC: BlockAgg.tla (StorageDB::store_block height check, StorageStream range reads) — ContiguousOnly, RangeFaithful.
B1: every edge of the store/range state machine (heights 0..3, also with the heights at the top of the u32 range)
and every payload SHAPE TLC enumerates (transaction kind x input kinds x output kinds, transaction kind x receipt
kinds x policy sets; <=2 of each per transaction) is executed on the real code: the shape is instantiated with
seeded field values, converted fuel -> proto -> bytes (prost), stored through the real StorageDB, read back through
the real StorageBlocksProvider and converted bytes -> proto -> fuel; the harness logs per block whether header,
transactions, inputs, outputs, policies and receipts came back equal.  A sweep covers every variant of the
enum-valued fields (panic reasons, script results, optional data, upgrade purposes, all 64 policy sets, extreme
integers).  B3: seeded store / range sequences with random shapes.  TLC judges RoundTrip on the logged results and
ContiguousOnly / RangeFaithful on the store results and projected tables."""
import json
import os
import vlib

MAXH = 3


def key(lines, names):
    evs = []
    for ln in lines[1:]:
        o = json.loads(ln)
        o.pop("st", None)
        evs.append(o)
    last = evs[-1] if evs else {}
    detail = ""
    if last.get("ev") == "GetRange":
        bad = [it for it in last.get("items", []) if not it.get("rt")]
        if bad:
            comps = sorted(k for k, v in bad[0].get("c", {}).items() if not v)
            detail = "lost=%s dec=%s shape=%s" % (",".join(comps), bad[0].get("dec", "")[:60], vlib.canon(bad[0].get("p")))
    sv = ";".join(e.get("sv", "") for e in evs if e.get("ev") == "Store" and e.get("sv"))
    hist = " ".join("%s(%s)%s" % (e["ev"], e.get("h", "%s..%s" % (e.get("first"), e.get("last"))) if e["ev"] != "New"
                                  else "top" if e.get("top") else "low", "=" + e["res"] if e["ev"] == "Store" else "")
                    for e in evs)
    return "%s :: %s :: sv=%s :: %s" % (",".join(sorted(set(names))), detail, sv, hist[-300:])


def run(rep, tier, args):
    rep.assumptions += [
        "state machine bound: heights 0..3 (once as the lowest, once as the highest u32 heights), 2 payload shapes",
        "shape space: 5 transaction kinds x multisets of <=2 of 7 input kinds x multisets of <=2 of 5 output kinds; "
        "6 transaction kinds x multisets of <=2 of 13 receipt kinds x 4 policy sets; one transaction per block; field "
        "values seeded (VERIF_SEED); enum-valued fields swept exhaustively",
        "the original block's header is generated from its transactions and receipts (Block::new), as the block "
        "producer does; blocks whose header does not match their content are out of scope",
        "storage: the aggregator's tables over a shared in-memory KV; remote (S3) cache not covered",
    ]
    thorough = tier != "quick"
    mc = rep.model_check("MC_BlockAgg", "MC_BlockAgg.cfg", workers=4, coverage=thorough)
    if mc.violated:
        vlib.log("model violates %s; the implementation trace decides" % mc.violated)
    hbin = os.path.join(vlib.cargo_build("h-compress"), "h-compress")
    wd = vlib.workdir("C43")
    tcfg = "Trace_BlockAgg.cfg"
    if args.replay:
        rep.judge_trace("Trace_BlockAgg", tcfg, args.replay, name="C43-replay", key_fn=key)
        return
    # B1: the store / range state machine, then one walk per enumerated shape
    cfgs = [("Edges_BlockAgg.cfg", "sm"), ("Edges_BlockAgg_io.cfg", "io"), ("Edges_BlockAgg_rcpol.cfg", "rcpol")]
    if thorough:
        cfgs.append(("Edges_BlockAgg_full_thorough.cfg", "full"))
    nshapes = 0
    for cfg, tag in cfgs:
        er = vlib.require_clean(vlib.tlc("MC_BlockAgg", cfg, workers=1, name="C43-edges-" + tag, timeout=3000, xmx="6g"),
                                "edges " + tag)
        edges = er.printed("EDGE")
        walks = vlib.edge_walks(edges)
        wp = os.path.join(wd, "walks-%s.ndjson" % tag)
        vlib.write_walks(wp, walks)
        tp = os.path.join(wd, "b1-%s.ndjson" % tag)
        vlib.run_harness(hbin, ["c43-run", "--walks", wp, "--out", tp, "--maxh", MAXH])
        rep.extra["edges_" + tag] = len(edges)
        rep.extra["walks_" + tag] = len(walks)
        shapes = set()
        for w in walks:
            for s in w:
                if s["a"] == "Store":
                    shapes.add(vlib.canon(s["p"]))
            rep.count_case(w)
        nshapes += len(shapes)
        if tag == "sm":
            rep.add_sample({"edge_walk": walks[0][:8]})
        else:
            rep.add_sample({"shape_walk_" + tag: walks[len(walks) // 2]})
        rep.judge_trace("Trace_BlockAgg", tcfg, tp, name="C43-b1-" + tag, key_fn=key, timeout=3000)
    rep.extra["shapes_enumerated"] = nshapes
    # enum-valued fields
    sp = os.path.join(wd, "sweep.ndjson")
    vlib.run_harness(hbin, ["c43-sweep", "--out", sp, "--maxh", MAXH])
    rep.extra["sweep_cases"] = len(vlib.split_trace(sp))
    rep.judge_trace("Trace_BlockAgg", tcfg, sp, name="C43-sweep", key_fn=key, timeout=3000)
    # B3
    n, ln = (150, 12) if not thorough else (3000, 14)
    b3 = os.path.join(wd, "b3.ndjson")
    vlib.run_harness(hbin, ["c43-random", "--walks", n, "--len", ln, "--out", b3, "--maxh", MAXH])
    ws = vlib.split_trace(b3)
    for w in ws:
        rep.count_case([{k: v for k, v in json.loads(x).items() if k != "st"} for x in w[1:]])
    rep.judge_trace("Trace_BlockAgg", tcfg, b3, name="C43-b3", key_fn=key, timeout=3000)
    if not rep.violations and not rep.divergences:
        selftest(rep, ws, wd, tcfg)


def selftest(rep, ws, wd, tcfg):
    """(a) flip a logged round-trip result, (b) turn a rejected store into an accepted one: TLC must object"""
    done = set()
    for w in ws:
        w = list(w)
        for i, ln in enumerate(w):
            o = json.loads(ln)
            if "rt" not in done and o["ev"] == "GetRange" and o["items"]:
                o["items"][0]["rt"] = False
                name, want = "rt", "RoundTrip"
            elif "st" not in done and o["ev"] == "Store" and o["res"] == "Err" and o["h"] not in o["st"]["heights"]:
                o["res"] = "Ok"
                o["st"]["heights"] = sorted(o["st"]["heights"] + [o["h"]])
                o["st"]["latest"] = o["h"]
                name, want = "st", "ContiguousOnly"
            else:
                continue
            w2 = w[:i] + [json.dumps(o, separators=(",", ":"))]
            p = os.path.join(wd, "selftest-%s.ndjson" % name)
            open(p, "w").write("\n".join(w2) + "\n")
            v = vlib.validate_trace("Trace_BlockAgg", tcfg, p, name="C43-selftest-" + name)
            if v.accepted or not any(want in n for (_, names, _) in v.violations for n in names):
                raise vlib.ToolError("self-test: corrupted %s was not judged a %s violation" % (name, want))
            done.add(name)
        if len(done) == 2:
            rep.extra["selftest"] = "flipped round-trip result judged RoundTrip; forged accepted store judged ContiguousOnly"
            return
    raise vlib.ToolError("self-test: no suitable events found (%s)" % sorted(done))
