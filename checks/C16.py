"""C16 — the pool never holds conflicting transactions; reported count / gas / size equal the sums over what it holds.
TxPool.tla invariants NoTwoSpendSameInput, NoTwoCreateSameContractOrBlob, StatsExact, evaluated by TLC on every
state the real PoolWorker logged (B2: TLC-simulated behaviours executed on the real pool, B3: seeded random
interleavings of all commands), plus bounded model checking / simulation of the transcription."""
import txpool_common as tc


def run(rep, tier, args):
    tc.run_family(rep, tier, args, "C16", selftest=selftest)


def selftest(rep, wd, cfg, traces):
    def bump(o):
        o["st"]["stats"]["gas"] += 1
    tc.corrupt_and_judge(rep, wd, cfg, traces, lambda o: o["ev"] == "Insert" and o["res"] == "Ok", bump,
                         ["StatsExact"], "stats")
