"""C12 — historical views and rollbacks reproduce past state exactly, across restarts that change the rewind policy.
MC: History.tla (transcription of HistoricalRocksDB's history bookkeeping + Database::view_at / rollback_last_block)
    (a) in the window-keeping regime (SpecKeep) the model satisfies the property; (b) with arbitrary policy
    changes (Spec) the model of the code AS WRITTEN violates ViewExactOrNoHistory - the implementation decides:
    two dedicated minimal histories are executed on the real code (known findings C12-1 / C12-2).
B2: `tlc -simulate` behaviours of SpecKeep executed on Database<OnChain> over a temp RocksDB (typed tables), with a
    view at every height after every step;  B3: seeded random histories (commits with overlapping writes,
    restarts, rollbacks, re-commits) in the same regime.  TLC judges through Trace_History."""
import json
import os
import vlib
import dbharness

# minimal histories for the two recorded defects (the first is TLC's own shortest counterexample of Spec)
FINDING_WALKS = [
    # C12-1: history kept, then a run with NoRewind commits a block, then any view below it
    [{"a": "New", "policy": "full"}, {"a": "Commit", "w": [-1, -1]}, {"a": "Restart", "policy": "none"},
     {"a": "Commit", "w": [-1, 1]}, {"a": "View", "h": 0}],
    # C12-2: full history, then a bounded range: cleanup deletes only height h-n and leaves older diffs below a gap
    [{"a": "New", "policy": "full"}, {"a": "Commit", "w": [1, -1]}, {"a": "Commit", "w": [2, -1]},
     {"a": "Restart", "policy": "r1"}, {"a": "Commit", "w": [-1, -1]}, {"a": "View", "h": 0}],
]


def run(rep, tier, args):
    thorough = tier != "quick"
    suffix = "_thorough" if thorough else ""
    rep.assumptions += [
        "2 abstract keys (ContractsAssets and ContractsState entries of one contract: sparse-merklized tables on "
        "32-byte-prefix columns, so merkle nodes and metadata are part of every diff), values {1,2}, block heights 0..5",
        "policies NoRewind / RewindFullRange / RewindRange{1,2,3}; a restart is a clean close + open with another "
        "policy (crash points inside one RocksDB write batch are not explored: batch atomicity is trusted)",
        "bulk behaviours (B2/B3) stay in the regime where the retained window never shrinks while history exists; "
        "outside it the code returns wrong states (known findings C12-1, C12-2), shown by two dedicated histories",
        "views are asked only at heights that hold a block",
    ]
    mk = rep.model_check("MC_History", "MC_History_keep%s.cfg" % suffix, label="keep-regime", workers=8,
                         coverage=thorough, timeout=3000)
    if mk.violated:
        vlib.log("model (window-keeping regime) violates %s; the implementation traces decide" % mk.violated)
    ma = rep.model_check("MC_History", "MC_History%s.cfg" % suffix, label="any-policy-change", workers=8, timeout=3000)
    rep.extra["model_any_policy_change"] = ("violates %s (expected: the code as transcribed leaves history gaps)"
                                            % ma.violated) if ma.violated else "holds"
    hbin = os.path.join(vlib.cargo_build("h-db"), "h-db")
    wd = vlib.workdir("C12")
    tcfg = "Trace_History.cfg"
    if args.replay:
        rep.judge_trace("Trace_History", tcfg, args.replay, name="C12-replay", key_fn=key)
        return
    # the model's counterexample (and its Range twin) on the real code
    if ma.violated:
        fp = os.path.join(wd, "trace-findings.ndjson")
        dbharness.run_walks_parallel(hbin, "history", FINDING_WALKS, fp, nproc=2)
        rep.judge_trace("Trace_History", tcfg, fp, name="C12-findings", key_fn=key, max_divergent=5)
    # B2: simulated behaviours of the spec
    nsim, depth = (40, 14) if not thorough else (250, 14)     # RocksDB open/close per restart dominates the cost
    sr = vlib.require_clean(vlib.tlc("Sim_History", "Sim_History.cfg", workers=1, simulate=nsim, depth=depth + 1),
                            "simulate")
    if sr.violated:
        vlib.log("simulation violates %s; the implementation traces decide" % sr.violated)
    seen, walks = set(), []
    for beh in sr.printed("BEH"):
        k = vlib.canon(beh[:-1])
        if k in seen:
            continue
        seen.add(k)
        walks.append([dict([("a", a["name"])] + [(x, y) for x, y in a.items() if x not in ("name", "res")])
                      for a in beh])
    if not walks:
        raise vlib.ToolError("simulation produced no behaviours")
    vlib.write_walks(os.path.join(wd, "walks-b2.ndjson"), walks)
    tp2 = os.path.join(wd, "trace-b2.ndjson")
    dbharness.run_walks_parallel(hbin, "history", walks, tp2, extra=["--viewall", 1], nproc=8)
    rep.extra["simulated_behaviours"] = len(walks)
    rep.add_sample({"simulated_behaviour": walks[0][:8]})
    for w in walks:
        rep.count_case(w)
    rep.judge_trace("Trace_History", tcfg, tp2, name="C12-b2", key_fn=key)
    # B3: random histories of the real code
    n = 60 if not thorough else 400
    tp3 = os.path.join(wd, "trace-b3.ndjson")
    dbharness.run_random_parallel(hbin, "history-random", tp3, n,
                                  extra=["--len", 16, "--maxh", 5, "--regime", "keep"], nproc=8)
    sp = vlib.split_trace(tp3)
    for w in sp:
        rep.count_case([x for x in w if '"ev":"View"' not in x])
    rep.add_sample({"random_history": [json.loads(x) for x in sp[0][1:6]]})
    rep.judge_trace("Trace_History", tcfg, tp3, name="C12-b3", key_fn=key)
    selftest(rep, tp3, tcfg)


def key(lines, names):
    """canonical key: violated names + the state-changing actions of the walk + the last event"""
    evs = []
    for ln in lines[1:]:
        o = json.loads(ln)
        e = o["ev"]
        if e == "New":
            evs.append("N:%s" % o["policy"])
        elif e == "Restart":
            evs.append("R:%s" % o["policy"])
        elif e == "Commit":
            evs.append("C:%s%s" % (",".join(str(x) for x in o["w"]), "" if o["res"] == "Ok" else "!" + o["res"]))
        elif e == "Rollback":
            evs.append("RB%s" % ("" if o["res"] == "Ok" else "!" + o["res"]))
    o = json.loads(lines[-1])
    if o["ev"] == "View":
        last = "V%d=%s" % (o["h"], json.dumps(o["st"], separators=(",", ":")) if o["ok"] else o["res"])
    else:
        last = "%s latest=%s" % (o["ev"], json.dumps(o.get("latest"), separators=(",", ":")))
    return "%s :: %s :: %s" % (",".join(sorted(set(names))), " ".join(evs), last)


def selftest(rep, trace, tcfg):
    """change one value of one successful historical view: strict must reject, LastViewExact must flag it"""
    for w in vlib.split_trace(trace):
        for i, ln in enumerate(w):
            if ln.startswith('{"ev":"View"'):
                o = json.loads(ln)
                if o["ok"]:
                    o["st"][0] = 1 if o["st"][0] != 1 else 2
                    w2 = list(w[:i]) + [json.dumps(o, separators=(",", ":"))]
                    p = os.path.join(vlib.WORK, "C12", "selftest.ndjson")
                    open(p, "w").write("\n".join(w2) + "\n")
                    v = vlib.validate_trace("Trace_History", tcfg, p, name="C12-selftest")
                    if v.accepted or not v.violations:
                        raise vlib.ToolError("self-test: corrupted view was not judged a violation")
                    rep.extra["selftest"] = "corrupted historical view rejected and judged a LastViewExact violation"
                    return
    raise vlib.ToolError("self-test: no successful view in the random traces")
