"""C14 — sparse Merkle roots of the sparse-merklized compression registry tables match the table contents.
MC: Merkle.tla, sparse part (a root is abstract = the entry set it commits to; ghost = plain map model).
B1: every edge of two bounded graphs (2 tables x 3 keys x 1 value; 1 table x 3 keys x 2 values) replayed on
the real Merkleized<Address> / Merkleized<AssetId> tables; B3: seeded random driver over 2 tables x 3 keys x 2 values.
The harness maps each root to the entry set whose from-scratch `root_from_set` root it equals; TLC judges."""
import os
import sys

import vlib

sys.path.insert(0, os.path.join(vlib.VERIF, "tools"))
import stor  # noqa: E402

TRACE = ("Trace_Merkle", "Trace_Merkle_sparse.cfg")


def run(rep, tier, args):
    thorough = tier == "thorough"
    rep.assumptions += [
        "bounds: 2 primary keys (tables storage::Address and storage::AssetId of fuel-core-compression-service: one "
        "primary key per table column) x 3 registry keys x 2 values (MC thorough: 3 values)",
        "hashes are abstract in TLC; the harness maps a root to the entry set whose from-scratch root "
        "(fuel_merkle sparse in_memory MerkleTree::root_from_set over the encoded keys/values) it equals",
        "operations go through StorageMutate / StorageBatchMutate / MerkleRootStorage of a long-lived StorageTransaction "
        "over InMemoryStorage (plus commits into the base store); batches carry distinct keys",
    ]
    hbin = stor.harness_bin()
    wd = vlib.workdir("C14")
    if args.replay:
        rep.judge_trace(*TRACE, args.replay, name="C14-replay")
        return
    mc = rep.model_check("MC_Merkle", "MC_Merkle_sparse%s.cfg" % ("_thorough" if thorough else ""), workers=4,
                         coverage=thorough, timeout=3000)
    if mc.violated:
        vlib.log("model violates %s; the implementation traces decide" % mc.violated)
    walks, n_edges, info = stor.edge_walks_multi("MC_Merkle", ["Edges_Merkle_sparse_a.cfg", "Edges_Merkle_sparse_b.cfg"],
                                                 workers=2)
    rep.extra.update(edges=n_edges, edge_cfgs=info, exhaustive=True)
    wp, tp = os.path.join(wd, "walks-b1.ndjson"), os.path.join(wd, "trace-b1.ndjson")
    vlib.write_walks(wp, walks)
    vlib.run_harness(hbin, ["sparse", "--walks", wp, "--out", tp])
    for w in walks:
        rep.count_case(w)
    rep.add_sample({"b1_walk": walks[0][:10]})
    n3, l3 = (100, 30) if not thorough else (4000, 40)
    tp3 = os.path.join(wd, "trace-b3.ndjson")
    vlib.run_harness(hbin, ["sparse-random", "--walks", n3, "--len", l3, "--out", tp3])
    t3 = vlib.split_trace(tp3)
    for w in t3:
        rep.count_case(w)
    rep.add_sample({"random_history": t3[0][:6]})
    tpx = os.path.join(wd, "trace-all.ndjson")
    with open(tpx, "w") as f:
        f.write(open(tp).read())
        f.write(open(tp3).read())
    stor.judge_chunks(rep, *TRACE, tpx, "C14", parts=4 if not thorough else 8)
    rep.extra["selftest"] = stor.selftest_corrupt(*TRACE, tp3, "C14-selftest", corrupt)


def corrupt(evs):
    """a recorded root that is the from-scratch root of a different entry set"""
    for e in evs[1:]:
        for row in e.get("root", []):
            if any(x > 0 for x in row):
                i = [j for j, x in enumerate(row) if x > 0][0]
                row[i] = 0
                return True
    return False
