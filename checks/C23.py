"""C23 — the status cache returns the latest published status until it expires.
MC: TxStatus with 2 transactions, publications and clock advances (cache part).
B2: `tlc -simulate` behaviours + directed scenarios replayed on the real TxStatusManager (paused tokio clock).
B3: seeded random publication sequences for 3 transactions with controlled clock advances.
TLC judges StatusIsLatest / ForgottenOnlyAfterTtl on the statuses the real `status()` returned."""
import json
import os
import vlib
import txstatus as tx

TCFG = "Trace_TxStatus_C23.cfg"


def slim(o):
    return {k: v for k, v in o.items() if k not in ("snd", "sizes", "keys", "clock")}


def run(rep, tier, args):
    quick = tier == "quick"
    rep.assumptions += [
        "model bounds (quick): 2 transactions, kinds Sub/PSucc/Succ/PSq, <=4 publications, clock <=5, TTL 2; traces: "
        "3 transactions, all 7 kinds, cache TTL 2 s on a paused tokio clock (whole seconds, so age = TTL exactly is hit)",
        "statuses of one transaction are numbered by publication, so 'latest' is compared by identity, not by kind",
        "pruning is lazy (only a later publication prunes): the property allows a status to be returned after its TTL",
    ]
    wd = vlib.workdir("C23")
    hb = tx.hbin()
    if args.replay:
        rep.judge_trace("Trace_TxStatus", TCFG, args.replay, name="C23-replay", key_fn=tx.last_event_key)
        return
    sfx = "" if quick else "_thorough"

    def mc_cache():
        return rep.model_check("MC_TxStatus", "MC_TxStatus_cache%s.cfg" % sfx, workers=8, name="C23-mc-cache",
                               timeout=7200)

    def impl():
        num, depth = (40, 24) if quick else (400, 30)
        sims, _ = vlib.sim_walks("Sim_TxStatus", "Sim_TxStatus_cache.cfg", num=num, depth=depth, name="C23-sim")
        scen = tx.cache_scenarios()
        vlib.write_walks(wd + "/walks.ndjson", scen + sims)
        vlib.run_harness(hb, ["mgr", "--walks", wd + "/walks.ndjson", "--out", wd + "/b2.ndjson"] + tx.mgr_args(3))
        rep.extra["sim_walks"] = len(sims)
        rep.extra["scenario_walks"] = len(scen)
        for w in scen + sims:
            rep.count_case(w)
        rep.add_sample({"scenario": scen[0]})
        rep.judge_trace("Trace_TxStatus", TCFG, wd + "/b2.ndjson", name="C23-b2", key_fn=tx.last_event_key)
        n = 300 if quick else 5000
        vlib.run_harness(hb, ["mgr-random", "--profile", "cache", "--walks", n, "--len", 40, "--out", wd + "/b3.ndjson"]
                         + tx.mgr_args(3))
        ws = vlib.split_trace(wd + "/b3.ndjson")
        for w in ws:
            rep.count_case(w)
        rep.add_sample({"random_history": [slim(json.loads(x)) for x in ws[0][1:7]]})
        forgotten = kept = 0
        for w in ws:
            seen = set()
            for ln in w[1:]:
                o = json.loads(ln)
                if o["ev"] == "Publish":
                    seen.add(o["tx"])
                for i, c in enumerate(o["cache"]):
                    if (i + 1) in seen:
                        if c["k"] == "none":
                            forgotten += 1
                        elif c["k"] == "Sub":
                            kept += 1
        rep.extra["corner_counts"] = {"states_with_forgotten_status": forgotten, "states_with_submitted_kept": kept}
        if forgotten == 0 or kept == 0:
            raise vlib.ToolError("random driver never saw a forgotten / kept status")
        rep.judge_trace("Trace_TxStatus", TCFG, wd + "/b3.ndjson", name="C23-b3", key_fn=tx.last_event_key)

        def stale(o):
            # status() claims an older status than the latest published one
            if o.get("ev") == "Publish" and o["n"] > 1:
                o["cache"][o["tx"] - 1]["n"] = o["n"] - 1
                return True
            return False
        tx.corrupt_selftest(rep, "Trace_TxStatus", TCFG, wd + "/b3.ndjson", "cache", stale, want_violation=True)

    res = tx.parallel([impl, mc_cache])
    if res[1].violated:
        vlib.log("model violates %s; the implementation traces decide" % res[1].violated)
