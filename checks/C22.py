"""C22 — status subscriptions deliver statuses in order and end after a final one.
MC: TxStatusStream (the per-subscriber automaton alone) and TxStatus (manager + update sender + channels, bounded).
B1: every (state, message/call) edge of the automaton replayed on the real TxUpdateStream.
B2: `tlc -simulate` behaviours of TxStatus + directed corner scenarios replayed on the real TxStatusManager.
B3: seeded random interleavings (draining / lagging / dropping subscribers, limits, TTL) of the real manager.
All traces are judged by TLC (Trace_TxStatusStream, Trace_TxStatus with the C22 invariants)."""
import json
import os
import vlib
import txstatus as tx

STREAM_INIT = vlib.canon({"st": {"s": "Empty", "h": []}})
TCFG = "Trace_TxStatus_C22.cfg"


def slim(o):
    return {k: v for k, v in o.items() if k not in ("snd", "sizes", "keys", "clock")}


def run(rep, tier, args):
    quick = tier == "quick"
    rep.assumptions += [
        "model bounds (quick): automaton alone with 2 tags per kind and <=3 messages; manager with 1 tx, 4 kinds "
        "(Sub, PSucc, Succ, PSq), 2 subscribers, channel capacity 1, <=3 publications, clock <=2; permits with 3 "
        "subscribers/1 permit; traces use the real capacity 3, 2 permits, subscription TTL 3 s on a paused tokio clock",
        "a subscriber's entitlement ends when its subscription TTL has passed (the sender is then removed at the "
        "next publication/subscription); the drained-subscriber guarantee is asserted for publications made before that",
        "one poll of the stream = one Read; channel content is not inspected, it is bound through the read results",
    ]
    wd = vlib.workdir("C22")
    hb = tx.hbin()
    if args.replay:
        first = [json.loads(l).get("ev") for l in open(args.replay)][1:2]
        if first and first[0] in ("AddMsg", "AddFailure", "CloseRecv", "TryNext"):
            rep.judge_trace("Trace_TxStatusStream", "Trace_TxStatusStream.cfg", args.replay, name="C22-replay",
                            key_fn=tx.last_event_key)
        else:
            rep.judge_trace("Trace_TxStatus", TCFG, args.replay, name="C22-replay", key_fn=tx.last_event_key)
        return
    sfx = "" if quick else "_thorough"

    # ---- model checking (runs beside the harness work)
    def mc_stream():
        return rep.model_check("MC_TxStatusStream", "MC_TxStatusStream%s.cfg" % sfx, workers=4, name="C22-mc-stream",
                               coverage=not quick)

    def mc_subs():
        return rep.model_check("MC_TxStatus", "MC_TxStatus_subs%s.cfg" % sfx, workers=6, name="C22-mc-subs",
                               timeout=7200)

    def mc_permits():
        return rep.model_check("MC_TxStatus", "MC_TxStatus_permits.cfg", workers=2, name="C22-mc-permits")

    def impl():
        # B1: edge cover of the stream automaton
        er = vlib.require_clean(vlib.tlc("MC_TxStatusStream", "Edges_TxStatusStream.cfg", workers=1, name="C22-edges"),
                                "edges")
        edges = er.printed("EDGE")
        if not edges:
            raise vlib.ToolError("no edges emitted")
        walks = vlib.edge_walks(edges, init_key=STREAM_INIT)
        vlib.write_walks(wd + "/stream-walks.ndjson", walks)
        vlib.run_harness(hb, ["stream", "--walks", wd + "/stream-walks.ndjson", "--out", wd + "/stream-b1.ndjson"])
        rep.extra["stream_edges"] = len(edges)
        rep.extra["stream_edge_walks"] = len(walks)
        rep.extra["exhaustive"] = True
        rep.extra["exhaustive_scope"] = "stream automaton: every (state, call) pair"
        for w in walks:
            rep.count_case(w)
        rep.add_sample({"stream_edge_walk": walks[0][:6]})
        rep.judge_trace("Trace_TxStatusStream", "Trace_TxStatusStream.cfg", wd + "/stream-b1.ndjson", name="C22-b1",
                        key_fn=tx.last_event_key)
        n = 300 if quick else 5000
        vlib.run_harness(hb, ["stream-random", "--walks", n, "--len", 14, "--out", wd + "/stream-b3.ndjson"])
        rep.judge_trace("Trace_TxStatusStream", "Trace_TxStatusStream.cfg", wd + "/stream-b3.ndjson", name="C22-b3s",
                        key_fn=tx.last_event_key)
        # B2: simulated behaviours + directed scenarios on the real manager
        num, depth = (40, 30) if quick else (400, 40)
        sims, _ = vlib.sim_walks("Sim_TxStatus", "Sim_TxStatus_subs.cfg", num=num, depth=depth, name="C22-sim")
        scen = tx.subscriber_scenarios()
        vlib.write_walks(wd + "/mgr-walks.ndjson", scen + sims)
        vlib.run_harness(hb, ["mgr", "--walks", wd + "/mgr-walks.ndjson", "--out", wd + "/mgr-b2.ndjson"] + tx.mgr_args(2))
        rep.extra["sim_walks"] = len(sims)
        rep.extra["scenario_walks"] = len(scen)
        for w in scen + sims:
            rep.count_case(w)
        rep.add_sample({"scenario_lagging_subscriber": scen[0]})
        rep.judge_trace("Trace_TxStatus", TCFG, wd + "/mgr-b2.ndjson", name="C22-b2", key_fn=tx.last_event_key)
        # B3: random interleavings
        n = 250 if quick else 2500
        vlib.run_harness(hb, ["mgr-random", "--walks", n, "--len", 40, "--out", wd + "/mgr-b3.ndjson"] + tx.mgr_args(2))
        ws = vlib.split_trace(wd + "/mgr-b3.ndjson")
        for w in ws:
            rep.count_case(w)
        rep.add_sample({"random_history": [slim(json.loads(x)) for x in ws[0][1:7]]})
        text = open(wd + "/mgr-b3.ndjson").read() + open(wd + "/mgr-b2.ndjson").read()
        rep.extra["corner_counts"] = {
            "failed_status_delivered": text.count('"out":{"k":"FS"'), "subscribe_refused": text.count('"res":"full"'),
            "stream_end_seen": text.count('"out":{"k":"End"'), "lagging_sender_states": text.count('"s":"Failed"'),
            "receiver_drops": text.count('"ev":"DropSub"')}
        if min(rep.extra["corner_counts"].values()) == 0:
            raise vlib.ToolError("drivers did not reach a corner case: %s" % rep.extra["corner_counts"])
        rep.judge_trace("Trace_TxStatus", TCFG, wd + "/mgr-b3.ndjson", name="C22-b3", key_fn=tx.last_event_key)
        selftest(rep, wd)

    res = tx.parallel([impl, mc_stream, mc_subs, mc_permits])
    for r in res[1:]:
        if r.violated:
            vlib.log("model violates %s; the implementation traces decide" % r.violated)


def selftest(rep, wd):
    def bad_out(o):
        if o.get("ev") == "TryNext" and o["out"]["k"] in ("Sub", "PSucc"):
            o["out"]["n"] = 3 - o["out"]["n"]
            return True
        return False

    def dup_read(o):
        # a subscriber is handed a status that was never published for its transaction
        if o.get("ev") == "Read" and o["out"]["k"] in ("Sub", "PSucc", "PFail"):
            o["out"]["n"] += 7
            return True
        return False

    tx.corrupt_selftest(rep, "Trace_TxStatusStream", "Trace_TxStatusStream.cfg", wd + "/stream-b1.ndjson", "stream", bad_out)
    tx.corrupt_selftest(rep, "Trace_TxStatus", TCFG, wd + "/mgr-b3.ndjson", "mgr", dup_read, want_violation=True)
