"""C32 — peers are served exactly what the database holds, within limits, and messages survive the codec.
MC of P2PServe.tla (transcription of Task::handle_db_request / handle_full_transactions_request,
CachedView::get_from_cache_or_db with arbitrary eviction, and the V1/V2 response conversion).
Binding (B3): the real Task (verif hook constructor, fake TaskP2PService) is driven through Task::run with
inbound requests that went through the real codec; every response goes through the real codec before it is
logged; systematic and seeded random histories; TLC validates each trace against Trace_P2PServe."""
import json
import os
import sys
import vlib

sys.path.insert(0, os.path.join(vlib.VERIF, "tools"))
import obsall  # noqa: E402

TRACE = ("Trace_P2PServe", "Trace_P2PServe.cfg")
MAXH = 5


def key(lines, names):
    o = json.loads(lines[-1])
    return "%s :: %s kind=%s lo=%s hi=%s proto=%s len=%s max=%s sent=%s recv=%s" % (
        ",".join(sorted(set(names))), o.get("ev"), o.get("kind", o.get("n", "")), o.get("lo", ""), o.get("hi", ""),
        o.get("proto"), o.get("len"), o.get("max"), vlib.canon(o.get("sent")), vlib.canon(o.get("recv")))


def run(rep, tier, args):
    rep.assumptions += [
        "database = append-only generated chain (heights 0..5, distinct header and non-empty distinct transaction "
        "list per height) behind a harness P2pDb with the on-chain view's contract (whole range or None); "
        "fuel-core's own database adapter is not in the loop",
        "real Task built by the verif hook constructor (db and txpool lookups inline, as with 0 worker threads), "
        "driven through RunnableTask::run on a paused current-thread runtime; InboundRequestId forged from a u64",
        "model: heights 0..3, limits {1,3} x {1,2}; random histories: limits 0..8, cache capacity 1..64, "
        "codec size limit 40 B..1 MiB; the survival of arbitrary messages through the codec is exercised on all "
        "served and generated messages, not model-checked at byte level",
        "database/view errors, SyncProcessor capacity refusals and response timeouts not exercised"]
    mc = rep.model_check("MC_P2PServe", "MC_P2PServe.cfg" if tier == "quick" else "MC_P2PServe_thorough.cfg",
                         workers=8 if tier == "quick" else 12, coverage=(tier == "thorough"))
    if mc.violated:
        vlib.log("model violates %s; the implementation trace decides" % mc.violated)
    hbin = os.path.join(vlib.cargo_build("h-p2p"), "h-p2p")
    wd = vlib.workdir("C32")
    if args.replay:
        rep.judge_trace(*TRACE, args.replay, name="C32-replay", key_fn=key)
        return
    # systematic histories
    te = os.path.join(wd, "trace-enum.ndjson")
    vlib.run_harness(hbin, ["serve-enum", "--maxh", MAXH, "--out", te])
    # seeded random histories
    n = 300 if tier == "quick" else 5000
    tr = os.path.join(wd, "trace-random.ndjson")
    vlib.run_harness(hbin, ["serve-random", "--walks", n, "--len", 40, "--maxh", MAXH, "--out", tr])
    stats = {}
    for f in (te, tr):
        ws = vlib.split_trace(f)
        for w in ws:
            rep.count_case(w)
            for ln in w:
                o = json.loads(ln)
                if o["ev"] == "Request":
                    ok = o["sent"]["k"] == "ok"
                    stats["requests"] = stats.get("requests", 0) + 1
                    if ok and not o["dbq"] and o["sent"]["items"]:
                        stats["cache_hits"] = stats.get("cache_hits", 0) + 1
                    if ok and o["dbq"] and o["dbq"][0] > o["lo"]:
                        stats["cached_prefix_plus_db"] = stats.get("cached_prefix_plus_db", 0) + 1
                    if o["sent"]["code"] == "TooLarge":
                        stats["refused_over_limit"] = stats.get("refused_over_limit", 0) + 1
                if o.get("recv", {}).get("k") == "lost":
                    stats["over_size_limit"] = stats.get("over_size_limit", 0) + 1
        rep.add_sample({"history": ws[len(ws) // 2][:5]})
    rep.extra["case_stats"] = stats
    for need in ("cache_hits", "cached_prefix_plus_db", "refused_over_limit", "over_size_limit"):
        if not stats.get(need):
            raise vlib.ToolError("drivers never produced a %s case" % need)
    both = os.path.join(wd, "trace-all.ndjson")
    with open(both, "w") as f:
        f.write(open(te).read())
        f.write(open(tr).read())
    v = rep.judge_trace(*TRACE, both, name="C32-b3", key_fn=key, timeout=3000)
    if v.divergent and not v.violations:
        obsall.observe_all(rep, *TRACE, both, name="C32-b3", key_fn=key)
    selftest(rep, vlib.split_trace(tr))


def selftest(rep, walks):
    if rep.violations:
        return      # the check already fires; the recorded prefixes are not clean enough for a self-test
    """Not vacuous: a served item replaced by its neighbour must be judged ServedEqualsDatabase; a decoded
    message that differs from the sent one (within the size limit) must be judged CodecFaithful."""
    want = {"TServedEqualsDatabase": None, "TCodecFaithful": None}
    for w in walks:
        for i in range(1, len(w)):
            o = json.loads(w[i])
            if o["ev"] != "Request" or o["sent"]["k"] != "ok" or not o["sent"]["items"] or o["recv"]["k"] != "ok":
                continue
            if want["TServedEqualsDatabase"] is None:
                c = json.loads(w[i])
                c["sent"]["items"][-1] += 1
                c["recv"]["items"][-1] += 1
                want["TServedEqualsDatabase"] = list(w[:i]) + [json.dumps(c, separators=(",", ":"))]
            if want["TCodecFaithful"] is None:
                c = json.loads(w[i])
                c["recv"]["items"][0] = -2
                want["TCodecFaithful"] = list(w[:i]) + [json.dumps(c, separators=(",", ":"))]
        if all(want.values()):
            break
    for name, lines in want.items():
        if lines is None:
            raise vlib.ToolError("self-test: no served request in the random histories")
        p = os.path.join(vlib.WORK, "C32", "selftest-%s.ndjson" % name)
        open(p, "w").write("\n".join(lines) + "\n")
        # judged directly in observe mode (the implementation's recorded values decide)
        r = vlib.tlc(TRACE[0], TRACE[1], name="C32-selftest-" + name, workers=1, xss="1g", deque_queue=True,
                     env={"TRACE": p, "STRICT": "0"})
        if name not in r.violated:
            raise vlib.ToolError("self-test: corrupted trace was not judged a %s violation" % name)
    rep.extra["selftest"] = "corrupted served item -> ServedEqualsDatabase, corrupted decoded item -> CodecFaithful"
