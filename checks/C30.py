"""C30 — the producer advances the DA height to the largest fitting prefix.
MC: DaSelect.tla (select_new_da_height transcribed as Call / Step / Finish) satisfies LargestFittingPrefix and
WithinRange for every profile in the bound.  Binding (pure-function style, as C27): the harness enumerates the same
bounded domain, runs every case through the real Producer::produce_and_execute_block_transactions with logging
ports, and TLC compares every relayer-port call and the produced header's da_height with the transcription
(strict) and judges the property on the logged result (observe).  Plus seeded cases outside the domain."""
import json
import os
from concurrent.futures import ThreadPoolExecutor
import vlib


def key(lines, names):
    call = {}
    for ln in lines:
        if ln.startswith('{"ev":"Call"'):
            call = json.loads(ln)
    fin = json.loads(lines[-1])
    call.pop("ev", None)
    call.pop("unit", None)
    return "%s :: case=%s result=%s/%s" % (",".join(sorted(set(names))), vlib.canon(call), fin.get("res"), fin.get("da"))


def run(rep, tier, args):
    rep.assumptions += [
        "domain: up to 3 (thorough 4) DA blocks ahead x gas costs 0..3 x tx counts 0..2 x gas limits x tx limits x "
        "parent DA heights, plus finalized heights behind the parent; u64 saturation not reached",
        "the transaction-count limit is the code's constant u16::MAX - 1: an abstract count t under an abstract limit "
        "tl is served to the real code as t * (65534 / tl) (value map in the harness; exact boundary for tl = 1, 2)",
        "mock ports: relayer port = logging table, executor = producer's MockExecutorWithCapture, view = MockDb with "
        "the parent block; the judged value is the produced block header's da_height",
    ]
    suffix = "" if tier == "quick" else "_thorough"
    mc = rep.model_check("DaSelect", "MC_DaSelect%s.cfg" % suffix, workers=8, timeout=3000, coverage=(tier != "quick"))
    if mc.violated:
        vlib.log("model violates %s; the implementation trace decides" % mc.violated)
    hbin = os.path.join(vlib.cargo_build("h-relayer"), "h-relayer")
    wd = vlib.workdir("C30")
    cfg = "Trace_DaSelect.cfg"
    if args.replay:
        rep.judge_trace("Trace_DaSelect", cfg, args.replay, name="C30-replay", key_fn=key)
        return
    files = []
    if tier == "quick":
        parts = 4
        doms = [["--maxn", 3, "--prevs", "0,2", "--gls", "2,4", "--tls", "2,3"]]
    else:
        parts = 8
        doms = [["--maxn", 3, "--prevs", "0,1,3", "--gls", "0,2,3,5", "--tls", "1,2,3"],
                ["--maxn", 4, "--prevs", "1", "--gls", "3,5", "--tls", "2"]]
    for d, dom in enumerate(doms):
        for p in range(parts):
            f = os.path.join(wd, "enum-%d-%d.ndjson" % (d, p))
            vlib.run_harness(hbin, ["daselect", "--part", p, "--parts", parts, "--out", f] + dom)
            files.append(f)
    fr = os.path.join(wd, "random.ndjson")
    vlib.run_harness(hbin, ["daselect-random", "--cases", 400 if tier == "quick" else 20000, "--out", fr])
    files.append(fr)
    n = 0
    res = {}
    for f in files:
        call = None
        for line in open(f):
            if line.startswith('{"ev":"Call"'):
                call = line
                n += 1
            elif line.startswith('{"ev":"Finish"'):
                o = json.loads(line)
                res[o["res"]] = res.get(o["res"], 0) + 1
                if n % 3001 == 7:
                    rep.add_sample({"call": json.loads(call), "finish": o})
    rep.evaluations = n
    rep.extra["exhaustive"] = True
    rep.extra["cases"] = n
    rep.extra["results"] = res

    def one(i):
        return rep.judge_trace("Trace_DaSelect", cfg, files[i], name="C30-f%d" % i, key_fn=key, timeout=3000)

    with ThreadPoolExecutor(max_workers=min(len(files), 6)) as ex:
        list(ex.map(one, range(len(files))))
    if not rep.violations and not rep.divergences:
        for need in ("Ok", "Err:NoNew", "Err:Behind"):
            if not res.get(need):
                raise vlib.ToolError("no case with result %s" % need)
    rep.traces = n if not rep.violations and not rep.divergences else rep.traces
    rep.nontrivial = set(range(n))    # every enumerated case is distinct by construction
    if not rep.violations and not rep.divergences:
        selftest(rep, files[0], wd, cfg)


def selftest(rep, trace, wd, cfg):
    """The binding is not vacuous: lower one produced da_height; TLC must judge a violation."""
    reset, group, lines = None, [], None
    for ln in open(trace):
        ln = ln.rstrip("\n")
        if ln.startswith('{"ev":"reset"'):
            reset = ln
        elif ln.startswith('{"ev":"Call"'):
            group = [ln]
        else:
            group.append(ln)
            if ln.startswith('{"ev":"Finish"'):
                o = json.loads(ln)
                if o["res"] == "Ok" and o["da"] > 0:
                    o["da"] -= 1
                    group[-1] = json.dumps(o, separators=(",", ":"))
                    lines = [reset] + group
                    break
    if lines is None:
        raise vlib.ToolError("self-test: no Ok result to corrupt")
    p = os.path.join(wd, "selftest.ndjson")
    open(p, "w").write("\n".join(lines) + "\n")
    v = vlib.validate_trace("Trace_DaSelect", cfg, p, name="C30-selftest")
    if v.accepted or not v.violations:
        raise vlib.ToolError("self-test: a lowered da_height was not judged a violation")
    rep.extra["selftest"] = "lowered da_height rejected and judged a LargestFittingPrefix violation"
