"""C31 — peer slots and reputation are accounted correctly.
MC of PeerManager.tla (transcription of PeerManager + ConnectionState + ConnectionTracker), B1: every edge
of the reachable graph replayed on the real objects (quick: graph without Decay; thorough: whole graph),
B3: seeded random histories over all peers; all judged by TLC through Trace_PeerManager."""
import json
import os
import sys
import vlib

sys.path.insert(0, os.path.join(vlib.VERIF, "tools"))
import fastwalks  # noqa: E402
import obsall  # noqa: E402

TRACE = ("Trace_PeerManager", "Trace_PeerManager.cfg")
SCALE = 10          # 10^MaxDecay of the cfgs


def key(lines, names):
    """canonical key of a violation: violated names + the last two events without the score table"""
    evs = []
    for ln in lines[1:][-2:]:
        o = json.loads(ln)
        st = o.get("st", {})
        evs.append("%s(%s)->%s nonres=%d flag=%s admits=%d" % (
            o.get("ev"), o.get("p", o.get("limit", "")), o.get("res", ""), len(st.get("nonres", [])),
            st.get("flag"), len(st.get("admits", []))))
    return "%s :: %s" % (",".join(sorted(set(names))), " ; ".join(evs))


def run(rep, tier, args):
    rep.assumptions += [
        "2 reserved + 4 other peers, limits 0..3; Score/Gossip reports on o1 and r1 only in the exhaustive "
        "model (all peers in the random histories); app-score deltas {+150,-60} (model) / {150,-60,40,-5,-30,7} "
        "(random); at most one Decay per history so that f64 scores are exact multiples of 0.1",
        "reserved-nodes-only mode (tracker without ConnectionState) not explored",
        "ConnectionTracker observed through the verif wrapper VerifConnectionTracker::allow_peer; ConnectionState "
        "through the public SeqLock reader; peer tables through PeerManager::get_peer_info / total_peers_connected"]
    mc = rep.model_check("MC_PeerManager", "MC_PeerManager.cfg" if tier == "quick" else "MC_PeerManager_thorough.cfg",
                         workers=8 if tier == "quick" else 12, coverage=(tier == "thorough"))
    if mc.violated:
        vlib.log("model violates %s; the implementation trace decides" % mc.violated)
    hbin = os.path.join(vlib.cargo_build("h-p2p"), "h-p2p")
    wd = vlib.workdir("C31")
    if args.replay:
        rep.judge_trace(*TRACE, args.replay, name="C31-replay", key_fn=key)
        return
    # B1: edge cover of the reachable graph, replayed on the real PeerManager
    ecfg = "Edges_PeerManager_quick.cfg" if tier == "quick" else "Edges_PeerManager.cfg"
    er = vlib.require_clean(vlib.tlc("MC_PeerManager", ecfg, workers=1, timeout=1500), "edges")
    edges = er.printed("EDGE")
    if not edges:
        raise vlib.ToolError("no edges emitted")
    walks = fastwalks.edge_walks(edges)
    wp = os.path.join(wd, "walks.ndjson")
    vlib.write_walks(wp, walks)
    tp = os.path.join(wd, "trace-b1.ndjson")
    vlib.run_harness(hbin, ["pm-run", "--walks", wp, "--out", tp, "--scale", SCALE])
    rep.extra["edges"] = len(edges)
    rep.extra["edge_walks"] = len(walks)
    rep.extra["exhaustive"] = True
    rep.add_sample({"walk": walks[len(walks) // 2][:10]})
    for w in walks:
        rep.count_case(w)
    v = rep.judge_trace(*TRACE, tp, name="C31-b1", key_fn=key, timeout=3000)
    if v.divergent and not v.violations:
        obsall.observe_all(rep, *TRACE, tp, name="C31-b1", key_fn=key)
    # B3: random histories (all peers scored, more deltas, churn around the limit)
    n = 400 if tier == "quick" else 6000
    tp3 = os.path.join(wd, "trace-b3.ndjson")
    vlib.run_harness(hbin, ["pm-random", "--walks", n, "--len", 60, "--scale", SCALE, "--maxdecay", 1, "--out", tp3])
    w3 = vlib.split_trace(tp3)
    for w in w3:
        rep.count_case(w)
    rep.add_sample({"random_history": w3[0][:6]})
    v = rep.judge_trace(*TRACE, tp3, name="C31-b3", key_fn=key, timeout=3000)
    if v.divergent and not v.violations:
        obsall.observe_all(rep, *TRACE, tp3, name="C31-b3", key_fn=key)
    selftest(rep, w3)


def selftest(rep, walks):
    if rep.violations:
        return      # the check already fires; the recorded prefixes are not clean enough for a self-test
    """The binding is not vacuous: (1) flip the logged flag after a Disconnect that frees a slot -> must be judged
    an AdmittedIffSlotFree violation; (2) log a ban of a reserved peer -> ReservedAlwaysAdmittedNeverBanned."""
    done = 0
    for w in walks:
        w = list(w)
        for i in range(1, len(w)):
            o = json.loads(w[i])
            if o["ev"] == "Disconnect" and o["st"]["flag"] and o["p"].startswith("o"):
                o["st"]["flag"] = False
                o["st"]["admits"] = ["r1", "r2"]
                bad = w[:i] + [json.dumps(o, separators=(",", ":"))]
                p = os.path.join(vlib.WORK, "C31", "selftest-flag.ndjson")
                open(p, "w").write("\n".join(bad) + "\n")
                v = vlib.validate_trace(*TRACE, p, name="C31-selftest-flag")
                if v.accepted or not v.violations:
                    raise vlib.ToolError("self-test: corrupted flag was not judged a violation")
                done += 1
                break
        if done:
            break
    for w in walks:
        w = list(w)
        for i in range(1, len(w)):
            o = json.loads(w[i])
            if o["ev"] == "Gossip" and o["p"].startswith("r"):
                o["bans"] = [o["p"]]
                bad = w[:i] + [json.dumps(o, separators=(",", ":"))]
                p = os.path.join(vlib.WORK, "C31", "selftest-ban.ndjson")
                open(p, "w").write("\n".join(bad) + "\n")
                v = vlib.validate_trace(*TRACE, p, name="C31-selftest-ban")
                if v.accepted or not v.violations:
                    raise vlib.ToolError("self-test: ban of a reserved peer was not judged a violation")
                done += 1
                break
        if done >= 2:
            break
    if done < 2:
        raise vlib.ToolError("self-test: no suitable event found in the random histories")
    rep.extra["selftest"] = "corrupted flag and reserved-peer ban both judged violations"
