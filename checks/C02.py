"""C02 — Executed blocks conserve UTXOs and report exact coin and message events.
Exec.tla invariants: SpentExisted, SpentOnce (ghost set of everything ever spent), CreatedFresh (non-zero, fresh id), EventsAreDiff (Coins/Messages tables read back after commit = parent tables minus consumed plus created, record by record), CoinsAsSpec, EventsAsSpec.
MC of MC_Exec, B2: Sim_Exec behaviours executed by the real executor, B3: seeded driver; all judged by TLC through
Trace_Exec (tools/exec_common.py holds the shared pipeline)."""
import exec_common


def run(rep, tier, args):
    exec_common.run(rep, tier, args, "C02")
