//! Harness for fuel-core-services: C41 (ServiceRunner lifecycle) and C42 (SeqLock).
//! Action interpreter + state projector + logger only; TLC judges the traces.
mod seqlock;
mod service;

use h_common::*;

fn main() {
    // panics of the code under test are data; keep stderr quiet
    std::panic::set_hook(Box::new(|_| {}));
    let args = Args::parse();
    match args.mode.as_str() {
        "service" => service::run_walks(&args),
        "service-random" => service::random(&args),
        "seqlock" => seqlock::run_walks(&args),
        "seqlock-random" => seqlock::random(&args),
        other => die(&format!("unknown mode {other}")),
    }
}
