//! C41: the real `ServiceRunner` driving a scripted `RunnableService` / `RunnableTask`.
//!
//! * The runner task lives on a `current_thread` tokio runtime that only runs when the harness
//!   drains it (`Wake`, and after a gate is released by `TaskInit` / `Run` / `Shutdown`).
//! * The three functions of the scripted task wait on gates (mpsc channels) that the harness
//!   releases with an outcome; an `aware` function additionally watches the `StateWatcher`
//!   through the crate's own helpers (`wait_stopping_or_stopped`, `while_started`).
//! * `await_stop()` futures are owned and polled by the harness (noop waker), one per client.
//! * After every action the harness logs the projection: `ServiceRunner::state()`, where the
//!   scripted task currently is (its own marker), how often each task function was entered and
//!   what each client's await returned.  Nothing is asserted here.

use fuel_core_services::{
    EmptyShared, RunnableService, RunnableTask, Service, ServiceRunner, State, StateWatcher,
    TaskNextAction,
};
use h_common::*;
use serde_json::Value;
use std::{
    future::Future,
    pin::Pin,
    sync::{
        atomic::{AtomicBool, AtomicU8, AtomicUsize, Ordering::SeqCst},
        Arc,
    },
    task::{Context, Poll, Waker},
};
use tokio::sync::mpsc::{unbounded_channel, UnboundedReceiver, UnboundedSender};

const IDLE: u8 = 0;
const INIT: u8 = 1;
const RUN: u8 = 2;
const SHUT: u8 = 3;
const OUT: u8 = 4;

#[derive(Default)]
struct Ctl {
    ent_init: AtomicUsize,
    ent_run: AtomicUsize,
    ent_shut: AtomicUsize,
    marker: AtomicU8,
    watch_err: AtomicBool,
}

/// Sets the marker while a task function is being executed (also when it panics).
struct Mark(Arc<Ctl>);
impl Mark {
    fn enter(ctl: &Arc<Ctl>, m: u8) -> Mark {
        ctl.marker.store(m, SeqCst);
        Mark(ctl.clone())
    }
}
impl Drop for Mark {
    fn drop(&mut self) {
        self.0.marker.store(OUT, SeqCst);
    }
}

#[derive(Clone, Copy, Debug, PartialEq)]
enum Out {
    Ok,
    Err,
    Panic,
    Cont,
    Stop,
}

fn out_of(s: &str) -> Out {
    match s {
        "ok" => Out::Ok,
        "err" => Out::Err,
        "panic" => Out::Panic,
        "cont" => Out::Cont,
        "stop" => Out::Stop,
        o => die(&format!("unknown outcome {o}")),
    }
}

async fn gate(rx: &mut UnboundedReceiver<Out>) -> Out {
    match rx.recv().await {
        Some(o) => o,
        None => std::future::pending().await,
    }
}

struct Svc {
    ctl: Arc<Ctl>,
    init_aware: bool,
    run_aware: bool,
    init_rx: UnboundedReceiver<Out>,
    run_rx: UnboundedReceiver<Out>,
    shut_rx: UnboundedReceiver<Out>,
}

struct Tsk {
    ctl: Arc<Ctl>,
    run_aware: bool,
    run_rx: UnboundedReceiver<Out>,
    shut_rx: UnboundedReceiver<Out>,
}

#[async_trait::async_trait]
impl RunnableService for Svc {
    const NAME: &'static str = "VerifScripted";
    type SharedData = EmptyShared;
    type Task = Tsk;
    type TaskParams = ();

    fn shared_data(&self) -> EmptyShared {
        EmptyShared
    }

    async fn into_task(mut self, watcher: &StateWatcher, _: ()) -> anyhow::Result<Tsk> {
        self.ctl.ent_init.fetch_add(1, SeqCst);
        let _m = Mark::enter(&self.ctl, INIT);
        let o = if self.init_aware {
            // the pattern of fuel-core's FuelService / shared-sequencer `into_task`
            let mut w = watcher.clone();
            tokio::select! {
                biased;
                r = w.wait_stopping_or_stopped() => {
                    if r.is_err() {
                        self.ctl.watch_err.store(true, SeqCst);
                    }
                    Out::Stop
                }
                o = gate(&mut self.init_rx) => o,
            }
        } else {
            gate(&mut self.init_rx).await
        };
        match o {
            Out::Ok => Ok(Tsk {
                ctl: self.ctl.clone(),
                run_aware: self.run_aware,
                run_rx: self.run_rx,
                shut_rx: self.shut_rx,
            }),
            Out::Stop => Err(anyhow::anyhow!("stop requested during initialization")),
            Out::Panic => panic!("scripted init panic"),
            _ => Err(anyhow::anyhow!("scripted init error")),
        }
    }
}

impl RunnableTask for Tsk {
    async fn run(&mut self, watcher: &mut StateWatcher) -> TaskNextAction {
        self.ctl.ent_run.fetch_add(1, SeqCst);
        let _m = Mark::enter(&self.ctl, RUN);
        let o = if self.run_aware {
            // the pattern of the crate's own tests and of most fuel-core tasks
            tokio::select! {
                biased;
                r = watcher.while_started() => {
                    if r.is_err() {
                        self.ctl.watch_err.store(true, SeqCst);
                    }
                    Out::Stop
                }
                o = gate(&mut self.run_rx) => o,
            }
        } else {
            gate(&mut self.run_rx).await
        };
        match o {
            Out::Cont | Out::Ok => TaskNextAction::Continue,
            Out::Stop => TaskNextAction::Stop,
            Out::Err => TaskNextAction::ErrorContinue(anyhow::anyhow!("scripted run error")),
            Out::Panic => panic!("scripted run panic"),
        }
    }

    async fn shutdown(mut self) -> anyhow::Result<()> {
        self.ctl.ent_shut.fetch_add(1, SeqCst);
        let _m = Mark::enter(&self.ctl, SHUT);
        match gate(&mut self.shut_rx).await {
            Out::Panic => panic!("scripted shutdown panic"),
            Out::Err => Err(anyhow::anyhow!("scripted shutdown error")),
            _ => Ok(()),
        }
    }
}

type AwaitFut = Pin<Box<dyn Future<Output = anyhow::Result<State>>>>;

enum Aw {
    None,
    Pending(AwaitFut),
    Ret(String),
}

fn state_name(s: &State) -> &'static str {
    match s {
        State::NotStarted => "NotStarted",
        State::Starting => "Starting",
        State::Started => "Started",
        State::Stopping => "Stopping",
        State::Stopped => "Stopped",
        State::StoppedWithError(_) => "StoppedWithError",
    }
}

struct World {
    // field order = drop order: futures, the runner handle, then the runtime with the runner task
    aw: Vec<Aw>,
    svc: Arc<ServiceRunner<Svc>>,
    rt: tokio::runtime::Runtime,
    ctl: Arc<Ctl>,
    init_tx: UnboundedSender<Out>,
    run_tx: UnboundedSender<Out>,
    shut_tx: UnboundedSender<Out>,
    init_aware: bool,
    run_aware: bool,
    stop_requested: bool,
}

impl World {
    fn new(init_aware: bool, run_aware: bool, nc: usize) -> World {
        let rt = tokio::runtime::Builder::new_current_thread()
            .build()
            .unwrap_or_else(|e| die(&format!("runtime: {e}")));
        let ctl = Arc::new(Ctl::default());
        let (init_tx, init_rx) = unbounded_channel();
        let (run_tx, run_rx) = unbounded_channel();
        let (shut_tx, shut_rx) = unbounded_channel();
        let svc = {
            let _g = rt.enter();
            Arc::new(ServiceRunner::new(Svc {
                ctl: ctl.clone(),
                init_aware,
                run_aware,
                init_rx,
                run_rx,
                shut_rx,
            }))
        };
        World {
            aw: (0..nc).map(|_| Aw::None).collect(),
            svc,
            rt,
            ctl,
            init_tx,
            run_tx,
            shut_tx,
            init_aware,
            run_aware,
            stop_requested: false,
        }
    }

    /// Let the runtime run until nothing is ready any more (the only task on it is the runner).
    fn drain(&self) -> Option<String> {
        guarded(|| {
            self.rt.block_on(async {
                for _ in 0..24 {
                    tokio::task::yield_now().await;
                }
            })
        })
        .err()
    }

    fn marker(&self) -> u8 {
        self.ctl.marker.load(SeqCst)
    }

    fn state(&self) -> State {
        self.svc.state()
    }

    fn poll_await(&mut self, c: usize) {
        let slot = std::mem::replace(&mut self.aw[c], Aw::None);
        let mut fut: AwaitFut = match slot {
            Aw::None => {
                let s = self.svc.clone();
                Box::pin(async move { s.await_stop().await })
            }
            Aw::Pending(f) => f,
            Aw::Ret(r) => {
                self.aw[c] = Aw::Ret(r);
                return;
            }
        };
        let mut cx = Context::from_waker(Waker::noop());
        let r = guarded(|| fut.as_mut().poll(&mut cx));
        self.aw[c] = match r {
            Ok(Poll::Pending) => Aw::Pending(fut),
            Ok(Poll::Ready(Ok(s))) => Aw::Ret(state_name(&s).to_string()),
            Ok(Poll::Ready(Err(e))) => Aw::Ret(format!("Err:{e}")),
            Err(p) => Aw::Ret(format!("Panic:{p}")),
        };
    }

    fn project(&self) -> Value {
        let s = self.state();
        let m = self.marker();
        let ph = match m {
            INIT => "Init",
            RUN => "Run",
            SHUT => "Shut",
            _ if s.stopped() => "Done",
            IDLE => "Idle",
            _ => "Lost",
        };
        let msg = match &s {
            State::StoppedWithError(m) => m.clone(),
            _ => String::new(),
        };
        let aw: Vec<Value> = self
            .aw
            .iter()
            .map(|a| match a {
                Aw::None => json!("none"),
                Aw::Pending(_) => json!("pending"),
                Aw::Ret(r) => json!(r),
            })
            .collect();
        json!({
            "st": state_name(&s),
            "ph": ph,
            "ent": {"init": self.ctl.ent_init.load(SeqCst), "run": self.ctl.ent_run.load(SeqCst),
                    "shut": self.ctl.ent_shut.load(SeqCst)},
            "aw": aw,
            "msg": msg,
            "werr": self.ctl.watch_err.load(SeqCst),
        })
    }
}

fn kind(aware: bool) -> &'static str {
    if aware { "aware" } else { "gate" }
}

fn log(t: &mut Trace, w: &World, ev: &str, mut fields: Value) {
    let p = w.project();
    if let (Value::Object(f), Value::Object(p)) = (&mut fields, p) {
        for (k, v) in p {
            f.insert(k, v);
        }
    }
    t.event(ev, fields);
}

/// Executes one action on the world and logs it.  `End` is logged by the caller.
fn exec(t: &mut Trace, w: &mut World, name: &str, o: &str, c: usize) {
    match name {
        "Start" => {
            let r = guarded(|| w.svc.start().is_ok());
            log(t, w, "Start", json!({"res": r.unwrap_or(false)}));
        }
        "Stop" => {
            let r = guarded(|| w.svc.stop());
            w.stop_requested = true;
            log(t, w, "Stop", json!({"res": r.unwrap_or(false)}));
        }
        "Wake" => {
            let p = w.drain();
            log(t, w, "Wake", json!({"panic": p.unwrap_or_default()}));
        }
        "TaskInit" => {
            let _ = w.init_tx.send(out_of(o));
            let p = w.drain();
            log(t, w, "TaskInit", json!({"o": o, "panic": p.unwrap_or_default()}));
        }
        "Run" => {
            let _ = w.run_tx.send(out_of(o));
            let p = w.drain();
            log(t, w, "Run", json!({"o": o, "panic": p.unwrap_or_default()}));
        }
        "Shutdown" => {
            let _ = w.shut_tx.send(out_of(o));
            let p = w.drain();
            log(t, w, "Shutdown", json!({"o": o, "panic": p.unwrap_or_default()}));
        }
        "AwaitBegin" | "AwaitPoll" => {
            w.poll_await(c - 1);
            log(t, w, name, json!({"c": c}));
        }
        other => die(&format!("unknown action {other}")),
    }
}

/// The "fair suffix": stop is requested (if it was not), the runtime polls the runner, the gates whose
/// release is assumed to happen eventually are released with benign outcomes, pending awaits are
/// polled -- for a bounded number of rounds.  All of it is logged as ordinary actions, then `End`.
fn fair_suffix(t: &mut Trace, w: &mut World) {
    if matches!(w.aw[0], Aw::None) {
        exec(t, w, "AwaitBegin", "", 1);
    }
    if !w.stop_requested {
        exec(t, w, "Stop", "", 0);
    }
    let mut before = String::new();
    for _ in 0..8 {
        // a whole round without any change: nothing assumed fair can make progress any more
        let now = w.project().to_string();
        if now == before {
            break;
        }
        before = now;
        exec(t, w, "Wake", "", 0);
        match w.marker() {
            INIT if !w.init_aware => exec(t, w, "TaskInit", "ok", 0),
            RUN if !w.run_aware => exec(t, w, "Run", "cont", 0),
            SHUT => exec(t, w, "Shutdown", "ok", 0),
            _ => {}
        }
        for c in 0..w.aw.len() {
            if matches!(w.aw[c], Aw::Pending(_)) {
                exec(t, w, "AwaitPoll", "", c + 1);
            }
        }
        let pending = w.aw.iter().any(|a| matches!(a, Aw::Pending(_)));
        if w.state().stopped() && !pending {
            break;
        }
    }
    log(t, w, "End", json!({}));
}

pub fn run_walks(args: &Args) {
    let walks = read_walks(args.req("walks"));
    let nc = args.num("nc", 2) as usize;
    let mut t = Trace::create(args.req("out"));
    for wk in walks {
        t.reset(wk.id, json!({}));
        let mut w: Option<World> = None;
        let mut ended = false;
        for s in &wk.steps {
            match s.name() {
                "New" => {
                    let (i, r) = (s.str_("init") == "aware", s.str_("run") == "aware");
                    let nw = World::new(i, r, nc);
                    log(&mut t, &nw, "New", json!({"init": kind(i), "run": kind(r)}));
                    w = Some(nw);
                }
                "End" => {
                    let x = w.as_ref().unwrap_or_else(|| die("End before New"));
                    log(&mut t, x, "End", json!({}));
                    ended = true;
                }
                name => {
                    let x = w.as_mut().unwrap_or_else(|| die("action before New"));
                    let o = s.get("o").and_then(|v| v.as_str()).unwrap_or("");
                    let c = s.get("c").and_then(|v| v.as_u64()).unwrap_or(0) as usize;
                    exec(&mut t, x, name, o, c);
                }
            }
        }
        if let (Some(x), false) = (w.as_mut(), ended) {
            fair_suffix(&mut t, x);
        }
    }
    t.finish();
}

/// Seeded random histories (I->S): random client calls, polls and task outcomes, then the fair suffix.
pub fn random(args: &Args) {
    let n = args.num("walks", 200);
    let len = args.num("len", 14);
    let nc = args.num("nc", 2) as usize;
    let max_run = args.num("maxrun", 2) as usize;
    let mut rng = Rng::new(env_seed() ^ 0xC41 ^ (args.num("salt", 0) << 24));
    let mut t = Trace::create(args.req("out"));
    for id in 0..n {
        t.reset(id as i64, json!({}));
        let (i, r) = (rng.chance(1, 2), rng.chance(1, 2));
        let mut w = World::new(i, r, nc);
        log(&mut t, &w, "New", json!({"init": kind(i), "run": kind(r)}));
        // how eager this history's clients are to stop
        let stop_w = *rng.pick(&[0u64, 1, 1, 3]);
        for _ in 0..len {
            let mut cands: Vec<(&str, &str, usize)> = vec![("Start", "", 0), ("Wake", "", 0), ("Wake", "", 0)];
            for _ in 0..stop_w {
                cands.push(("Stop", "", 0));
            }
            for c in 0..nc {
                match w.aw[c] {
                    Aw::None => cands.push(("AwaitBegin", "", c + 1)),
                    Aw::Pending(_) => cands.push(("AwaitPoll", "", c + 1)),
                    Aw::Ret(_) => {}
                }
            }
            match w.marker() {
                INIT => {
                    for o in ["ok", "ok", "err", "panic"] {
                        cands.push(("TaskInit", o, 0));
                    }
                }
                RUN => {
                    let may_loop = !(w.state().started()
                        && w.ctl.ent_run.load(SeqCst) >= max_run);
                    for o in ["cont", "cont", "err", "stop", "panic"] {
                        if may_loop || o == "stop" || o == "panic" {
                            cands.push(("Run", o, 0));
                        }
                    }
                }
                SHUT => {
                    for o in ["ok", "ok", "err", "panic"] {
                        cands.push(("Shutdown", o, 0));
                    }
                }
                _ => {}
            }
            let (a, o, c) = *rng.pick(&cands);
            exec(&mut t, &mut w, a, o, c);
        }
        fair_suffix(&mut t, &mut w);
    }
    t.finish();
}
