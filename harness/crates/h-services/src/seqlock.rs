//! C42: the real `SeqLock` under a controlled schedule.
//!
//! One OS thread per role (thread 0 = the writer, 1.. = readers).  Every role thread parks at each
//! guarded yield point (`fuel_core_services::verif::yield_point`, compiled into `write`/`read` by the
//! `verif` feature, plus two of the harness's own: `r_call` before a `read()` call and `w_f2` between
//! the two field stores of the write closure).  The controlling thread releases exactly one parked
//! thread for exactly one step, waits until it is parked again (or finished), then logs the step's tag
//! and the projection: raw sequence counter and data (`verif_peek`), where every thread is parked, the
//! number of `write()` calls that returned and what each reader's `read()` calls returned.
//! OS scheduling never orders anything: at most one role thread is runnable at any time.

use fuel_core_services::{verif, SeqLock};
use h_common::*;
use serde_json::Value;
use std::{
    cell::RefCell,
    sync::{
        atomic::{AtomicUsize, Ordering::SeqCst},
        Arc, Mutex, Once,
    },
};

#[derive(Clone, Copy, Debug)]
struct Pair {
    a: u64,
    b: u64,
}

struct St {
    wdone: u64,
    rets: Vec<Vec<(u64, u64)>>,
}

/// Tags are stored in atomics as 1-based indices into this table (0 = the thread is running).
const TAGS: [&str; 9] =
    ["w_inc1", "w_data", "w_f2", "w_inc2", "r_call", "r_load1", "r_data", "r_load2", "done"];
const DONE: usize = 9;

fn tag_id(tag: &str) -> usize {
    match TAGS.iter().position(|t| *t == tag) {
        Some(i) => i + 1,
        None => die(&format!("unknown yield point tag {tag}")),
    }
}

/// Hand-over-hand scheduling: `at[i]` is where role thread i is parked (0 while it runs), `go` is the
/// thread released by the controller (i + 1, 0 = nobody).  Waiting is spin + yield: a step is a few
/// instructions, and futex wake-up latency on a loaded machine would dominate everything else.
struct Sched {
    at: Vec<AtomicUsize>,
    go: AtomicUsize,
    /// set when a walk is abandoned (a thread does not terminate): its threads sleep forever
    abandoned: AtomicUsize,
    m: Mutex<St>,
}

fn wait_until(cond: impl Fn() -> bool) {
    let mut n = 0u32;
    while !cond() {
        n = n.wrapping_add(1);
        if n % 128 == 0 {
            std::thread::yield_now();
        } else {
            std::hint::spin_loop();
        }
    }
}

thread_local! {
    static ROLE: RefCell<Option<(usize, Arc<Sched>)>> = const { RefCell::new(None) };
}

impl Sched {
    fn lock(&self) -> std::sync::MutexGuard<'_, St> {
        self.m.lock().unwrap_or_else(|e| e.into_inner())
    }

    /// Called on a role thread at a yield point: park until the controller releases this thread.
    fn park(&self, i: usize, tag: &'static str) {
        self.at[i].store(tag_id(tag), SeqCst);
        wait_until(|| self.go.load(SeqCst) == i + 1 || self.abandoned.load(SeqCst) != 0);
        while self.abandoned.load(SeqCst) != 0 {
            std::thread::sleep(std::time::Duration::from_secs(3600));
        }
        self.go.store(0, SeqCst);
    }

    fn finish(&self, i: usize) {
        self.at[i].store(DONE, SeqCst);
    }

    /// Controller: wait until every role thread is parked.
    fn wait_all_parked(&self) {
        wait_until(|| self.at.iter().all(|a| a.load(SeqCst) != 0));
    }

    fn parked(&self, i: usize) -> &'static str {
        match self.at[i].load(SeqCst) {
            0 => "running",
            k => TAGS[k - 1],
        }
    }

    /// Controller: release thread `i` for one step; returns the tag of the step it performed.
    fn step(&self, i: usize) -> Option<&'static str> {
        let k = self.at[i].load(SeqCst);
        if k == 0 || k == DONE {
            return None;
        }
        self.at[i].store(0, SeqCst);
        self.go.store(i + 1, SeqCst);
        wait_until(|| self.at[i].load(SeqCst) != 0);
        Some(TAGS[k - 1])
    }
}

fn install() {
    static ONCE: Once = Once::new();
    ONCE.call_once(|| {
        verif::install_scheduler(Arc::new(|tag| {
            let me = ROLE.with(|r| r.borrow().clone());
            if let Some((i, s)) = me {
                s.park(i, tag);
            }
        }));
    });
}

struct World {
    sched: Arc<Sched>,
    peek: fuel_core_services::SeqLockReader<Pair>,
    threads: Vec<std::thread::JoinHandle<()>>,
    n: usize,
}

impl World {
    fn new(nw: u64, nrd: usize, nreads: u64) -> World {
        install();
        let n = nrd + 1;
        let sched = Arc::new(Sched {
            at: (0..n).map(|_| AtomicUsize::new(0)).collect(),
            go: AtomicUsize::new(0),
            abandoned: AtomicUsize::new(0),
            m: Mutex::new(St { wdone: 0, rets: vec![vec![]; n] }),
        });
        let (writer, reader) = unsafe { SeqLock::new(Pair { a: 0, b: 0 }) };
        let mut threads = Vec::new();
        {
            let s = sched.clone();
            threads.push(std::thread::spawn(move || {
                ROLE.with(|r| *r.borrow_mut() = Some((0, s.clone())));
                for k in 1..=nw {
                    writer.write(move |d: &mut Pair| {
                        // field 1, then (after a yield point) field 2
                        unsafe { std::ptr::write_volatile(&mut d.a, k) };
                        verif::yield_point("w_f2");
                        unsafe { std::ptr::write_volatile(&mut d.b, k) };
                    });
                    s.lock().wdone += 1;
                }
                ROLE.with(|r| *r.borrow_mut() = None);
                s.finish(0);
            }));
        }
        for i in 1..n {
            let s = sched.clone();
            let rd = reader.clone();
            threads.push(std::thread::spawn(move || {
                ROLE.with(|r| *r.borrow_mut() = Some((i, s.clone())));
                for _ in 0..nreads {
                    verif::yield_point("r_call");
                    let v = rd.read();
                    s.lock().rets[i].push((v.a, v.b));
                }
                ROLE.with(|r| *r.borrow_mut() = None);
                s.finish(i);
            }));
        }
        sched.wait_all_parked();
        World { sched, peek: reader, threads, n }
    }

    fn project(&self) -> Value {
        // every role thread is parked here, so the raw peek races with nothing
        let (seq, d) = self.peek.verif_peek();
        let at: Vec<&str> = (0..self.n).map(|i| self.sched.parked(i)).collect();
        let g = self.sched.lock();
        let ret: Vec<Value> = (1..self.n)
            .map(|i| {
                let (a, b) = g.rets[i].last().copied().unwrap_or((0, 0));
                json!({"v": [a, b], "n": g.rets[i].len()})
            })
            .collect();
        json!({"seq": seq, "d": [d.a, d.b], "at": at, "wdone": g.wdone, "ret": ret})
    }

    fn step(&self, t: &mut Trace, i: usize) -> bool {
        match self.sched.step(i) {
            Some(tag) => {
                let mut p = self.project();
                let o = p.as_object_mut().unwrap();
                o.insert("t".into(), json!(i));
                o.insert("tag".into(), json!(tag));
                t.event("Step", p);
                true
            }
            None => false,
        }
    }

    fn done(&self, i: usize) -> bool {
        self.sched.parked(i) == "done"
    }

    /// Run every thread to completion (writer first, so that no reader spins on an odd sequence),
    /// logging the steps like any others, and join.  A thread that does not terminate within a generous
    /// number of steps is data, not a harness error: the walk is abandoned (its threads are left asleep)
    /// and the trace of the walk ends there.
    fn finish(self, t: &mut Trace) {
        for i in 0..self.n {
            let mut guard = 0;
            while !self.done(i) {
                self.step(t, i);
                guard += 1;
                if guard > 200 {
                    self.sched.abandoned.store(1, SeqCst);
                    return;
                }
            }
        }
        for h in self.threads {
            let _ = h.join();
        }
    }
}

fn dims(args: &Args) -> (u64, usize, u64) {
    (args.num("nw", 2), args.num("nrd", 2) as usize, args.num("nreads", 1))
}

pub fn run_walks(args: &Args) {
    let walks = read_walks(args.req("walks"));
    let (nw, nrd, nreads) = dims(args);
    let mut t = Trace::create(args.req("out"));
    for wk in walks {
        t.reset(wk.id, json!({}));
        let w = World::new(nw, nrd, nreads);
        for s in &wk.steps {
            // a schedule step for a thread that has already finished (the code left the path the
            // schedule was generated for) is skipped; the trace shows where the paths parted
            let i = s.int("t") as usize;
            w.step(&mut t, i);
        }
        w.finish(&mut t);
    }
    t.finish();
}

/// Seeded random schedules: at every point release a random unfinished thread.
pub fn random(args: &Args) {
    let n = args.num("walks", 300);
    let (nw, nrd, nreads) = dims(args);
    let mut rng = Rng::new(env_seed() ^ 0xC42);
    let mut t = Trace::create(args.req("out"));
    for id in 0..n {
        t.reset(id as i64, json!({}));
        let w = World::new(nw, nrd, nreads);
        // per-schedule bias: how often the writer is preferred (bursty and fair schedules alike)
        let wbias = rng.below(4);
        for _ in 0..400 {
            let live: Vec<usize> = (0..w.n).filter(|&i| !w.done(i)).collect();
            if live.is_empty() {
                break;
            }
            let mut i = *rng.pick(&live);
            if wbias > 0 && !w.done(0) && rng.below(4) < wbias {
                i = 0;
            }
            w.step(&mut t, i);
        }
        w.finish(&mut t);
    }
    t.finish();
}
