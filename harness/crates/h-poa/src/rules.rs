//! C15 — the real block verifier on real blocks: a valid sealed block at height 5 on a fixed parent chain,
//! and single-field mutations of it (optionally repaired by the adversary: transaction root/count, application
//! hash, re-signing with the adversary's key or - a faulty authority - with the right key).  Each block passes through a serde round trip, as a block
//! received from the wire does (no cached block id).  Logged per step: the verdicts of
//! `Verifier::verify_block_fields`, `Verifier::verify_consensus`, `Block::try_from_executed`, whether the block
//! id changed and whether the block / verifier configuration is still the valid one.  Nothing is asserted.
use fuel_core_chain_config::{ConsensusConfig, PoAV2};
use fuel_core_consensus_module::block_verifier::{Verifier, config::Config};
use fuel_core_poa::ports::Database;
use fuel_core_storage::{Result as StorageResult, not_found, transactional::AtomicView};
use fuel_core_types::{
    blockchain::{
        SealedBlock, SealedBlockHeader,
        block::Block,
        consensus::{Consensus, Genesis, poa::PoAConsensus},
        header::{BlockHeader, PartialBlockHeader, generate_txns_root},
    },
    fuel_crypto::{SecretKey, Signature},
    fuel_tx::{
        Address, Input, Transaction, TxPointer,
        field::{MintAmount, ScriptData},
        policies::Policies,
    },
    fuel_types::{BlockHeight, Bytes32},
    tai64::Tai64,
};
use h_common::*;
use serde_json::Value;
use std::{collections::BTreeMap, sync::Arc};

const CHAIN_TOP: u32 = 4;
fn root_at(h: u32) -> Bytes32 {
    Bytes32::new([h as u8 + 1; 32])
}
fn da_at(h: u32) -> u64 {
    if h == 0 { 0 } else { h as u64 - 1 }
}
fn time_at(h: u32) -> u64 {
    16 + h as u64
}

struct Chain {
    headers: Vec<BlockHeader>,
}
#[derive(Clone)]
struct View(Arc<Chain>);
impl Database for View {
    fn block_header(&self, height: &BlockHeight) -> StorageResult<BlockHeader> {
        self.0.headers.get(u32::from(*height) as usize).cloned().ok_or(not_found!("FuelBlocks"))
    }
    fn block_header_merkle_root(&self, height: &BlockHeight) -> StorageResult<Bytes32> {
        let h = u32::from(*height);
        if h <= CHAIN_TOP { Ok(root_at(h)) } else { Err(not_found!("FuelBlockMerkleMetadata")) }
    }
}
impl AtomicView for View {
    type LatestView = View;
    fn latest_view(&self) -> StorageResult<View> {
        Ok(self.clone())
    }
}

fn key(name: &str) -> SecretKey {
    let b = match name {
        "K1" => 1u8,
        "K2" => 2,
        "K3" => 3,
        "KA" => 9,
        _ => die("unknown key"),
    };
    SecretKey::try_from(&[b; 32][..]).expect("secret key")
}
fn addr(name: &str) -> Address {
    Input::owner(&key(name).public_key())
}

/// genesis key + overrides, as in the spec's SchedOf
fn sched_of(kind: &str) -> (String, BTreeMap<u32, String>) {
    let mut ov = BTreeMap::new();
    match kind {
        "PoA" | "V2a" => {}
        "V2b" => {
            ov.insert(3, "K2".to_string());
        }
        "V2c" => {
            ov.insert(3, "K2".to_string());
            ov.insert(5, "K3".to_string());
        }
        "V2d" => {
            ov.insert(6, "K2".to_string());
        }
        _ => die("unknown consensus kind"),
    }
    ("K1".to_string(), ov)
}
fn key_for(s: &(String, BTreeMap<u32, String>), h: u32) -> String {
    s.1.range(..=h).last().map(|(_, k)| k.clone()).unwrap_or(s.0.clone())
}
fn consensus_config(kind: &str, s: &(String, BTreeMap<u32, String>)) -> ConsensusConfig {
    if kind == "PoA" {
        ConsensusConfig::PoA { signing_key: addr(&s.0) }
    } else {
        ConsensusConfig::PoAV2(PoAV2::new(
            addr(&s.0),
            s.1.iter().map(|(h, k)| (BlockHeight::from(*h), addr(k))).collect(),
        ))
    }
}

fn tx(i: u8) -> Transaction {
    if i == 3 {
        Transaction::mint(TxPointer::new(5u32.into(), 2), Default::default(), Default::default(), 1000, Default::default(), 1)
            .into()
    } else {
        Transaction::script(1000, vec![], vec![i; 4], Policies::new(), vec![], vec![], vec![]).into()
    }
}
fn flip(t: &mut Transaction) {
    match t {
        Transaction::Script(s) => s.script_data_mut()[0] ^= 1,
        Transaction::Mint(m) => *m.mint_amount_mut() ^= 1,
        _ => die("unexpected tx kind"),
    }
}

fn valid_block(signer: &str) -> SealedBlock {
    let txs = vec![tx(1), tx(2), tx(3)];
    let mut p = PartialBlockHeader::default();
    p.application.da_height = 3u64.into();
    p.consensus.height = 5u32.into();
    p.consensus.time = Tai64(20);
    p.consensus.prev_root = root_at(4);
    let header = p.generate(&txs, &[], Bytes32::zeroed()).expect("header");
    let block = Block::try_from_executed(header, txs).expect("valid block");
    let sig = Signature::sign(&key(signer), &block.id().into_message());
    SealedBlock { entity: block, consensus: Consensus::PoA(PoAConsensus::new(sig)) }
}

/// what a peer would receive: no cached metadata
fn wire(b: &SealedBlock) -> SealedBlock {
    let v = serde_json::to_value(b).expect("serialize block");
    serde_json::from_value(v).expect("deserialize block")
}

fn vf_reason(r: anyhow::Result<()>) -> String {
    match r {
        Ok(()) => "ok".into(),
        Err(e) => {
            let m = format!("{e:#}");
            let table = [
                ("zero height", "zero"),
                ("Previous root", "prevroot"),
                ("`da_height`", "da"),
                ("`time`", "time"),
                ("application hash", "apphash"),
                ("transactions don't match", "txs"),
                ("genesis", "genesis"),
                ("Unsupported consensus", "unsupported"),
                ("ot found", "notfound"),
            ];
            table.iter().find(|(pat, _)| m.contains(pat)).map(|(_, c)| c.to_string()).unwrap_or(format!("other:{m}"))
        }
    }
}

fn judge(kind: &str, s: &(String, BTreeMap<u32, String>), chain: &Arc<Chain>, b: &SealedBlock, valid: &SealedBlock,
         valid_sched: &(String, BTreeMap<u32, String>)) -> Value {
    let verifier = Verifier::new(Config::new(consensus_config(kind, s), 0u32.into(), 0u64.into()), View(chain.clone()));
    let vf = guarded(|| verifier.verify_block_fields(&b.consensus, &b.entity));
    let vc = guarded(|| {
        verifier.verify_consensus(&SealedBlockHeader { entity: b.entity.header().clone(), consensus: b.consensus.clone() })
    });
    let te = Block::try_from_executed(b.entity.header().clone(), b.entity.transactions().to_vec()).is_some();
    json!({
        "vf": match vf { Ok(r) => vf_reason(r), Err(p) => format!("panic:{p}") },
        "vc": match vc { Ok(x) => json!(x), Err(p) => json!(format!("panic:{p}")) },
        "te": te,
        "idc": b.entity.id() != valid.entity.id(),
        "same": b == valid && s == valid_sched,
        "id": format!("{}", b.entity.id()),
    })
}

/// one raw single-field mutation (no hash is recomputed)
fn raw_mutation(b: &mut SealedBlock, sc2: &mut (String, BTreeMap<u32, String>), f: &str, v: i64) {
    {
        let c = b.entity.header_mut().consensus_mut();
        match f {
            "height" => c.height = (v as u32).into(),
            "prevRoot" => c.prev_root = if v == 1 { Bytes32::new([0xAB; 32]) } else { root_at(3) },
            "time" => c.time = Tai64(v as u64),
            "appHash" => c.generated.application_hash = Bytes32::new([0xCD; 32]),
            _ => {}
        }
    }
    {
        let BlockHeader::V1(h) = b.entity.header_mut();
        let a = h.application_mut();
        match f {
            "da" => a.da_height = (v as u64).into(),
            "cpv" => a.consensus_parameters_version += 1,
            "stf" => a.state_transition_bytecode_version += 1,
            "txRoot" => a.generated.transactions_root = Bytes32::new([0xEF; 32]),
            "txCount" => a.generated.transactions_count = v as u16,
            "msgCount" => a.generated.message_receipt_count = 1,
            "msgRoot" => a.generated.message_outbox_root = Bytes32::new([0x11; 32]),
            "evRoot" => a.generated.event_inbox_root = Bytes32::new([0x22; 32]),
            _ => {}
        }
    }
    {
        let txs = b.entity.transactions_mut();
        match f {
            "txInsert" => txs.insert(v as usize, tx(9)),
            "txRemove" => {
                txs.remove(v as usize - 1);
            }
            "txSwap" => txs.swap(v as usize - 1, v as usize),
            "txFlip" => flip(&mut txs[v as usize - 1]),
            _ => {}
        }
    }
    match f {
        "seal" => b.consensus = Consensus::Genesis(Genesis::default()),
        "sched" => {
            let top = sc2.1.range(..=5u32).last().map(|(k, _)| *k);
            match top {
                Some(k) => {
                    sc2.1.insert(k, "KA".into());
                }
                None => sc2.0 = "KA".into(),
            }
        }
        _ => {}
    }
}

pub fn run(args: &Args) {
    let walks = read_walks(args.req("walks"));
    let mut t = Trace::create(args.req("out"));
    let chain = Arc::new(Chain {
        headers: (0..=CHAIN_TOP)
            .map(|h| {
                let mut p = PartialBlockHeader::default();
                p.application.da_height = da_at(h).into();
                p.consensus.height = h.into();
                p.consensus.time = Tai64(time_at(h));
                p.generate(&[], &[], Bytes32::zeroed()).expect("header")
            })
            .collect(),
    });
    for w in &walks {
        t.reset(w.id, json!({}));
        let mut cur: Option<(String, (String, BTreeMap<u32, String>), SealedBlock)> = None;
        for s in &w.steps {
            match s.name() {
                "New" => {
                    let kind = s.str_("k").to_string();
                    let sc = sched_of(&kind);
                    let valid = wire(&valid_block(&key_for(&sc, 5)));
                    let mut o = judge(&kind, &sc, &chain, &valid, &valid, &sc);
                    o["k"] = json!(kind);
                    t.event("New", o);
                    cur = Some((kind, sc, valid));
                }
                "Mutate" | "Mutate2" => {
                    let (kind, sc, valid) = cur.as_ref().unwrap_or_else(|| die("Mutate before New"));
                    let (f, v, fix) = (s.str_("f"), s.int("v"), s.int("fix"));
                    let pair = s.name() == "Mutate2";
                    let (f2, v2) = if pair { (s.str_("f2"), s.int("v2")) } else { ("none", 0) };
                    let mut b = valid.clone();
                    let mut sc2 = sc.clone();
                    let is_tx = f.starts_with("tx") && f != "txRoot" && f != "txCount";
                    let is_cons = f == "appHash" || f2 == "appHash";
                    raw_mutation(&mut b, &mut sc2, f, v);
                    if pair {
                        raw_mutation(&mut b, &mut sc2, f2, v2);
                    }
                    // the adversary's repairs
                    if fix >= 1 && is_tx {
                        let root = generate_txns_root(b.entity.transactions());
                        let n = b.entity.transactions().len() as u16;
                        let BlockHeader::V1(h) = b.entity.header_mut();
                        h.application_mut().generated.transactions_root = root;
                        h.application_mut().generated.transactions_count = n;
                    }
                    if fix >= 2 && !is_cons {
                        let ah = {
                            let BlockHeader::V1(h) = b.entity.header();
                            h.application().hash()
                        };
                        b.entity.header_mut().consensus_mut().generated.application_hash = ah;
                    }
                    let mut b = wire(&b);
                    let id_msg = b.entity.id().into_message();
                    if f == "sig" {
                        let Consensus::PoA(p) = &valid.consensus else { die("valid block not PoA") };
                        let sig = match v {
                            1 => {
                                let mut raw: [u8; 64] = *p.signature;
                                raw[7] ^= 0x40;
                                Signature::from_bytes(raw)
                            }
                            2 => Signature::sign(&key("KA"), &id_msg),
                            _ => Signature::sign(&key(&key_for(sc, 5)), &fuel_core_types::fuel_crypto::Message::new(b"other message")),
                        };
                        b.consensus = Consensus::PoA(PoAConsensus::new(sig));
                    }
                    if fix == 3 {
                        b.consensus = Consensus::PoA(PoAConsensus::new(Signature::sign(&key("KA"), &id_msg)));
                    }
                    if fix == 4 {
                        // a faulty authority: the key the schedule names for the block's (possibly changed) height
                        let h = u32::from(*b.entity.header().height());
                        b.consensus = Consensus::PoA(PoAConsensus::new(Signature::sign(&key(&key_for(sc, h)), &id_msg)));
                    }
                    let mut o = judge(kind, &sc2, &chain, &b, valid, sc);
                    o["f"] = json!(f);
                    o["v"] = json!(v);
                    o["fix"] = json!(fix);
                    if pair {
                        o["f2"] = json!(f2);
                        o["v2"] = json!(v2);
                    }
                    t.event(if pair { "Mutate2" } else { "Mutate" }, o);
                }
                other => die(&format!("unknown action {other}")),
            }
        }
    }
    t.finish();
}
