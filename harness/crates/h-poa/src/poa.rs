//! C24 — the real `fuel_core_poa::new_service` driven through its public ports.
//!
//! The harness is an action interpreter: environment actions (clock advance, GetTime skew, network
//! import, peer count, one-shot failures, next leader_state result, manual requests, tx notification)
//! are executed one at a time; after each the single-threaded, time-paused tokio runtime is run until
//! nothing moves any more.  Every port call of the service is logged at call time with its arguments
//! and result, so the event order is the execution order.  Nothing is asserted here.
use fuel_core_poa::{
    Config, Trigger, new_service,
    ports::{
        BlockImporter, BlockProducer, BlockReconciliationReadPort, BlockSigner, GetTime, LeaderState, P2pPort,
        PredefinedBlocks, TransactionPool, TransactionsSource, WaitForReadySignal,
    },
    service::Mode,
};
use fuel_core_services::{Service as _, stream::BoxStream};
use fuel_core_storage::transactional::Changes;
use fuel_core_types::{
    blockchain::{
        SealedBlock,
        block::Block,
        consensus::{Consensus, poa::PoAConsensus},
        header::{BlockHeader, PartialBlockHeader},
    },
    fuel_crypto::Signature,
    fuel_types::{BlockHeight, Bytes32},
    services::{
        block_importer::{BlockImportInfo, UncommittedResult as UncommittedImportResult},
        executor::{ExecutionResult, UncommittedResult as UncommittedExecutionResult},
    },
    signer::SignMode,
    tai64::Tai64,
};
use h_common::*;
use serde_json::{Map, Value};
use std::{
    collections::BTreeSet,
    pin::Pin,
    sync::{Arc, Mutex},
    task::{Context, Poll},
    time::Duration,
};
use tokio::{
    sync::{mpsc, watch},
    time::Instant,
};

pub struct EnvInner {
    trace: Arc<Mutex<Trace>>,
    closed: bool,
    start: Instant,
    tick_ms: u64,
    c0: i64,
    skew: i64,
    db_h: u32,
    db_t: u64,
    fails: BTreeSet<String>,
    leader: (String, i64, i64, i64),
    now_calls: u32,
    block_tx: mpsc::UnboundedSender<BlockImportInfo>,
    seals: Vec<([u8; 64], [u8; 32])>,
    events: u64,
}
type Env = Arc<Mutex<EnvInner>>;

impl EnvInner {
    fn ticks_of(&self, i: Instant) -> i64 {
        if i >= self.start {
            (i.duration_since(self.start).as_millis() as u64 / self.tick_ms) as i64
        } else {
            -((self.start.duration_since(i).as_millis() as u64).div_ceil(self.tick_ms) as i64)
        }
    }
    fn now_ticks(&self) -> i64 {
        self.ticks_of(Instant::now())
    }
    fn clock(&self) -> i64 {
        self.c0 + Instant::now().duration_since(self.start).as_secs() as i64 + self.skew
    }
    /// one trace event; the standard fields are the harness-controlled environment state
    fn ev(&mut self, name: &str, fields: Value) {
        if self.closed {
            return;
        }
        let mut m = match fields {
            Value::Object(m) => m,
            _ => Map::new(),
        };
        m.insert("now".into(), json!(self.now_ticks()));
        m.insert("clk".into(), json!(self.clock()));
        m.insert("dbH".into(), json!(self.db_h));
        m.insert("dbT".into(), json!(self.db_t));
        m.insert("nc".into(), json!(self.now_calls));
        self.now_calls = 0;
        self.events += 1;
        self.trace.lock().unwrap().event(name, Value::Object(m));
    }
    fn take_fail(&mut self, k: &str) -> bool {
        self.fails.remove(k)
    }
    fn db_accepts(&self, h: u32, t: u64) -> bool {
        h == self.db_h + 1 && t >= self.db_t
    }
}

fn header(h: u32, t: u64) -> BlockHeader {
    let mut p = PartialBlockHeader::default();
    p.consensus.height = BlockHeight::from(h);
    p.consensus.time = Tai64(t);
    p.generate(&[], &[], Bytes32::zeroed()).expect("header")
}
fn block(h: u32, t: u64) -> Block {
    Block::try_from_executed(header(h, t), vec![]).expect("empty block")
}

// ------------------------------------------------------------------------------------------ ports

struct Clock(Env);
impl GetTime for Clock {
    fn now(&self) -> Tai64 {
        let mut e = self.0.lock().unwrap();
        e.now_calls += 1;
        Tai64(e.clock() as u64)
    }
}

#[derive(Clone)]
struct Ready;
impl WaitForReadySignal for Ready {
    async fn wait_for_ready_signal(&self) {}
}

struct TxPool(watch::Receiver<()>);
impl TransactionPool for TxPool {
    fn new_txs_watcher(&self) -> watch::Receiver<()> {
        self.0.clone()
    }
}

struct Predef(Env);
impl PredefinedBlocks for Predef {
    fn get_block(&self, height: &BlockHeight) -> anyhow::Result<Option<Block>> {
        self.0.lock().unwrap().ev("LoopStart", json!({"h": u32::from(*height)}));
        Ok(None)
    }
}

struct Producer(Env);
#[async_trait::async_trait]
impl BlockProducer for Producer {
    async fn produce_and_execute_block(
        &self,
        height: BlockHeight,
        block_time: Tai64,
        source: TransactionsSource,
        deadline: Instant,
    ) -> anyhow::Result<UncommittedExecutionResult<Changes>> {
        let mut e = self.0.lock().unwrap();
        let ok = !e.take_fail("produce");
        let src = match source {
            TransactionsSource::TxPool => "txpool",
            TransactionsSource::SpecificTransactions(_) => "specific",
        };
        let dl = e.ticks_of(deadline);
        e.ev("Produce", json!({"h": u32::from(height), "t": block_time.0, "src": src, "dl": dl, "res": ok}));
        if !ok {
            anyhow::bail!("scripted producer failure")
        }
        Ok(UncommittedExecutionResult::new(
            ExecutionResult {
                block: block(u32::from(height), block_time.0),
                skipped_transactions: vec![],
                tx_status: vec![],
                events: vec![],
            },
            Changes::default(),
        ))
    }
    async fn produce_predefined_block(&self, b: &Block) -> anyhow::Result<UncommittedExecutionResult<Changes>> {
        self.0.lock().unwrap().ev("ProducePredefined", json!({"h": u32::from(*b.header().height())}));
        anyhow::bail!("no predefined blocks in this harness")
    }
}

struct Signer(Env);
#[async_trait::async_trait]
impl BlockSigner for Signer {
    async fn seal_block(&self, block: &Block) -> anyhow::Result<Consensus> {
        let mut e = self.0.lock().unwrap();
        let ok = !e.take_fail("seal");
        let (h, t) = (u32::from(*block.header().height()), block.header().time().0);
        e.ev("Seal", json!({"h": h, "t": t, "res": ok}));
        if !ok {
            anyhow::bail!("scripted signer failure")
        }
        // the "signature" names the sealed block id and the number of the seal call
        let id: [u8; 32] = *Bytes32::from(block.id());
        let mut sig = [0u8; 64];
        sig[..32].copy_from_slice(&id);
        sig[32..40].copy_from_slice(&(e.seals.len() as u64 + 1).to_be_bytes());
        e.seals.push((sig, id));
        Ok(Consensus::PoA(PoAConsensus::new(Signature::from_bytes(sig))))
    }
    fn is_available(&self) -> bool {
        let mut e = self.0.lock().unwrap();
        let ok = !e.take_fail("signer");
        e.ev("IsAvail", json!({"res": ok}));
        ok
    }
}

struct Importer {
    env: Env,
    stream: Mutex<Option<mpsc::UnboundedReceiver<BlockImportInfo>>>,
}
#[async_trait::async_trait]
impl BlockImporter for Importer {
    async fn commit_result(&self, result: UncommittedImportResult<Changes>) -> anyhow::Result<()> {
        let (result, _changes) = result.into();
        let sb = &result.sealed_block;
        let (h, t) = (u32::from(*sb.entity.header().height()), sb.entity.header().time().0);
        let mut e = self.env.lock().unwrap();
        let id: [u8; 32] = *Bytes32::from(sb.entity.id());
        // is the consensus of the block a seal our signer issued for exactly this block?
        let sealed = match &sb.consensus {
            Consensus::PoA(p) => {
                let s: [u8; 64] = *p.signature;
                e.seals.iter().any(|(sig, bid)| *sig == s && *bid == id)
            }
            _ => false,
        };
        let fail = e.take_fail("commit");
        let ok = !fail && e.db_accepts(h, t);
        if ok {
            e.db_h = h;
            e.db_t = t;
        }
        e.ev("Commit", json!({"h": h, "t": t, "sealed": sealed, "local": result.source == fuel_core_types::services::block_importer::Source::Local, "res": ok}));
        if !ok {
            anyhow::bail!("importer refused the block")
        }
        let _ = e.block_tx.send(BlockImportInfo::from(sb.entity.header().clone()));
        Ok(())
    }
    async fn execute_and_commit(&self, block: SealedBlock) -> anyhow::Result<()> {
        let (h, t) = (u32::from(*block.entity.header().height()), block.entity.header().time().0);
        let mut e = self.env.lock().unwrap();
        let fail = e.take_fail("import");
        let ok = !fail && e.db_accepts(h, t);
        if ok {
            e.db_h = h;
            e.db_t = t;
        }
        e.ev("ExecCommit", json!({"h": h, "t": t, "res": ok}));
        if !ok {
            anyhow::bail!("importer refused the reconciled block")
        }
        let _ = e.block_tx.send(BlockImportInfo::new_from_network(block.entity.header().clone()));
        Ok(())
    }
    fn block_stream(&self) -> BoxStream<BlockImportInfo> {
        let rx = self.stream.lock().unwrap().take().expect("block_stream taken once");
        Box::pin(LogStream { rx, env: self.env.clone(), kind: Kind::Block })
    }
    fn latest_block_height(&self) -> anyhow::Result<Option<BlockHeight>> {
        let mut e = self.env.lock().unwrap();
        let h = e.db_h;
        e.ev("DbHeight", json!({"res": h}));
        Ok(Some(BlockHeight::from(h)))
    }
}

struct P2p {
    env: Env,
    stream: Mutex<Option<mpsc::UnboundedReceiver<usize>>>,
}
impl P2pPort for P2p {
    fn reserved_peers_count(&self) -> BoxStream<usize> {
        let rx = self.stream.lock().unwrap().take().expect("peers stream taken once");
        Box::pin(LogStream { rx, env: self.env.clone(), kind: Kind::Peers })
    }
}

struct Recon(Env);
#[async_trait::async_trait]
impl BlockReconciliationReadPort for Recon {
    async fn leader_state(&self, next_height: BlockHeight) -> anyhow::Result<LeaderState> {
        let mut e = self.0.lock().unwrap();
        let (k, off, cnt, dt) = std::mem::replace(&mut e.leader, ("L".into(), 0, 0, 0));
        let nh = u32::from(next_height);
        e.ev("LeaderState", json!({"h": nh, "res": k}));
        match k.as_str() {
            "L" => Ok(LeaderState::ReconciledLeader),
            "F" => Ok(LeaderState::ReconciledFollower),
            "U" => {
                let mut blocks = vec![];
                for i in 0..cnt {
                    let h = (nh as i64 + off + i) as u32;
                    let t = (e.db_t as i64 + dt) as u64;
                    blocks.push(SealedBlock { entity: block(h, t), consensus: Consensus::PoA(PoAConsensus::new(Signature::default())) });
                }
                Ok(LeaderState::UnreconciledBlocks(blocks))
            }
            _ => anyhow::bail!("scripted leader_state failure"),
        }
    }
    async fn release(&self) -> anyhow::Result<()> {
        self.0.lock().unwrap().ev("Release", json!({}));
        Ok(())
    }
}

enum Kind {
    Peers,
    Block,
}
/// The streams the SyncTask polls: a pull is logged when it happens; a poll of the (second) block stream
/// that finds nothing is logged as "SyncRun" - the SyncTask polls its timer right after it.
struct LogStream<T> {
    rx: mpsc::UnboundedReceiver<T>,
    env: Env,
    kind: Kind,
}
trait Describe {
    fn describe(&self) -> Value;
}
impl Describe for usize {
    fn describe(&self) -> Value {
        json!({"n": *self})
    }
}
impl Describe for BlockImportInfo {
    fn describe(&self) -> Value {
        json!({"h": u32::from(*self.block_header.height()), "t": self.block_header.time().0,
               "src": if self.is_locally_produced() { "local" } else { "net" }})
    }
}
impl<T: Describe> tokio_stream::Stream for LogStream<T> {
    type Item = T;
    fn poll_next(mut self: Pin<&mut Self>, cx: &mut Context<'_>) -> Poll<Option<T>> {
        match self.rx.poll_recv(cx) {
            Poll::Ready(Some(x)) => {
                let name = match self.kind {
                    Kind::Peers => "SyncPeers",
                    Kind::Block => "SyncBlock",
                };
                self.env.lock().unwrap().ev(name, x.describe());
                Poll::Ready(Some(x))
            }
            Poll::Ready(None) => Poll::Pending,
            Poll::Pending => {
                if let Kind::Block = self.kind {
                    self.env.lock().unwrap().ev("SyncRun", json!({}));
                }
                Poll::Pending
            }
        }
    }
}

// ------------------------------------------------------------------------------------------ driver

pub struct Params {
    pub tps: u64,
    pub h0: u32,
    pub t0: u64,
}

/// Run the runtime until no port is called any more.  A service that never comes to rest (busy loop)
/// is cut off: the event "Runaway" ends the walk (returns false).
async fn settle(env: &Env) -> bool {
    let first = env.lock().unwrap().events;
    loop {
        let before = env.lock().unwrap().events;
        for _ in 0..12 {
            tokio::task::yield_now().await;
        }
        let mut e = env.lock().unwrap();
        if e.events == before {
            return true;
        }
        if e.events - first > 400 {
            e.ev("Runaway", json!({}));
            e.closed = true;
            return false;
        }
    }
}

pub fn run_walk(trace: &Arc<Mutex<Trace>>, p: &Params, id: i64, steps: &[Map<String, Value>]) {
    trace.lock().unwrap().reset(id, json!({"tps": p.tps, "h0": p.h0, "t0": p.t0}));
    let rt = tokio::runtime::Builder::new_current_thread().enable_time().start_paused(true).build().unwrap();
    rt.block_on(async {
        let (block_tx, block_rx) = mpsc::unbounded_channel();
        let (peers_tx, peers_rx) = mpsc::unbounded_channel::<usize>();
        let (tx_tx, tx_rx) = watch::channel(());
        let env: Env = Arc::new(Mutex::new(EnvInner {
            trace: trace.clone(),
            closed: false,
            start: Instant::now(),
            tick_ms: 1000 / p.tps,
            c0: p.t0 as i64,
            skew: 0,
            db_h: p.h0,
            db_t: p.t0,
            fails: BTreeSet::new(),
            leader: ("L".into(), 0, 0, 0),
            now_calls: 0,
            block_tx,
            seals: vec![],
            events: 0,
        }));
        let mut peers_rx = Some(peers_rx);
        let mut block_rx = Some(block_rx);
        let mut tx_rx = Some(tx_rx);
        let mut service = None;
        let mut manual_id = 0u64;
        for s in steps {
            match s.name() {
                "New" => {
                    let c = s.get("c").and_then(|c| c.as_object()).unwrap_or_else(|| die("New without c"));
                    let (trig, bt, tus, min_peers, lag) =
                        (c.str_("trig"), c.int("bt") as u64, c.int("tus") as u64, c.int("minPeers") as usize, c.int("lag"));
                    let tick = Duration::from_millis(1000 / p.tps);
                    let trigger = match trig {
                        "Never" => Trigger::Never,
                        "Instant" => Trigger::Instant,
                        "Interval" => Trigger::Interval { block_time: Duration::from_secs(bt) },
                        "Open" => Trigger::Open { period: Duration::from_secs(bt) },
                        other => die(&format!("unknown trigger {other}")),
                    };
                    let config = Config {
                        trigger,
                        signer: SignMode::Unavailable,
                        metrics: false,
                        min_connected_reserved_peers: min_peers,
                        time_until_synced: tick * tus as u32,
                        production_timeout: Duration::from_secs(1000),
                        chain_id: Default::default(),
                    };
                    env.lock().unwrap().c0 = p.t0 as i64 + lag;
                    let svc = new_service(
                        &header(p.h0, p.t0),
                        config,
                        TxPool(tx_rx.take().unwrap_or_else(|| die("New twice"))),
                        Producer(env.clone()),
                        Importer { env: env.clone(), stream: Mutex::new(block_rx.take()) },
                        P2p { env: env.clone(), stream: Mutex::new(peers_rx.take()) },
                        Arc::new(Signer(env.clone())),
                        Predef(env.clone()),
                        Clock(env.clone()),
                        Ready,
                        Recon(env.clone()),
                    );
                    {
                        let mut e = env.lock().unwrap();
                        e.now_calls = 0;
                        e.ev("New", json!({"c": Value::Object(c.clone())}));
                    }
                    svc.start().expect("start");
                    service = Some(svc);
                }
                "Advance" => {
                    let d = s.int("d");
                    env.lock().unwrap().ev("Advance", json!({"d": d}));
                    tokio::time::advance(Duration::from_millis(d as u64 * (1000 / p.tps))).await;
                }
                "Skew" => {
                    let v = s.int("s");
                    let mut e = env.lock().unwrap();
                    e.ev("Skew", json!({"s": v}));
                    e.skew = v;
                }
                "NetImport" => {
                    let dt = s.int("dt");
                    let mut e = env.lock().unwrap();
                    e.ev("NetImport", json!({"dt": dt}));
                    e.db_h += 1;
                    e.db_t = (e.db_t as i64 + dt) as u64;
                    let _ = e.block_tx.send(BlockImportInfo::new_from_network(header(e.db_h, e.db_t)));
                }
                "Peers" => {
                    let n = s.int("n");
                    env.lock().unwrap().ev("Peers", json!({"n": n}));
                    let _ = peers_tx.send(n as usize);
                }
                "Fail" => {
                    let k = s.str_("k").to_string();
                    let mut e = env.lock().unwrap();
                    e.ev("Fail", json!({"k": k}));
                    e.fails.insert(k);
                }
                "SetLeader" => {
                    let ld = (s.str_("k").to_string(), s.int("off"), s.int("cnt"), s.int("dt"));
                    let mut e = env.lock().unwrap();
                    e.ev("SetLeader", json!({"k": ld.0, "off": ld.1, "cnt": ld.2, "dt": ld.3}));
                    e.leader = ld;
                }
                "NewTx" => {
                    env.lock().unwrap().ev("NewTx", json!({}));
                    let _ = tx_tx.send(());
                }
                "Manual" => {
                    let (start, n) = (s.int("start"), s.int("n"));
                    let shared = service.as_ref().unwrap_or_else(|| die("Manual before New")).shared.clone();
                    let env2 = env.clone();
                    manual_id += 1;
                    let mid = manual_id;
                    tokio::spawn(async move {
                        env2.lock().unwrap().ev("Manual", json!({"start": start, "n": n, "id": mid}));
                        let st = if start < 0 { None } else { Some(Tai64(start as u64)) };
                        let r = shared.manually_produce_block(st, Mode::Blocks { number_of_blocks: n as u32 }).await;
                        env2.lock().unwrap().ev("ManualDone", json!({"res": if r.is_ok() { "Ok" } else { "Err" }, "id": mid}));
                    });
                }
                other => die(&format!("unknown action {other}")),
            }
            if !settle(&env).await {
                break;
            }
        }
        env.lock().unwrap().closed = true;
        if let Some(svc) = service.take() {
            svc.stop();
            for _ in 0..20 {
                tokio::task::yield_now().await;
            }
        }
    });
}

pub fn run(args: &Args) {
    let walks = read_walks(args.req("walks"));
    let p = Params { tps: args.num("tps", 2), h0: args.num("h0", 1) as u32, t0: args.num("t0", 10) };
    let trace = Arc::new(Mutex::new(Trace::create(args.req("out"))));
    for w in &walks {
        run_walk(&trace, &p, w.id, &w.steps);
    }
    finish(trace);
}

fn finish(trace: Arc<Mutex<Trace>>) {
    match Arc::try_unwrap(trace) {
        Ok(m) => m.into_inner().unwrap().finish(),
        Err(_) => die("trace still shared"),
    }
}

fn step(v: Value) -> Map<String, Value> {
    v.as_object().cloned().unwrap()
}

/// Seeded random environment schedules (I -> S), including values outside the model-checking bounds.
pub fn random(args: &Args) {
    let n = args.num("walks", 100);
    let len = args.num("len", 30);
    let p = Params { tps: args.num("tps", 2), h0: args.num("h0", 1) as u32, t0: args.num("t0", 10) };
    let mut rng = Rng::new(env_seed() ^ 0x24c2_4c24);
    let trace = Arc::new(Mutex::new(Trace::create(args.req("out"))));
    for id in 0..n {
        let trig = *rng.pick(&["Interval", "Interval", "Instant", "Never", "Open"]);
        let bt = if trig == "Interval" || trig == "Open" { rng.range(1, 2) } else { 0 };
        let tus = *rng.pick(&[0i64, 3, 3, 5]);
        let min_peers = if tus > 0 && rng.chance(1, 3) { 1 } else { 0 };
        let lag = rng.range(0, 3);
        let mut steps = vec![step(json!({"a": "New", "c": {"trig": trig, "bt": bt, "tus": tus, "minPeers": min_peers, "lag": lag}}))];
        // a rough estimate of the chain's latest timestamp, to aim manual start times around it
        let mut est_t = p.t0 as i64;
        for _ in 0..len {
            let r = rng.below(100);
            let s = if r < 34 {
                let d = rng.range(1, 6);
                est_t += d / p.tps as i64;
                json!({"a": "Advance", "d": d})
            } else if r < 46 {
                let dt = rng.range(0, 5);
                est_t += dt;
                json!({"a": "NetImport", "dt": dt})
            } else if r < 58 {
                let start = if rng.chance(1, 2) { -1 } else { (est_t + rng.range(-2, 6)).max(0) };
                json!({"a": "Manual", "start": start, "n": rng.range(1, 3)})
            } else if r < 68 {
                json!({"a": "Fail", "k": *rng.pick(&["produce", "seal", "commit", "import", "signer"])})
            } else if r < 82 {
                match rng.below(4) {
                    0 => json!({"a": "SetLeader", "k": "F", "off": 0, "cnt": 0, "dt": 0}),
                    1 => json!({"a": "SetLeader", "k": "E", "off": 0, "cnt": 0, "dt": 0}),
                    _ => json!({"a": "SetLeader", "k": "U", "off": rng.range(-1, 1), "cnt": rng.range(1, 3), "dt": rng.range(-1, 3)}),
                }
            } else if r < 87 {
                json!({"a": "Peers", "n": rng.range(0, 2)})
            } else if r < 92 {
                json!({"a": "Skew", "s": rng.range(-3, 3)})
            } else {
                json!({"a": "NewTx"})
            };
            steps.push(step(s));
        }
        run_walk(&trace, &p, id as i64, &steps);
    }
    finish(trace);
}
