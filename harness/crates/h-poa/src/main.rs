//! Harness for the PoA consensus module: C24 (block production task) and C15 (block rules).
mod poa;
mod rules;
use h_common::*;

fn main() {
    let args = Args::parse();
    match args.mode.as_str() {
        "run" => poa::run(&args),
        "random" => poa::random(&args),
        "rules" => rules::run(&args),
        other => die(&format!("unknown mode {other}")),
    }
}
