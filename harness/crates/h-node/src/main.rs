//! h-node — C45 harness: read-only operations of a real in-process fuel-core node.
//!
//! A real `FuelService` (RocksDB in a temp dir with full state rewind, historical execution, manual block
//! production, utxo validation on) with four kinds of genesis coins (owner A: `--coins` signed coins used by the
//! transactions, owner B: one coin, deployer: one coin) and a counter contract deployed in block 1.
//! Requests go through the public GraphQL API with the real `FuelClient`, one at a time, each awaited.
//!
//! Actions (walk steps / random driver):
//!   Submit{k,c}                    submit the (deterministically built) transaction (k,c) to the txpool
//!   Produce                        manually produce one block from the txpool, wait until the off-chain worker
//!                                  and the gas price service have caught up
//!   Tick                           sleep 1.1 s (wall-clock time passes, nothing else)
//!   DryRun{txs,at,uv,rec,gp}       dryRun / dryRunRecordStorageReads
//!   Est{p}                         estimatePredicates
//!   Asm{k,who}                     assembleTx
//! Before and after every action the harness projects
//!   h      on-chain height
//!   on     blocks 2..h as sets of known transactions, which of A's coins are gone from the Coins table, the
//!          counter slot of the contract, and a digest of EVERY column of the on-chain database
//!   off    off-chain height, A's coins in the owned-coins index, digest of EVERY column of the off-chain database
//!   ptx    the transactions resident in the pool
//!   psp    for each of A's coins whether the pool has it marked as spent (a probe transaction that can never be
//!          inserted: it spends the coin and an unknown message, so the pool answers either "already spent" or
//!          "unknown message" and stores nothing)
//! and logs the answer (abstract part + digest of the complete answer).  Nothing is asserted here: TLC judges.

use fuel_core::{
    chain_config::{CoinConfig, Owner, StateConfig},
    combined_database::CombinedDatabase,
    database::{database_description::DatabaseDescription, Database},
    service::{config::Trigger, Config, FuelService},
};
use fuel_core_client::client::{
    types::assemble_tx::{Account, ChangePolicy, RequiredBalance},
    FuelClient,
};
use fuel_core_storage::{
    iter::{IterDirection, IterableStore},
    kv_store::StorageColumn,
    tables::{Coins, ContractsState, FuelBlocks},
    transactional::{AtomicView, HistoricalView},
    StorageAsRef,
};
use fuel_core_types::{
    fuel_asm::{op, GTFArgs, RegId},
    fuel_tx::{
        Address, AssetId, Bytes32, ConsensusParameters, ContractId, CreateMetadata, Finalizable, Input, Output, Receipt,
        StorageSlot, Transaction, TransactionBuilder, TxId, TxPointer, UniqueIdentifier, UtxoId,
    },
    fuel_types::{BlockHeight, Nonce},
    fuel_vm::{ProgramState, Salt, SecretKey},
    services::executor::{TransactionExecutionResult, TransactionExecutionStatus},
};
use h_common::{die, env_seed, json, read_walks, Args, Rng, StepExt, Trace};
use serde_json::{Map, Value};
use std::{collections::HashMap, hash::Hasher, time::Duration};

const AMOUNT: u64 = 10_000_000;
const MAX_FEE: u64 = 1_000_000;

fn sk(b: u8) -> SecretKey {
    SecretKey::try_from(&[b; 32][..]).unwrap()
}
fn addr_of(s: &SecretKey) -> Address {
    Input::owner(&s.public_key())
}
fn utxo_a(c: i64) -> UtxoId {
    UtxoId::new([0xA0 + c as u8; 32].into(), 0)
}

/// An abstract transaction of the specification: kind and coin of owner A.
#[derive(Clone, Debug, PartialEq, Eq, Hash)]
struct ATx {
    k: String,
    c: i64,
}
impl ATx {
    fn json(&self) -> Value {
        json!({"k": self.k, "c": self.c})
    }
}

struct Interner(HashMap<u64, i64>);
impl Interner {
    fn id(&mut self, d: u64) -> i64 {
        let n = self.0.len() as i64;
        *self.0.entry(d).or_insert(n)
    }
}

struct Node {
    rt: tokio::runtime::Runtime,
    srv: FuelService,
    client: FuelClient,
    params: ConsensusParameters,
    ncoins: i64,
    a: SecretKey,
    b: SecretKey,
    contract: ContractId,
    ids: HashMap<TxId, ATx>,
    on_dg: Interner,
    off_dg: Interner,
    ans_dg: Interner,
}

fn column_digest<D>(db: &Database<D>) -> u64
where
    D: DatabaseDescription,
    D::Column: enum_iterator::Sequence + StorageColumn,
    Database<D>: IterableStore<Column = D::Column>,
{
    let mut h = std::collections::hash_map::DefaultHasher::new();
    for col in enum_iterator::all::<D::Column>() {
        h.write(col.name().as_bytes());
        let mut n = 0u64;
        for kv in db.iter_store(col, None, None, IterDirection::Forward) {
            match kv {
                Ok((k, v)) => {
                    h.write_usize(k.len());
                    h.write(&k);
                    h.write_usize(v.len());
                    h.write(&v);
                    n += 1;
                }
                Err(_) => h.write_u8(0xEE),
            }
        }
        h.write_u64(n);
    }
    h.finish()
}

fn hash_str(s: &str) -> u64 {
    let mut h = std::collections::hash_map::DefaultHasher::new();
    h.write(s.as_bytes());
    h.finish()
}

impl Node {
    fn new(ncoins: i64) -> Node {
        let rt = tokio::runtime::Builder::new_multi_thread()
            .worker_threads(2)
            .enable_all()
            .build()
            .unwrap();
        let (a, b, d) = (sk(1), sk(2), sk(3));
        let mut coins = Vec::new();
        for c in 1..=ncoins {
            coins.push(CoinConfig {
                tx_id: *utxo_a(c).tx_id(),
                output_index: 0,
                owner: Owner::Address(addr_of(&a)),
                amount: AMOUNT,
                asset_id: AssetId::BASE,
                ..Default::default()
            });
        }
        coins.push(CoinConfig {
            tx_id: [0xB1; 32].into(),
            output_index: 0,
            owner: Owner::Address(addr_of(&b)),
            amount: AMOUNT,
            asset_id: AssetId::BASE,
            ..Default::default()
        });
        coins.push(CoinConfig {
            tx_id: [0xD1; 32].into(),
            output_index: 0,
            owner: Owner::Address(addr_of(&d)),
            amount: AMOUNT,
            asset_id: AssetId::BASE,
            ..Default::default()
        });
        let state = StateConfig { coins, ..StateConfig::default() };
        let mut config = Config::local_node_with_state_config(state);
        config.utxo_validation = true;
        config.txpool.utxo_validation = true;
        config.block_production = Trigger::Never;
        config.debug = true;
        config.historical_execution = true;
        let params = config.snapshot_reader.chain_config().consensus_parameters.clone();
        let srv = rt
            .block_on(FuelService::new_node(config))
            .unwrap_or_else(|e| die(&format!("node start: {e:?}")));
        let client = FuelClient::from(srv.bound_address);
        let mut n = Node {
            rt,
            srv,
            client,
            params,
            ncoins,
            a,
            b,
            contract: ContractId::zeroed(),
            ids: HashMap::new(),
            on_dg: Interner(HashMap::new()),
            off_dg: Interner(HashMap::new()),
            ans_dg: Interner(HashMap::new()),
        };
        // block 1: deploy the counter contract
        let (create, contract) = n.deploy_tx(&d);
        n.contract = contract;
        n.rt
            .block_on(n.client.submit(&create))
            .unwrap_or_else(|e| die(&format!("deploy submit: {e}")));
        n.produce();
        if n.height() != 1 {
            die("setup: deploy block not produced");
        }
        for t in n.all_atx() {
            let id = n.tx(&t).id(&n.params.chain_id());
            n.ids.insert(id, t);
        }
        n
    }

    fn db(&self) -> &CombinedDatabase {
        &self.srv.shared.database
    }

    fn all_atx(&self) -> Vec<ATx> {
        let mut v = vec![ATx { k: "ghost".into(), c: 0 }];
        for c in 1..=self.ncoins {
            for k in ["ok", "rev", "inc", "noctr", "noinp"] {
                v.push(ATx { k: k.into(), c });
            }
        }
        v
    }

    fn deploy_tx(&self, d: &SecretKey) -> (Transaction, ContractId) {
        let code: Vec<u8> = [
            op::movi(0x12, 32),
            op::aloc(0x12),
            op::srw(0x10, 0x11, RegId::HP, 0),
            op::addi(0x10, 0x10, 1),
            op::sww(RegId::HP, 0x11, 0x10),
            op::ret(0x10),
        ]
        .into_iter()
        .collect();
        let tx = TransactionBuilder::create(
            code.into(),
            Salt::from([7u8; 32]),
            vec![StorageSlot::new(Bytes32::zeroed(), Bytes32::zeroed())],
        )
        .with_params(self.params.clone())
        .add_unsigned_coin_input(
            *d,
            UtxoId::new([0xD1; 32].into(), 0),
            AMOUNT,
            AssetId::BASE,
            TxPointer::default(),
        )
        .add_contract_created()
        .finalize();
        let contract = CreateMetadata::compute(&tx).unwrap().contract_id;
        (tx.into(), contract)
    }

    fn call_script(contract: ContractId) -> (Vec<u8>, Vec<u8>) {
        let script: Vec<u8> = [
            op::gtf_args(0x10, RegId::ZERO, GTFArgs::ScriptData),
            op::call(0x10, RegId::ZERO, RegId::ZERO, RegId::CGAS),
            op::ret(RegId::RET),
        ]
        .into_iter()
        .collect();
        let mut data = contract.to_vec();
        data.extend(0u64.to_be_bytes());
        data.extend(0u64.to_be_bytes());
        (script, data)
    }

    fn script_of(&self, k: &str) -> (Vec<u8>, Vec<u8>, Option<ContractId>) {
        match k {
            // logs the timestamp of the block being simulated, so that the complete answer depends on it
            "ok" | "ghost" => (
                [op::bhei(0x10), op::time(0x11, 0x10), op::log(0x11, 0x10, RegId::ZERO, RegId::ZERO), op::ret(RegId::ONE)]
                    .into_iter()
                    .collect(),
                vec![],
                None,
            ),
            "rev" => ([op::rvrt(RegId::ONE)].into_iter().collect(), vec![], None),
            "inc" => {
                let (s, d) = Self::call_script(self.contract);
                (s, d, Some(self.contract))
            }
            "noctr" => {
                let missing = ContractId::from([0xCC; 32]);
                let (s, d) = Self::call_script(missing);
                (s, d, Some(missing))
            }
            "noinp" => {
                let (s, d) = Self::call_script(self.contract);
                (s, d, None)
            }
            other => die(&format!("unknown tx kind {other}")),
        }
    }

    /// The real transaction for an abstract one; a pure function of (k, c).
    fn tx(&self, t: &ATx) -> Transaction {
        let (script, data, contract) = self.script_of(&t.k);
        let utxo = if t.k == "ghost" { UtxoId::new([0xEE; 32].into(), 0) } else { utxo_a(t.c) };
        let mut b = TransactionBuilder::script(script, data);
        b.with_params(self.params.clone())
            .script_gas_limit(1_000_000)
            .max_fee_limit(MAX_FEE)
            .add_unsigned_coin_input(self.a, utxo, AMOUNT, AssetId::BASE, TxPointer::default());
        if let Some(cid) = contract {
            b.add_input(Input::contract(
                UtxoId::new(Bytes32::zeroed(), 0),
                Bytes32::zeroed(),
                Bytes32::zeroed(),
                TxPointer::default(),
                cid,
            ))
            .add_output(Output::contract(1, Bytes32::zeroed(), Bytes32::zeroed()));
        }
        b.add_output(Output::change(Address::from([0x5A; 32]), 0, AssetId::BASE));
        b.finalize_as_transaction()
    }

    fn height(&self) -> u32 {
        HistoricalView::latest_height(self.db().on_chain()).map(|h| *h).unwrap_or(0)
    }

    fn produce(&self) -> String {
        let r = self.rt.block_on(self.client.produce_blocks(1, None));
        let res = match r {
            Ok(_) => "ok".to_string(),
            Err(e) => format!("Err:{}", short(&e.to_string())),
        };
        // the off-chain worker and the gas price service follow the importer asynchronously
        let target = self.height();
        for _ in 0..20_000 {
            let off = HistoricalView::latest_height(self.db().off_chain()).map(|h| *h).unwrap_or(0);
            let gp = HistoricalView::latest_height(self.db().gas_price()).map(|h| *h).unwrap_or(0);
            if off >= target && gp >= target {
                return res;
            }
            std::thread::sleep(Duration::from_millis(1));
        }
        die("off-chain worker / gas price service did not catch up");
    }

    /// Probe whether the pool has coin `c` marked as spent, without being able to change the pool.
    fn probe(&self, c: i64) -> &'static str {
        let mut b = TransactionBuilder::script([op::ret(RegId::ONE)].into_iter().collect(), vec![0xAB, c as u8]);
        b.with_params(self.params.clone())
            .script_gas_limit(10_000)
            .max_fee_limit(0)
            .add_unsigned_coin_input(self.a, utxo_a(c), AMOUNT, AssetId::BASE, TxPointer::default())
            .add_unsigned_message_input(self.a, Address::zeroed(), Nonce::from([0x99; 32]), 1, vec![])
            .add_output(Output::change(Address::from([0x5A; 32]), 0, AssetId::BASE));
        let tx = b.finalize_as_transaction();
        let r = self.rt.block_on(self.srv.shared.txpool_shared_state.insert(tx));
        match r {
            Ok(()) => die("probe transaction was accepted by the pool"),
            Err(e) => {
                let s = format!("{e:?}");
                if s.contains("UtxoInputWasAlreadySpent") {
                    "spent"
                } else if s.contains("NotInsertedInputMessageUnknown") {
                    "free"
                } else {
                    die(&format!("probe: unexpected pool answer {s}"))
                }
            }
        }
    }

    fn state(&mut self) -> Value {
        let h = self.height();
        let on = self.db().on_chain();
        let view = on.latest_view().unwrap_or_else(|e| die(&format!("view: {e:?}")));
        let mut blocks = Vec::new();
        for bh in 2..=h {
            let blk = view
                .storage::<FuelBlocks>()
                .get(&BlockHeight::from(bh))
                .ok()
                .flatten()
                .unwrap_or_else(|| die("block missing"));
            let mut txs: Vec<(String, i64)> = Vec::new();
            let ids = blk.transactions();
            for (i, id) in ids.iter().enumerate() {
                match self.ids.get(id) {
                    Some(t) => txs.push((t.k.clone(), t.c)),
                    None if i + 1 == ids.len() => {} // the mint
                    None => txs.push(("?".into(), -1)),
                }
            }
            txs.sort();
            blocks.push(Value::Array(txs.into_iter().map(|(k, c)| json!({"k": k, "c": c})).collect()));
        }
        let mut spent = Vec::new();
        for c in 1..=self.ncoins {
            let there = view.storage::<Coins>().contains_key(&utxo_a(c)).unwrap_or(false);
            if !there {
                spent.push(c);
            }
        }
        let key = (&self.contract, &Bytes32::zeroed()).into();
        let ctr = match view.storage::<ContractsState>().get(&key) {
            Ok(Some(v)) => {
                let bytes: &[u8] = v.as_ref().as_ref();
                let mut b = [0u8; 8];
                b.copy_from_slice(&bytes[..8]);
                u64::from_be_bytes(b) as i64
            }
            _ => -1,
        };
        drop(view);
        let on_dg = self.on_dg.id(column_digest(on));
        let off = self.db().off_chain();
        let synced = HistoricalView::latest_height(off).map(|h| *h).unwrap_or(0);
        let offv = off.latest_view().unwrap_or_else(|e| die(&format!("off view: {e:?}")));
        let mut owned = Vec::new();
        let owner = addr_of(&self.a);
        for id in offv.owned_coins_ids(&owner, None, Some(IterDirection::Forward)) {
            if let Ok(id) = id {
                for c in 1..=self.ncoins {
                    if utxo_a(c) == id {
                        owned.push(c);
                    }
                }
            }
        }
        owned.sort();
        drop(offv);
        let off_dg = self.off_dg.id(column_digest(off));
        let ptx_ids = self
            .rt
            .block_on(self.srv.shared.txpool_shared_state.get_tx_ids(1000))
            .unwrap_or_else(|e| die(&format!("pool ids: {e:?}")));
        let mut ptx: Vec<(String, i64)> = ptx_ids
            .iter()
            .map(|id| self.ids.get(id).map(|t| (t.k.clone(), t.c)).unwrap_or(("?".into(), -1)))
            .collect();
        ptx.sort();
        let psp: Vec<i64> = (1..=self.ncoins).filter(|c| self.probe(*c) == "spent").collect();
        json!({
            "h": h,
            "on": {"blocks": blocks, "spent": spent, "ctr": ctr, "dg": on_dg},
            "off": {"synced": synced, "owned": owned, "dg": off_dg},
            "ptx": ptx.into_iter().map(|(k, c)| json!({"k": k, "c": c})).collect::<Vec<_>>(),
            "psp": psp,
        })
    }

    fn status_json(st: &TransactionExecutionResult) -> Value {
        match st {
            TransactionExecutionResult::Success { result, .. } => match result {
                Some(ProgramState::Return(v)) => json!({"s": "S", "v": *v as i64}),
                _ => json!({"s": "S", "v": -1}),
            },
            // a panic (also one appended by the dry run for contracts missing from the inputs) or a revert
            TransactionExecutionResult::Failed { receipts, .. } => {
                if receipts.iter().any(|r| matches!(r, Receipt::Panic { .. })) {
                    json!({"s": "P", "v": -1})
                } else {
                    json!({"s": "R", "v": -1})
                }
            }
        }
    }

    fn err_class(e: &str) -> String {
        let l = e.to_lowercase();
        if l.contains("transaction id was already used") {
            "dup".into()
        } else if l.contains("the specified coin") && l.contains("doesn't exist") {
            "coin".into()
        } else if l.contains("contract") && (l.contains("doesnotexist") || l.contains("not exist") || l.contains("doesn't exist") || l.contains("not found")) {
            "contract".into()
        } else if l.contains("insufficient") || l.contains("not enough") {
            "funds".into()
        } else if l.contains("predicate") {
            "pred".into()
        } else if l.contains("height") || l.contains("not found") || l.contains("notfound") {
            "height".into()
        } else {
            format!("other:{}", short(e))
        }
    }

    fn answer(&mut self, e: &str, r: Vec<Value>, full: &str) -> Value {
        if std::env::var("VERIF_DEBUG").is_ok() {
            eprintln!("ANSWER e={e} r={r:?} full={}", full.chars().take(1500).collect::<String>());
        }
        let dg = self.ans_dg.id(hash_str(full));
        json!({"e": e, "r": r, "dg": dg})
    }

    fn dry_run(&mut self, txs: &[ATx], at: i64, uv: i64, rec: bool, gp: i64) -> Value {
        let real: Vec<Transaction> = txs.iter().map(|t| self.tx(t)).collect();
        let uvo = match uv {
            0 => Some(false),
            1 => Some(true),
            _ => None,
        };
        let gpo = if gp < 0 { None } else { Some(gp as u64) };
        let ato = if at <= 0 { None } else { Some(BlockHeight::from(at as u32)) };
        let res: Result<(Vec<TransactionExecutionStatus>, String), String> = if rec {
            self.rt
                .block_on(self.client.dry_run_opt_record_storage_reads(&real, uvo, gpo, ato))
                .map(|(s, reads)| {
                    let d = format!("{reads:?}");
                    (s, d)
                })
                .map_err(|e| e.to_string())
        } else {
            self.rt
                .block_on(self.client.dry_run_opt(&real, uvo, gpo, ato))
                .map(|s| (s, String::new()))
                .map_err(|e| e.to_string())
        };
        match res {
            Ok((st, reads)) => {
                let r = st.iter().map(|s| Self::status_json(&s.result)).collect();
                let full = format!("{st:?}|{reads}");
                self.answer("", r, &full)
            }
            Err(e) => {
                let c = Self::err_class(&e);
                self.answer(&c, vec![], &e)
            }
        }
    }

    fn estimate(&mut self, p: &str) -> Value {
        let mut tx = match p {
            "none" => self.tx(&ATx { k: "ok".into(), c: 1 }),
            "true" | "false" | "bad" => {
                let code: Vec<u8> = match p {
                    "true" => [op::ret(RegId::ONE)].into_iter().collect(),
                    "false" => [op::ret(RegId::ZERO)].into_iter().collect(),
                    // a contract instruction is not allowed in a predicate
                    _ => [op::time(0x20, RegId::ONE), op::ret(RegId::ONE)].into_iter().collect(),
                };
                let owner = Input::predicate_owner(&code);
                let mut b = TransactionBuilder::script([op::ret(RegId::ONE)].into_iter().collect(), vec![]);
                b.with_params(self.params.clone())
                    .script_gas_limit(10_000)
                    .max_fee_limit(0)
                    .add_input(Input::coin_predicate(
                        UtxoId::new([0xF1; 32].into(), 0),
                        owner,
                        AMOUNT,
                        AssetId::BASE,
                        TxPointer::default(),
                        0,
                        code,
                        vec![],
                    ))
                    .add_output(Output::change(Address::from([0x5A; 32]), 0, AssetId::BASE));
                b.finalize_as_transaction()
            }
            other => die(&format!("unknown predicate kind {other}")),
        };
        let r = self.rt.block_on(self.client.estimate_predicates(&mut tx));
        match r {
            Ok(()) => {
                let used: u64 = match &tx {
                    Transaction::Script(s) => {
                        use fuel_core_types::fuel_tx::field::Inputs;
                        s.inputs().iter().filter_map(|i| i.predicate_gas_used()).sum()
                    }
                    _ => 0,
                };
                let full = format!("{tx:?}");
                self.answer("", vec![json!({"s": "G", "v": if used > 0 { 1 } else { 0 }})], &full)
            }
            Err(e) => {
                let e = e.to_string();
                let c = Self::err_class(&e);
                self.answer(&c, vec![], &e)
            }
        }
    }

    fn assemble(&mut self, k: &str, who: &str) -> Value {
        let (script, data, _) = self.script_of(if k == "inc" { "noinp" } else { k });
        let mut b = TransactionBuilder::script(script, data);
        b.with_params(self.params.clone()).script_gas_limit(0);
        let base = b.finalize_as_transaction();
        let owner = match who {
            "A" => addr_of(&self.a),
            "B" => addr_of(&self.b),
            _ => Address::from([0x4E; 32]),
        };
        let rb = RequiredBalance {
            asset_id: AssetId::BASE,
            amount: 1,
            account: Account::Address(owner),
            change_policy: ChangePolicy::Change(owner),
        };
        let r = self.rt.block_on(self.client.assemble_tx(&base, 1, vec![rb], 0, None, false, None));
        match r {
            Ok(a) => {
                let st = Self::status_json(&a.status);
                let full = format!("{:?}|{:?}|{}", a.transaction, a.status, a.gas_price);
                self.answer("", vec![st], &full)
            }
            Err(e) => {
                let e = e.to_string();
                let c = Self::err_class(&e);
                self.answer(&c, vec![], &e)
            }
        }
    }

    fn stop(self) {
        let _ = self.rt.block_on(self.srv.send_stop_signal_and_await_shutdown());
    }
}

fn short(s: &str) -> String {
    s.chars().filter(|c| c.is_ascii() && *c != '"' && *c != '\\').take(90).collect()
}

fn atx_of(v: &Value) -> ATx {
    ATx {
        k: v["k"].as_str().unwrap_or_else(|| die("tx without k")).to_string(),
        c: v["c"].as_i64().unwrap_or_else(|| die("tx without c")),
    }
}

/// Execute one step on the node and log it.
fn exec(n: &mut Node, t: &mut Trace, s: &Map<String, Value>) {
    match s.name() {
        "Submit" => {
            let a = ATx { k: s.str_("k").to_string(), c: s.int("c") };
            let tx = n.tx(&a);
            let r = n.rt.block_on(n.client.submit(&tx));
            let res = match r {
                Ok(_) => "ok".to_string(),
                Err(e) => format!("Err:{}", short(&e.to_string())),
            };
            let st = n.state();
            t.event("Submit", json!({"k": a.k, "c": a.c, "res": res, "st": st}));
        }
        "Produce" => {
            let res = n.produce();
            let st = n.state();
            t.event("Produce", json!({"res": res, "st": st}));
        }
        "Tick" => {
            // let wall-clock time pass: answers must not depend on it
            std::thread::sleep(Duration::from_millis(1100));
            let st = n.state();
            t.event("Tick", json!({"st": st}));
        }
        "DryRun" => {
            let txs: Vec<ATx> = s
                .get("txs")
                .and_then(|v| v.as_array())
                .unwrap_or_else(|| die("DryRun without txs"))
                .iter()
                .map(atx_of)
                .collect();
            let (at, uv, rec, gp) = (s.int("at"), s.int("uv"), s.boolean("rec"), s.int("gp"));
            let pre = n.state();
            let ans = n.dry_run(&txs, at, uv, rec, gp);
            let st = n.state();
            t.event(
                "DryRun",
                json!({"txs": txs.iter().map(|x| x.json()).collect::<Vec<_>>(), "at": at, "uv": uv, "rec": rec, "gp": gp,
                       "ans": ans, "pre": pre, "st": st}),
            );
        }
        "Est" => {
            let p = s.str_("p").to_string();
            let pre = n.state();
            let ans = n.estimate(&p);
            let st = n.state();
            t.event("Est", json!({"p": p, "ans": ans, "pre": pre, "st": st}));
        }
        "Asm" => {
            let (k, who) = (s.str_("k").to_string(), s.str_("who").to_string());
            let pre = n.state();
            let ans = n.assemble(&k, &who);
            let st = n.state();
            t.event("Asm", json!({"k": k, "who": who, "ans": ans, "pre": pre, "st": st}));
        }
        other => die(&format!("unknown action {other}")),
    }
}

fn start_walk(t: &mut Trace, id: i64, ncoins: i64) -> Node {
    let mut n = Node::new(ncoins);
    let st = n.state();
    t.reset(id, json!({"st": st}));
    n
}

fn step(v: Value) -> Map<String, Value> {
    v.as_object().cloned().unwrap()
}

/// Seeded driver: block production interleaved with groups of read-only requests, many of them repeated.
fn random_walk(n: &mut Node, t: &mut Trace, rng: &mut Rng, len: u64) {
    let nc = n.ncoins;
    let mut used: Vec<i64> = Vec::new(); // coins spent by a submitted transaction
    let mut pool = 0;
    let mut history: Vec<Map<String, Value>> = Vec::new();
    let mut h = 1i64;
    for _ in 0..len {
        let x = rng.below(100);
        let free: Vec<i64> = (1..=nc).filter(|c| !used.contains(c)).collect();
        let s = if x < 10 && !free.is_empty() {
            let c = *rng.pick(&free);
            used.push(c);
            pool += 1;
            history.clear();
            step(json!({"a": "Submit", "k": *rng.pick(&["ok", "rev", "inc", "inc"]), "c": c}))
        } else if x < 20 && (pool > 0 || rng.chance(1, 3)) {
            pool = 0;
            h += 1;
            history.clear();
            step(json!({"a": "Produce"}))
        } else if x < 45 && !history.is_empty() {
            if rng.chance(1, 5) {
                exec(n, t, &step(json!({"a": "Tick"})));
            }
            rng.pick(&history).clone()
        } else if x < 52 {
            step(json!({"a": "Est", "p": *rng.pick(&["true", "false", "bad", "none"])}))
        } else if x < 62 {
            step(json!({"a": "Asm", "k": *rng.pick(&["ok", "inc", "rev"]), "who": *rng.pick(&["A", "B", "B", "N"])}))
        } else {
            let kinds = ["ok", "rev", "inc", "inc", "noctr", "noinp", "ghost"];
            let ntx = if rng.chance(1, 4) { 2 } else { 1 };
            let txs: Vec<Value> = (0..ntx)
                .map(|_| {
                    let k = *rng.pick(&kinds);
                    let c = if k == "ghost" { 0 } else { rng.range(1, nc) };
                    json!({"k": k, "c": c})
                })
                .collect();
            let at = if rng.chance(1, 2) { 0 } else { rng.range(1, h + 2) };
            step(json!({"a": "DryRun", "txs": txs, "at": at, "uv": rng.range(-1, 1), "rec": rng.chance(1, 3),
                        "gp": *rng.pick(&[-1i64, 0, 1])}))
        };
        if !matches!(s.name(), "Submit" | "Produce") {
            history.push(s.clone());
        }
        exec(n, t, &s);
    }
}

fn main() {
    let args = Args::parse();
    let ncoins = args.num("coins", 3) as i64;
    match args.mode.as_str() {
        "run" => {
            let walks = read_walks(args.req("walks"));
            let mut t = Trace::create(args.req("out"));
            for w in walks {
                let mut n = start_walk(&mut t, w.id, ncoins);
                for s in &w.steps {
                    exec(&mut n, &mut t, s);
                }
                n.stop();
            }
            t.finish();
        }
        "random" => {
            let nw = args.num("walks", 10);
            let len = args.num("len", 30);
            let mut t = Trace::create(args.req("out"));
            let mut rng = Rng::new(env_seed().wrapping_mul(7919).wrapping_add(45));
            for id in 0..nw {
                let mut n = start_walk(&mut t, id as i64, ncoins);
                random_walk(&mut n, &mut t, &mut rng, len);
                n.stop();
            }
            t.finish();
        }
        other => die(&format!("unknown mode {other}")),
    }
}
