//! Harness for C26: the real `fuel_core_sync::import::Import` (import rounds over the shared `State`
//! and the private cache) with scripted `PeerToPeerPort`, `ConsensusPort` and `BlockImporterPort` on a
//! paused single-thread tokio runtime.  The ports answer from the per-round script of the walk and log
//! every call when it answers; the harness asserts nothing.  TLC judges (specs/Trace_SyncImport.tla).
use fuel_core_services::{
    SharedMutex,
    StateWatcher,
    stream::{
        BoxStream,
        IntoBoxStream,
    },
};
use fuel_core_sync::{
    import::{
        Config,
        Import,
    },
    ports::{
        BlockImporterPort,
        ConsensusPort,
        PeerReportReason,
        PeerToPeerPort,
    },
    state::State,
};
use fuel_core_types::{
    blockchain::{
        SealedBlock,
        SealedBlockHeader,
        block::Block,
        consensus::{
            Consensus,
            poa::PoAConsensus,
        },
        header::{
            BlockHeader,
            PartialBlockHeader,
        },
        primitives::DaBlockHeight,
    },
    fuel_tx::{
        Bytes32,
        Transaction,
        policies::Policies,
    },
    fuel_types::BlockHeight,
    services::p2p::{
        PeerId,
        SourcePeer,
        Transactions,
    },
};
use h_common::*;
use serde_json::{
    Map,
    Value,
};
use std::{
    ops::Range,
    sync::{
        Arc,
        Mutex,
    },
    time::Duration,
};
use tokio::sync::Notify;

// ------------------------------------------------------------------ abstract values <-> concrete values

fn peer(p: i64) -> PeerId {
    PeerId::from(vec![p as u8; 32])
}
fn peer_no(p: &PeerId) -> i64 {
    let b: &[u8] = p.as_ref();
    b.first().copied().unwrap_or(0) as i64
}
/// the transactions of the block at height h ("m": the ones its headers commit to, "x": others)
fn txs(h: u32, matching: bool) -> Vec<Transaction> {
    let data = if matching { vec![h as u8, 0x11] } else { vec![h as u8, 0xEE, 0xEE] };
    vec![Transaction::script(0, vec![], data, Policies::new(), vec![], vec![], vec![]).into()]
}
/// header of height h, variant hv (the variant is kept in the DA height)
fn header(h: u32, hv: u64) -> SealedBlockHeader {
    let mut p = PartialBlockHeader::default();
    p.consensus.height = h.into();
    p.application.da_height = hv.into();
    let entity = p.generate(&txs(h, true), &[], Bytes32::zeroed()).unwrap_or_else(|e| die(&format!("header: {e:?}")));
    SealedBlockHeader { entity, consensus: Consensus::PoA(PoAConsensus::default()) }
}
fn hv_of(h: &BlockHeader) -> i64 {
    h.da_height().0 as i64
}

// ------------------------------------------------------------------ script + log shared with the ports

#[derive(Default)]
struct Shared {
    log: Mutex<Vec<(String, Value)>>,
    script: Mutex<Map<String, Value>>,
}

impl Shared {
    fn ev(&self, name: &str, v: Value) {
        self.log.lock().unwrap().push((name.to_string(), v));
    }
    /// script[table][key], e.g. hdr["3"]
    fn entry(&self, table: &str, key: i64) -> Option<Value> {
        self.script.lock().unwrap().get(table).and_then(|t| t.get(key.to_string())).cloned()
    }
}

async fn delay(v: &Option<Value>) {
    let d = v.as_ref().and_then(|v| v.get("delay")).and_then(|d| d.as_u64()).unwrap_or(0);
    if d > 0 {
        tokio::time::sleep(Duration::from_millis(d)).await;
    }
}

struct P2p(Arc<Shared>);

impl P2p {
    async fn transactions(&self, range: Range<u32>, from: Option<PeerId>) -> anyhow::Result<SourcePeer<Option<Vec<Transactions>>>> {
        let e = self.0.entry("txs", range.start as i64);
        delay(&e).await;
        let kind = e.as_ref().and_then(|e| e.get("kind")).and_then(|k| k.as_str()).unwrap_or("ok").to_string();
        let p = match &from {
            Some(p) => peer_no(p),
            None => e.as_ref().and_then(|e| e.get("p")).and_then(|p| p.as_i64()).unwrap_or(1),
        };
        let tv: Vec<String> = match e.as_ref().and_then(|e| e.get("tv")).and_then(|t| t.as_array()) {
            Some(a) => a.iter().map(|x| x.as_str().unwrap_or("m").to_string()).collect(),
            None => range.clone().map(|_| "m".to_string()).collect(),
        };
        let (lo, hi) = (range.start, range.end);
        match kind.as_str() {
            "err" => {
                let p = if from.is_some() { p } else { 0 };
                self.0.ev("GetTxs", json!({"lo": lo, "hi": hi, "p": p, "resp": {"kind": "err"}}));
                Err(anyhow::anyhow!("scripted p2p failure"))
            }
            "none" => {
                self.0.ev("GetTxs", json!({"lo": lo, "hi": hi, "p": p, "resp": {"kind": "none"}}));
                Ok(SourcePeer { peer_id: peer(p), data: None })
            }
            _ => {
                self.0.ev("GetTxs", json!({"lo": lo, "hi": hi, "p": p, "resp": {"kind": "ok", "tv": tv}}));
                let data = tv.iter().enumerate().map(|(j, v)| Transactions(txs(lo + j as u32, v == "m"))).collect();
                Ok(SourcePeer { peer_id: peer(p), data: Some(data) })
            }
        }
    }
}

#[async_trait::async_trait]
impl PeerToPeerPort for P2p {
    fn height_stream(&self) -> BoxStream<BlockHeight> {
        futures::stream::pending().into_boxed()
    }

    async fn get_sealed_block_headers(&self, range: Range<u32>) -> anyhow::Result<SourcePeer<Option<Vec<SealedBlockHeader>>>> {
        let e = self.0.entry("hdr", range.start as i64);
        delay(&e).await;
        let kind = e.as_ref().and_then(|e| e.get("kind")).and_then(|k| k.as_str()).unwrap_or("ok").to_string();
        let p = e.as_ref().and_then(|e| e.get("p")).and_then(|p| p.as_i64()).unwrap_or(1);
        let hs: Vec<(u32, u64)> = match e.as_ref().and_then(|e| e.get("hs")).and_then(|t| t.as_array()) {
            Some(a) => a.iter().map(|x| (x["h"].as_u64().unwrap_or(0) as u32, x["hv"].as_u64().unwrap_or(1))).collect(),
            None => range.clone().map(|h| (h, 1)).collect(),
        };
        let (lo, hi) = (range.start, range.end);
        if kind == "err" {
            self.0.ev("GetHeaders", json!({"lo": lo, "hi": hi, "p": 0, "resp": {"kind": "err"}}));
            return Err(anyhow::anyhow!("scripted p2p failure"));
        }
        let hsj: Vec<Value> = hs.iter().map(|(h, hv)| json!({"h": h, "hv": hv})).collect();
        self.0.ev("GetHeaders", json!({"lo": lo, "hi": hi, "p": p, "resp": {"kind": "ok", "hs": hsj}}));
        // an empty answer is delivered as a missing payload every other time (both mean "no headers")
        let data = if hs.is_empty() && lo % 2 == 0 { None } else { Some(hs.iter().map(|(h, hv)| header(*h, *hv)).collect()) };
        Ok(SourcePeer { peer_id: peer(p), data })
    }

    async fn get_transactions(&self, range: Range<u32>) -> anyhow::Result<SourcePeer<Option<Vec<Transactions>>>> {
        self.transactions(range, None).await
    }

    async fn get_transactions_from_peer(&self, range: SourcePeer<Range<u32>>) -> anyhow::Result<Option<Vec<Transactions>>> {
        let SourcePeer { peer_id, data } = range;
        self.transactions(data, Some(peer_id)).await.map(|r| r.data)
    }

    fn report_peer(&self, p: PeerId, report: PeerReportReason) -> anyhow::Result<()> {
        self.0.ev("Report", json!({"p": peer_no(&p), "r": format!("{report:?}")}));
        Ok(())
    }
}

struct Cons(Arc<Shared>);
impl ConsensusPort for Cons {
    fn check_sealed_header(&self, header: &SealedBlockHeader) -> anyhow::Result<bool> {
        let h = **header.entity.height() as i64;
        let e = self.0.entry("chk", h);
        let verdict = e.as_ref().and_then(|v| v.as_str().map(|s| s.to_string())).unwrap_or_else(|| match e.as_ref().and_then(|v| v.as_bool()) {
            Some(false) => "false".to_string(),
            _ => "true".to_string(),
        });
        self.0.ev("CheckHeader", json!({"h": h, "hv": hv_of(&header.entity), "res": verdict == "true"}));
        match verdict.as_str() {
            "true" => Ok(true),
            "err" => Err(anyhow::anyhow!("scripted consensus failure")),
            _ => Ok(false),
        }
    }

    async fn await_da_height(&self, _da_height: &DaBlockHeight) -> anyhow::Result<()> {
        Ok(())
    }
}

struct Exec(Arc<Shared>);
impl BlockImporterPort for Exec {
    fn committed_height_stream(&self) -> BoxStream<BlockHeight> {
        futures::stream::pending().into_boxed()
    }

    async fn execute_and_commit(&self, block: SealedBlock) -> anyhow::Result<()> {
        let h = **block.entity.header().height() as i64;
        let e = self.0.entry("exe", h);
        delay(&e).await;
        let ok = match &e {
            Some(Value::String(s)) => s == "ok",
            Some(v) => v.get("res").and_then(|r| r.as_str()).map(|s| s == "ok").unwrap_or(true),
            None => true,
        };
        let txok = Block::try_from_executed(block.entity.header().clone(), block.entity.transactions().to_vec()).is_some();
        self.0.ev("Execute", json!({"h": h, "hv": hv_of(block.entity.header()), "txok": txok, "res": ok}));
        if ok { Ok(()) } else { Err(anyhow::anyhow!("scripted execution failure")) }
    }
}

// ------------------------------------------------------------------ the driver

/// Projection of the private `status` through the public API (as h-sync does).
fn project(s: &State, max_h: u32) -> Value {
    if let Some(r) = s.process_range() {
        return json!({"k": "P", "lo": *r.start(), "hi": *r.end()});
    }
    if *s == State::new(None, None) {
        return json!({"k": "U", "lo": 0, "hi": 0});
    }
    for h in 0..=max_h.saturating_add(2) {
        if *s == State::new(Some(h), None) {
            return json!({"k": "C", "lo": h, "hi": h});
        }
    }
    json!({"k": format!("{s:?}"), "lo": -1, "hi": -1})
}

struct Node {
    sh: Arc<Shared>,
    state: SharedMutex<State>,
    notify: Arc<Notify>,
    import: Import<P2p, Exec, Cons>,
    watcher: StateWatcher,
    max_h: u32,
}

impl Node {
    fn new(size: usize, buffer: usize, max_h: u32) -> Node {
        let sh = Arc::new(Shared::default());
        let state = SharedMutex::new(State::new(Some(0), None));
        let notify = Arc::new(Notify::new());
        let import = Import::new(
            state.clone(),
            notify.clone(),
            Config { block_stream_buffer_size: buffer, header_batch_size: size },
            Arc::new(P2p(sh.clone())),
            Arc::new(Exec(sh.clone())),
            Arc::new(Cons(sh.clone())),
        );
        Node { sh, state, notify, import, watcher: StateWatcher::started(), max_h }
    }

    fn flush(&self, t: &mut Trace) {
        for (n, v) in std::mem::take(&mut *self.sh.log.lock().unwrap()) {
            t.event(&n, v);
        }
    }

    fn observe(&self, t: &mut Trace, h: i64) {
        let res = self.state.apply(|s| s.observe(h as u32));
        let st = self.state.apply(|s| project(s, self.max_h));
        t.event("Observe", json!({"h": h, "res": res, "st": st}));
    }

    async fn round(&mut self, t: &mut Trace, script: &Map<String, Value>) {
        *self.sh.script.lock().unwrap() = script.clone();
        let (lo, hi) = match self.state.apply(|s| s.process_range()) {
            Some(r) => (*r.start() as i64, *r.end() as i64),
            None => (0, -1),
        };
        t.event("Begin", json!({"lo": lo, "hi": hi}));
        // the permit makes import() return right after the round instead of waiting for the next signal
        self.notify.notify_one();
        let res = self.import.import(&mut self.watcher).await;
        // let every pipeline that was started finish: the clock is paused, sleeping lets all timers fire
        let mut quiet = 0;
        let mut seen = self.sh.log.lock().unwrap().len();
        while quiet < 3 {
            tokio::time::sleep(Duration::from_secs(3600)).await;
            for _ in 0..50 {
                tokio::task::yield_now().await;
            }
            let n = self.sh.log.lock().unwrap().len();
            if n == seen { quiet += 1 } else { quiet = 0 }
            seen = n;
        }
        self.flush(t);
        let st = self.state.apply(|s| project(s, self.max_h));
        t.event("End", json!({"res": if res.is_ok() { "Ok" } else { "Err" }, "st": st}));
    }
}

fn rt() -> tokio::runtime::Runtime {
    tokio::runtime::Builder::new_current_thread()
        .enable_time()
        .start_paused(true)
        .build()
        .unwrap_or_else(|e| die(&format!("runtime: {e}")))
}

fn run(args: &Args) {
    let walks = read_walks(args.req("walks"));
    let size = args.num("size", 2) as usize;
    let buffer = args.num("buffer", 3) as usize;
    let max_h = args.num("maxh", 8) as u32;
    let mut t = Trace::create(args.req("out"));
    for w in walks {
        t.reset(w.id, json!({}));
        let rt = rt();
        rt.block_on(async {
            let mut n = Node::new(size, buffer, max_h);
            for s in &w.steps {
                match s.name() {
                    "Observe" => n.observe(&mut t, s.int("h")),
                    "Round" => n.round(&mut t, s).await,
                    other => die(&format!("unknown action {other}")),
                }
            }
        });
    }
    t.finish();
}

/// Seeded driver: random peer scripts per round (short / mis-heighted / extra headers, invalid headers,
/// missing / mismatching / too few / extra transactions, failed requests, execution failures, delays)
/// interleaved with observed-height updates.
fn random(args: &Args) {
    let nwalks = args.num("walks", 100);
    let rounds = args.num("len", 5);
    let size = args.num("size", 2) as usize;
    let buffer = args.num("buffer", 3) as usize;
    let max_h = args.num("maxh", 8) as i64;
    let mut rng = Rng::new(env_seed() ^ 0x26_26);
    let mut t = Trace::create(args.req("out"));
    for wid in 0..nwalks {
        t.reset(wid as i64, json!({}));
        let rt = rt();
        rt.block_on(async {
            let mut n = Node::new(size, buffer, max_h as u32);
            let calm = rng.chance(1, 3); // some walks have mostly honest peers so that long ranges get through
            for _ in 0..rounds {
                if rng.chance(4, 5) {
                    n.observe(&mut t, rng.range(1, max_h));
                }
                let fault = |rng: &mut Rng| if calm { rng.chance(1, 12) } else { rng.chance(1, 3) };
                let mut hdr = Map::new();
                let mut tx = Map::new();
                let mut chk = Map::new();
                let mut exe = Map::new();
                for lo in 1..=max_h {
                    let nn = size as i64;
                    let mut e = Map::new();
                    e.insert("p".into(), json!(rng.range(1, 2)));
                    if rng.chance(1, 3) {
                        e.insert("delay".into(), json!(rng.range(1, 40)));
                    }
                    if fault(&mut rng) {
                        match rng.below(5) {
                            0 => {
                                e.insert("kind".into(), json!("err"));
                            }
                            1 => {
                                // short answer
                                let c = rng.range(0, nn - 1);
                                e.insert("hs".into(), json!((0..c).map(|j| json!({"h": lo + j, "hv": rng.range(1, 2)})).collect::<Vec<_>>()));
                            }
                            2 => {
                                // one header too high
                                let w = rng.range(0, nn - 1);
                                e.insert("hs".into(), json!((0..nn).map(|j| json!({"h": if j >= w { lo + j + 1 } else { lo + j }, "hv": 1})).collect::<Vec<_>>()));
                            }
                            3 => {
                                // extra header
                                e.insert("hs".into(), json!((0..nn + 1).map(|j| json!({"h": lo + j, "hv": rng.range(1, 2)})).collect::<Vec<_>>()));
                            }
                            _ => {
                                e.insert("hs".into(), json!((0..nn).map(|j| json!({"h": lo + j, "hv": 2})).collect::<Vec<_>>()));
                            }
                        }
                    }
                    hdr.insert(lo.to_string(), Value::Object(e));
                    let mut e = Map::new();
                    e.insert("p".into(), json!(rng.range(1, 2)));
                    if rng.chance(1, 3) {
                        e.insert("delay".into(), json!(rng.range(1, 40)));
                    }
                    if fault(&mut rng) {
                        match rng.below(5) {
                            0 => {
                                e.insert("kind".into(), json!("err"));
                            }
                            1 => {
                                e.insert("kind".into(), json!("none"));
                            }
                            2 => {
                                let c = rng.range(0, nn - 1);
                                e.insert("tv".into(), json!((0..c).map(|_| "m").collect::<Vec<_>>()));
                            }
                            3 => {
                                let w = rng.range(0, nn - 1);
                                e.insert("tv".into(), json!((0..nn).map(|j| if j == w { "x" } else { "m" }).collect::<Vec<_>>()));
                            }
                            _ => {
                                e.insert("tv".into(), json!((0..nn + 1).map(|_| "m").collect::<Vec<_>>()));
                            }
                        }
                    }
                    tx.insert(lo.to_string(), Value::Object(e));
                    if fault(&mut rng) {
                        chk.insert(lo.to_string(), if rng.chance(1, 4) { json!("err") } else { json!(false) });
                    }
                    let mut e = Map::new();
                    e.insert("res".into(), json!(if fault(&mut rng) && rng.chance(1, 2) { "err" } else { "ok" }));
                    if rng.chance(1, 3) {
                        e.insert("delay".into(), json!(rng.range(1, 40)));
                    }
                    exe.insert(lo.to_string(), Value::Object(e));
                }
                let mut script = Map::new();
                script.insert("hdr".into(), Value::Object(hdr));
                script.insert("txs".into(), Value::Object(tx));
                script.insert("chk".into(), Value::Object(chk));
                script.insert("exe".into(), Value::Object(exe));
                n.round(&mut t, &script).await;
            }
        });
    }
    t.finish();
}

fn main() {
    let args = Args::parse();
    match args.mode.as_str() {
        "run" => run(&args),
        "random" => random(&args),
        m => die(&format!("unknown mode {m}")),
    }
}
