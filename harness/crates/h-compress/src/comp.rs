//! C33: real `compress` / `decompress` over real temporal-registry storage.
//!
//! Two databases of the compression service's tables (`InMemoryStorage<MerkleizedColumn<CompressionColumn>>`,
//! fuel-core-storage's own in-memory KV): the compressor's and the decompressor's, plus an in-memory
//! on-chain database (Coins, Messages, FuelBlocks) for the decompressor's history lookups.
//! Abstract registry values (small integers; 0 = the type's default) are mapped to addresses, asset ids,
//! contract ids, script code and predicate code inside real transactions of real blocks.

use fuel_core_compression::{
    compress::compress,
    decompress::decompress,
    Config,
    VersionedBlockPayload,
    VersionedCompressedBlock,
};
use fuel_core_compression_service::{
    storage::{
        self as cstorage,
        column::CompressionColumn,
        evictor_cache::MetadataKey,
        registry_index::ReverseKey,
        timestamps::{TimestampKey, TimestampKeyspace},
        CompressedBlocks,
    },
    temporal_registry::{CompressionContext, CompressionStorageWrapper, DecompressionContext},
};
use fuel_core_storage::{
    column::Column as OnchainColumn,
    kv_store::StorageColumn,
    merkle::column::MerkleizedColumn,
    structured_storage::{test::InMemoryStorage, TableWithBlueprint},
    tables::{Coins, FuelBlocks, Messages},
    transactional::{ReadTransaction, WriteTransaction},
    StorageAsMut,
    StorageAsRef,
};
use fuel_core_types::{
    blockchain::{
        block::Block,
        header::{ApplicationHeader, ConsensusHeader, PartialBlockHeader},
        primitives::{DaBlockHeight, Empty},
        transaction::TransactionExt,
    },
    entities::{
        coins::coin::{CompressedCoin, CompressedCoinV1},
        relayer::message::{Message, MessageV1},
    },
    fuel_compression::RegistryKey,
    fuel_tx::{
        field::{InputContract, MintAssetId, Script as ScriptField},
        input::CompressedInput,
        output::CompressedOutput,
        policies::Policies,
        BlobBody,
        CompressedTransaction,
        Input,
        Output,
        StorageSlot,
        Transaction,
        TxPointer,
        UniqueIdentifier,
        UpgradePurpose,
        UploadBody,
        UtxoId,
        Witness,
    },
    fuel_types::{Address, AssetId, BlobId, BlockHeight, Bytes32, ChainId, ContractId, Nonce, Salt},
    tai64::Tai64,
};
use futures::FutureExt;
use h_common::{die, env_seed, guarded, json, read_walks, Args, Rng, StepExt, Trace};
use serde_json::{Map, Value};
use std::collections::BTreeSet;

type CStore = InMemoryStorage<MerkleizedColumn<CompressionColumn>>;
type OStore = InMemoryStorage<OnchainColumn>;

pub const KS: [&str; 5] = ["address", "asset_id", "contract_id", "script_code", "predicate_code"];
const NKEYS: i64 = (1 << 24) - 1;
const TS_BASE: u64 = (1u64 << 62) + 1_700_000_000;

/// One sequence per keyspace, in the order of `KS`.
#[derive(Default, Clone, Debug)]
struct PerKs(pub [Vec<i64>; 5]);

impl PerKs {
    fn to_json(&self) -> Value {
        let mut m = Map::new();
        for (i, ks) in KS.iter().enumerate() {
            m.insert(ks.to_string(), json!(self.0[i]));
        }
        Value::Object(m)
    }
}

// ---- abstract value <-> concrete value -------------------------------------------------------------

fn b32(v: i64) -> [u8; 32] {
    [v as u8; 32]
}
fn code(v: i64, tag: u8) -> Vec<u8> {
    if v == 0 { vec![] } else { vec![v as u8; 3 + ((v as usize + tag as usize) % 5)] }
}
/// abstract value of a concrete registry value (all bytes equal by construction); -2 = unknown
fn abs(b: &[u8]) -> i64 {
    if b.is_empty() {
        return 0;
    }
    if b.iter().all(|x| *x == b[0]) { b[0] as i64 } else { -2 }
}
fn key_i(k: &RegistryKey) -> i64 {
    if *k == RegistryKey::DEFAULT_VALUE { -1 } else { k.as_u32() as i64 }
}
fn key_of(k: i64) -> RegistryKey {
    RegistryKey::try_from(k as u32).unwrap_or_else(|e| die(&format!("bad key {k}: {e}")))
}

// ---- extractors: registry-carried values in traversal order ------------------------------------------

fn extract_input(i: &Input, o: &mut PerKs) {
    match i {
        Input::CoinSigned(_) | Input::MessageCoinSigned(_) | Input::MessageDataSigned(_) => {}
        Input::CoinPredicate(c) => o.0[4].push(abs(c.predicate.as_ref())),
        Input::Contract(c) => o.0[2].push(abs(c.contract_id.as_ref())),
        Input::MessageCoinPredicate(m) => o.0[4].push(abs(m.predicate.as_ref())),
        Input::MessageDataPredicate(m) => o.0[4].push(abs(m.predicate.as_ref())),
    }
}
fn extract_output(x: &Output, o: &mut PerKs) {
    match x {
        Output::Coin { to, asset_id, .. } | Output::Change { to, asset_id, .. } => {
            o.0[0].push(abs(to.as_ref()));
            o.0[1].push(abs(asset_id.as_ref()));
        }
        Output::Contract(_) | Output::Variable { .. } => {}
        Output::ContractCreated { contract_id, .. } => o.0[2].push(abs(contract_id.as_ref())),
    }
}
fn extract_tx(tx: &Transaction, o: &mut PerKs) {
    match tx {
        Transaction::Script(s) => o.0[3].push(abs(s.script())),
        Transaction::Mint(m) => {
            o.0[2].push(abs(m.input_contract().contract_id.as_ref()));
            o.0[1].push(abs(m.mint_asset_id().as_ref()));
        }
        _ => {}
    }
    for i in tx.inputs().iter() {
        extract_input(i, o);
    }
    for x in tx.outputs().iter() {
        extract_output(x, o);
    }
}
fn extract_block(txs: &[Transaction]) -> PerKs {
    let mut o = PerKs::default();
    for t in txs {
        extract_tx(t, &mut o);
    }
    o
}

fn refs_inputs(ins: &[CompressedInput], o: &mut PerKs) {
    for i in ins {
        match i {
            CompressedInput::CoinSigned(_)
            | CompressedInput::MessageCoinSigned(_)
            | CompressedInput::MessageDataSigned(_) => {}
            CompressedInput::CoinPredicate(c) => o.0[4].push(key_i(&c.predicate)),
            CompressedInput::Contract(c) => o.0[2].push(key_i(&c.contract_id)),
            CompressedInput::MessageCoinPredicate(m) => o.0[4].push(key_i(&m.predicate)),
            CompressedInput::MessageDataPredicate(m) => o.0[4].push(key_i(&m.predicate)),
        }
    }
}
fn refs_outputs(outs: &[CompressedOutput], o: &mut PerKs) {
    for x in outs {
        match x {
            CompressedOutput::Coin { to, asset_id, .. } | CompressedOutput::Change { to, asset_id, .. } => {
                o.0[0].push(key_i(to));
                o.0[1].push(key_i(asset_id));
            }
            CompressedOutput::Contract(_) | CompressedOutput::Variable { .. } => {}
            CompressedOutput::ContractCreated { contract_id, .. } => o.0[2].push(key_i(contract_id)),
        }
    }
}
/// keys referenced by the compressed transactions, in the same traversal order as `extract_block`
fn refs_block(txs: &[CompressedTransaction]) -> PerKs {
    let mut o = PerKs::default();
    for t in txs {
        match t {
            CompressedTransaction::Script(s) => {
                o.0[3].push(key_i(&s.body.script));
                refs_inputs(&s.inputs, &mut o);
                refs_outputs(&s.outputs, &mut o);
            }
            CompressedTransaction::Create(c) => {
                refs_inputs(&c.inputs, &mut o);
                refs_outputs(&c.outputs, &mut o);
            }
            CompressedTransaction::Mint(m) => {
                o.0[2].push(key_i(&m.input_contract.contract_id));
                o.0[1].push(key_i(&m.mint_asset_id));
            }
            CompressedTransaction::Upgrade(c) => {
                refs_inputs(&c.inputs, &mut o);
                refs_outputs(&c.outputs, &mut o);
            }
            CompressedTransaction::Upload(c) => {
                refs_inputs(&c.inputs, &mut o);
                refs_outputs(&c.outputs, &mut o);
            }
            CompressedTransaction::Blob(c) => {
                refs_inputs(&c.inputs, &mut o);
                refs_outputs(&c.outputs, &mut o);
            }
        }
    }
    o
}

fn regs_json(cb: &VersionedCompressedBlock) -> Value {
    let r = cb.registrations();
    json!({
        "address": r.address.iter().map(|(k, v)| json!([key_i(k), abs(v.as_ref())])).collect::<Vec<_>>(),
        "asset_id": r.asset_id.iter().map(|(k, v)| json!([key_i(k), abs(v.as_ref())])).collect::<Vec<_>>(),
        "contract_id": r.contract_id.iter().map(|(k, v)| json!([key_i(k), abs(v.as_ref())])).collect::<Vec<_>>(),
        "script_code": r.script_code.iter().map(|(k, v)| json!([key_i(k), abs(v.as_ref())])).collect::<Vec<_>>(),
        "predicate_code": r.predicate_code.iter().map(|(k, v)| json!([key_i(k), abs(v.as_ref())])).collect::<Vec<_>>(),
    })
}

// ---- projection of a registry database -------------------------------------------------------------

/// raw keys present in a table column of the in-memory KV
fn raw_keys(st: &CStore, col: u32) -> BTreeSet<i64> {
    st.storage()
        .keys()
        .filter(|(c, _)| *c == col)
        .filter_map(|(_, k)| RegistryKey::try_from(k.as_slice()).ok())
        .map(|k| key_i(&k))
        .collect()
}

macro_rules! project_ks {
    ($st:expr, $vals:expr, $table:ty, $raw:ty, $tsks:expr, $meta:expr, $rev:expr) => {{
        let rt = $st.read_transaction();
        let col = <$raw as TableWithBlueprint>::column().id();
        let mut reg = Vec::new();
        for k in raw_keys($st, col) {
            let key = key_of(k);
            let v = rt.storage_as_ref::<$table>().get(&key).ok().flatten().map(|v| {
                let v = v.into_owned();
                let b: &[u8] = v.as_ref();
                abs(b)
            });
            let ts = rt
                .storage_as_ref::<cstorage::Timestamps>()
                .get(&TimestampKey { keyspace: $tsks, key })
                .ok()
                .flatten()
                .map(|t| t.into_owned().0 as i64 - TS_BASE as i64);
            reg.push(json!({"k": k, "v": v.unwrap_or(-3), "ts": ts.unwrap_or(-3)}));
        }
        let mut idx = Vec::new();
        for v in $vals.iter() {
            if *v == 0 {
                continue;
            }
            let rk: ReverseKey = $rev(*v);
            if let Some(k) = rt.storage_as_ref::<cstorage::RegistryIndex>().get(&rk).ok().flatten() {
                idx.push(json!({"v": v, "k": key_i(&k.into_owned())}));
            }
        }
        let latest = rt
            .storage_as_ref::<cstorage::EvictorCache>()
            .get(&$meta)
            .ok()
            .flatten()
            .map(|k| key_i(&k.into_owned()))
            .unwrap_or(-1);
        (Value::Array(reg), Value::Array(idx), latest)
    }};
}

/// (reg, idx, latest) per keyspace
fn project(st: &CStore, vals: &BTreeSet<i64>) -> (Value, Value, Value) {
    let a = project_ks!(st, vals, cstorage::Address, cstorage::address::Address, TimestampKeyspace::Address,
        MetadataKey::Address, |v: i64| ReverseKey::from(&Address::from(b32(v))));
    let s = project_ks!(st, vals, cstorage::AssetId, cstorage::asset_id::AssetId, TimestampKeyspace::AssetId,
        MetadataKey::AssetId, |v: i64| ReverseKey::from(&AssetId::from(b32(v))));
    let c = project_ks!(st, vals, cstorage::ContractId, cstorage::contract_id::ContractId,
        TimestampKeyspace::ContractId, MetadataKey::ContractId, |v: i64| ReverseKey::from(&ContractId::from(b32(v))));
    let sc = project_ks!(st, vals, cstorage::ScriptCode, cstorage::script_code::ScriptCode,
        TimestampKeyspace::ScriptCode, MetadataKey::ScriptCode,
        |v: i64| ReverseKey::from(&fuel_core_types::fuel_tx::ScriptCode::from(code(v, 0))));
    let p = project_ks!(st, vals, cstorage::PredicateCode, cstorage::predicate_code::PredicateCode,
        TimestampKeyspace::PredicateCode, MetadataKey::PredicateCode,
        |v: i64| ReverseKey::from(&fuel_core_types::fuel_tx::input::PredicateCode::from(code(v, 1))));
    let all = [a, s, c, sc, p];
    let mut reg = Map::new();
    let mut idx = Map::new();
    let mut latest = Map::new();
    for (i, (r, x, l)) in all.into_iter().enumerate() {
        reg.insert(KS[i].to_string(), r);
        idx.insert(KS[i].to_string(), x);
        latest.insert(KS[i].to_string(), json!(l));
    }
    (Value::Object(reg), Value::Object(idx), Value::Object(latest))
}

// ---- the system under test ---------------------------------------------------------------------------

struct Sys {
    cfg: Config,
    chain_id: ChainId,
    cstore: CStore,
    dstore: CStore,
    onchain: OStore,
    /// tx ids of the dummy transactions of the on-chain blocks 0 and 1 (coins spent by the generated blocks
    /// were created there)
    origin_tx: [Bytes32; 2],
    height: u32,
    /// (height, original block, filled) of compressed blocks not yet decompressed
    pending: std::collections::VecDeque<(u32, Block, bool)>,
    vals: BTreeSet<i64>,
    nonce: u64,
}

fn header(height: u32, ts: i64, rng: &mut Rng) -> PartialBlockHeader {
    PartialBlockHeader {
        application: ApplicationHeader {
            da_height: DaBlockHeight(rng.below(1 << 40)),
            consensus_parameters_version: rng.below(1 << 20) as u32,
            state_transition_bytecode_version: rng.below(1 << 20) as u32,
            generated: Empty,
        },
        consensus: ConsensusHeader {
            prev_root: Bytes32::from(rnd32(rng)),
            height: BlockHeight::from(height),
            time: Tai64((TS_BASE as i64 + ts) as u64),
            generated: Empty,
        },
    }
}

fn rnd32(rng: &mut Rng) -> [u8; 32] {
    let mut b = [0u8; 32];
    for c in b.chunks_mut(8) {
        c.copy_from_slice(&rng.next().to_le_bytes());
    }
    b[0] |= 0x80; // never collides with an abstract registry value (all bytes equal, small)
    b[1] = 0x01;
    b
}
fn rnd_bytes(rng: &mut Rng, max: u64) -> Vec<u8> {
    (0..rng.below(max + 1)).map(|_| rng.below(256) as u8).collect()
}

impl Sys {
    fn new(retention: u64, rng: &mut Rng) -> Self {
        let chain_id = ChainId::new(rng.below(1000));
        let mut onchain = OStore::default();
        let mut origin_tx = [Bytes32::zeroed(); 2];
        for h in 0..2u32 {
            let tx: Transaction =
                Transaction::script(h as u64 + 1, vec![h as u8 + 7], vec![], Policies::new(), vec![], vec![], vec![])
                    .into();
            origin_tx[h as usize] = tx.id(&chain_id);
            let blk = Block::new(header(h, 0, rng), vec![tx], &[], Bytes32::zeroed()).expect("origin block");
            let mut t = onchain.write_transaction();
            t.storage_as_mut::<FuelBlocks>().insert(&BlockHeight::from(h), &blk.compress(&chain_id)).unwrap();
            t.commit().unwrap();
        }
        Sys {
            cfg: Config { temporal_registry_retention: std::time::Duration::from_secs(retention) },
            chain_id,
            cstore: CStore::default(),
            dstore: CStore::default(),
            onchain,
            origin_tx,
            height: 2,
            pending: Default::default(),
            vals: BTreeSet::new(),
            nonce: 1,
        }
    }

    fn state(&self) -> Value {
        let (creg, cidx, clatest) = project(&self.cstore, &self.vals);
        let (dreg, didx, _) = project(&self.dstore, &self.vals);
        json!({"creg": creg, "cidx": cidx, "clatest": clatest, "dreg": dreg, "didx": didx})
    }

    fn jump(&mut self, ks: &str, k: i64) {
        let key = key_of(k);
        let meta = match ks {
            "address" => MetadataKey::Address,
            "asset_id" => MetadataKey::AssetId,
            "contract_id" => MetadataKey::ContractId,
            "script_code" => MetadataKey::ScriptCode,
            "predicate_code" => MetadataKey::PredicateCode,
            _ => die("bad keyspace"),
        };
        let mut t = self.cstore.write_transaction();
        t.storage_as_mut::<cstorage::EvictorCache>().insert(&meta, &key).unwrap();
        t.commit().unwrap();
    }

    // -- block construction ------------------------------------------------------------------------

    fn message_input(&mut self, rng: &mut Rng, pred: Option<i64>, with_data: bool) -> Input {
        let nonce = {
            self.nonce += 1;
            let mut n = rnd32(rng);
            n[..8].copy_from_slice(&self.nonce.to_be_bytes());
            Nonce::from(n)
        };
        let sender = Address::from(rnd32(rng));
        let recipient = Address::from(rnd32(rng));
        let amount = rng.next() >> 8;
        let data = if with_data { let mut d = rnd_bytes(rng, 12); d.push(1); d } else { vec![] };
        let msg: Message = MessageV1 { sender, recipient, nonce, amount, data: data.clone(), da_height: DaBlockHeight(3) }.into();
        let mut t = self.onchain.write_transaction();
        t.storage_as_mut::<Messages>().insert(&nonce, &msg).unwrap();
        t.commit().unwrap();
        match (pred, with_data) {
            (Some(p), false) => Input::message_coin_predicate(sender, recipient, amount, nonce, rng.below(1 << 30), code(p, 1), rnd_bytes(rng, 9)),
            (Some(p), true) => Input::message_data_predicate(sender, recipient, amount, nonce, rng.below(1 << 30), data, code(p, 1), rnd_bytes(rng, 9)),
            (None, false) => Input::message_coin_signed(sender, recipient, amount, nonce, rng.below(4) as u16),
            (None, true) => Input::message_data_signed(sender, recipient, amount, nonce, rng.below(4) as u16, data),
        }
    }

    fn coin_input(&mut self, rng: &mut Rng, pred: Option<i64>, filled: bool) -> Input {
        self.nonce += 1;
        let origin = if filled { 1 } else { 0 };
        let utxo = UtxoId::new(self.origin_tx[origin], (self.nonce % 60000) as u16);
        let tx_pointer = TxPointer::new(BlockHeight::from(origin as u32), 0);
        let owner = Address::from(rnd32(rng));
        let asset_id = AssetId::from(rnd32(rng));
        let amount = rng.next() >> 8;
        let coin: CompressedCoin = CompressedCoinV1 { owner, amount, asset_id, tx_pointer }.into();
        let mut t = self.onchain.write_transaction();
        t.storage_as_mut::<Coins>().insert(&utxo, &coin).unwrap();
        t.commit().unwrap();
        match pred {
            Some(p) => Input::coin_predicate(utxo, owner, amount, asset_id, tx_pointer, rng.below(1 << 30), code(p, 1), rnd_bytes(rng, 9)),
            None => Input::coin_signed(utxo, owner, amount, asset_id, tx_pointer, rng.below(4) as u16),
        }
    }

    /// A block whose registry-carried values, per keyspace and in traversal order, are `seqs` (possibly
    /// padded with default values).  `filled`: the fields the executor fills in (and compression skips)
    /// hold non-default values.
    fn build_block(&mut self, height: u32, ts: i64, seqs: &PerKs, rng: &mut Rng, filled: bool) -> Block {
        let [a, s, c, sc, p] = seqs.0.clone();
        // contract ids: inputs first, then created outputs, optionally the last one in the mint
        let mut c_rest = c.clone();
        let mint_contract = if !c_rest.is_empty() && rng.chance(1, 3) { c_rest.pop().unwrap() } else { 0 };
        let n_in = rng.below(c_rest.len() as u64 + 1) as usize;
        let c_out = c_rest.split_off(n_in);
        let c_in = c_rest;
        let mut s_rest = s.clone();
        let mint_asset = if !s_rest.is_empty() && rng.chance(1, 3) { s_rest.pop().unwrap() } else { 0 };

        // inputs of the first transaction: predicates and contracts merged (each in order) + signed inputs
        let mut inputs = Vec::new();
        let (mut pi, mut ci) = (0, 0);
        while pi < p.len() || ci < c_in.len() {
            if rng.chance(1, 4) {
                let i = if rng.chance(1, 2) { self.coin_input(rng, None, filled) } else { let d = rng.chance(1, 2); self.message_input(rng, None, d) };
                inputs.push(i);
            }
            let take_p = pi < p.len() && (ci >= c_in.len() || rng.chance(1, 2));
            if take_p {
                let v = p[pi];
                pi += 1;
                let i = match rng.below(3) {
                    0 => self.coin_input(rng, Some(v), filled),
                    1 => self.message_input(rng, Some(v), false),
                    _ => self.message_input(rng, Some(v), true),
                };
                inputs.push(i);
            } else {
                let v = c_in[ci];
                ci += 1;
                let (utxo, br, sr, tp) = if filled {
                    (UtxoId::new(Bytes32::from(rnd32(rng)), rng.below(100) as u16), Bytes32::from(rnd32(rng)),
                     Bytes32::from(rnd32(rng)), TxPointer::new(BlockHeight::from(rng.below(1000) as u32), rng.below(50) as u16))
                } else {
                    (UtxoId::default(), Bytes32::zeroed(), Bytes32::zeroed(), TxPointer::default())
                };
                inputs.push(Input::contract(utxo, br, sr, tp, ContractId::from(b32(v))));
            }
        }
        // outputs: coin / change carry one address and one asset id each
        let mut outputs = Vec::new();
        let (mut ai, mut si, mut oi) = (0, 0, 0);
        while ai < a.len() || si < s_rest.len() || oi < c_out.len() {
            if rng.chance(1, 5) {
                outputs.push(if rng.chance(1, 2) {
                    if filled {
                        Output::variable(Address::from(rnd32(rng)), rng.next() >> 8, AssetId::from(rnd32(rng)))
                    } else {
                        Output::variable(Address::zeroed(), 0, AssetId::zeroed())
                    }
                } else if filled {
                    Output::contract(rng.below(4) as u16, Bytes32::from(rnd32(rng)), Bytes32::from(rnd32(rng)))
                } else {
                    Output::contract(rng.below(4) as u16, Bytes32::zeroed(), Bytes32::zeroed())
                });
            }
            let take_c = oi < c_out.len() && ((ai >= a.len() && si >= s_rest.len()) || rng.chance(1, 3));
            if take_c {
                outputs.push(Output::contract_created(ContractId::from(b32(c_out[oi])), Bytes32::from(rnd32(rng))));
                oi += 1;
            } else {
                let to = if ai < a.len() { ai += 1; a[ai - 1] } else { 0 };
                let asset = if si < s_rest.len() { si += 1; s_rest[si - 1] } else { 0 };
                if rng.chance(1, 2) {
                    outputs.push(Output::coin(Address::from(b32(to)), rng.next() >> 8, AssetId::from(b32(asset))));
                } else {
                    let amount = if filled { rng.next() >> 8 } else { 0 };
                    outputs.push(Output::change(Address::from(b32(to)), amount, AssetId::from(b32(asset))));
                }
            }
        }
        let witnesses: Vec<Witness> = (0..rng.below(3)).map(|_| Witness::from(rnd_bytes(rng, 20))).collect();
        let mut policies = Policies::new();
        if rng.chance(1, 2) { policies = policies.with_tip(rng.below(1 << 20)); }
        if rng.chance(1, 2) { policies = policies.with_max_fee(rng.below(1 << 40)); }
        if rng.chance(1, 3) { policies = policies.with_maturity(BlockHeight::from(rng.below(1 << 20) as u32)); }
        if rng.chance(1, 3) { policies = policies.with_witness_limit(rng.below(1 << 20)); }

        let mut txs: Vec<Transaction> = Vec::new();
        // first transaction: a script when there is script code to carry, otherwise any kind
        let kind = if sc.is_empty() { rng.below(6) } else { 0 };
        let first: Transaction = match kind {
            0 | 5 => {
                let mut t = Transaction::script(rng.below(1 << 30), code(sc.first().copied().unwrap_or(0), 0),
                    rnd_bytes(rng, 16), policies, inputs, outputs, witnesses);
                if filled {
                    use fuel_core_types::fuel_tx::field::ReceiptsRoot;
                    *t.receipts_root_mut() = Bytes32::from(rnd32(rng));
                }
                t.into()
            }
            1 => Transaction::create(rng.below(3) as u16, policies, Salt::from(rnd32(rng)),
                    (0..rng.below(3)).map(|_| StorageSlot::new(Bytes32::from(rnd32(rng)), Bytes32::from(rnd32(rng)))).collect(),
                    inputs, outputs, witnesses).into(),
            2 => Transaction::upgrade(
                    if rng.chance(1, 2) { UpgradePurpose::StateTransition { root: Bytes32::from(rnd32(rng)) } }
                    else { UpgradePurpose::ConsensusParameters { witness_index: rng.below(3) as u16, checksum: Bytes32::from(rnd32(rng)) } },
                    policies, inputs, outputs, witnesses).into(),
            3 => Transaction::upload(UploadBody { root: Bytes32::from(rnd32(rng)), witness_index: rng.below(3) as u16,
                    subsection_index: rng.below(5) as u16, subsections_number: 5 + rng.below(5) as u16,
                    proof_set: (0..rng.below(3)).map(|_| Bytes32::from(rnd32(rng))).collect() },
                    policies, inputs, outputs, witnesses).into(),
            _ => Transaction::blob(BlobBody { id: BlobId::from(rnd32(rng)), witness_index: rng.below(3) as u16 },
                    policies, inputs, outputs, witnesses).into(),
        };
        txs.push(first);
        for v in sc.iter().skip(1) {
            txs.push(Transaction::script(rng.below(1 << 30), code(*v, 0), rnd_bytes(rng, 8), Policies::new(), vec![], vec![], vec![]).into());
        }
        let mint = Transaction::mint(
            TxPointer::new(BlockHeight::from(height), txs.len() as u16),
            fuel_core_types::fuel_tx::input::contract::Contract {
                utxo_id: UtxoId::default(), balance_root: Bytes32::zeroed(), state_root: Bytes32::zeroed(),
                tx_pointer: TxPointer::default(), contract_id: ContractId::from(b32(mint_contract)),
            },
            fuel_core_types::fuel_tx::output::contract::Contract {
                input_index: 0, balance_root: Bytes32::zeroed(), state_root: Bytes32::zeroed(),
            },
            rng.next() >> 8,
            AssetId::from(b32(mint_asset)),
            rng.below(1 << 30),
        );
        txs.push(mint.into());
        Block::new(header(height, ts, rng), txs, &[], Bytes32::from(rnd32(rng))).expect("block")
    }

    // -- actions -------------------------------------------------------------------------------------

    fn compress_block(&mut self, t: &mut Trace, seqs: &PerKs, ts: i64, rng: &mut Rng, filled: bool) {
        let height = self.height;
        let block = self.build_block(height, ts, seqs, rng, filled);
        let used = extract_block(block.transactions());
        for s in used.0.iter() {
            self.vals.extend(s.iter().copied());
        }
        let cfg = self.cfg;
        let chain_id = self.chain_id;
        let cstore = &mut self.cstore;
        let r = guarded(|| -> Result<VersionedCompressedBlock, String> {
            let mut tx = cstore.write_transaction();
            let ctx = CompressionContext::create_from_block(&mut tx, &block, chain_id).map_err(|e| e.to_string())?;
            let cb = compress(&cfg, ctx, &block)
                .now_or_never()
                .ok_or_else(|| "compress future pending".to_string())?
                .map_err(|e| e.to_string())?;
            tx.storage_as_mut::<CompressedBlocks>().insert(&BlockHeight::from(height), &cb).map_err(|e| e.to_string())?;
            tx.commit().map_err(|e| e.to_string())?;
            Ok(cb)
        });
        let empty = PerKs::default().to_json();
        let (res, regs, refs, why) = match r {
            Ok(Ok(cb)) => {
                self.height += 1;
                self.pending.push_back((height, block, filled));
                ("Ok".to_string(), regs_json(&cb), refs_block(&cb.transactions()).to_json(), String::new())
            }
            Ok(Err(e)) => ("Err".to_string(), empty.clone(), empty.clone(), e),
            Err(p) => ("Panic".to_string(), empty.clone(), empty, p),
        };
        t.event("CompressBlock", json!({"ts": ts, "used": used.to_json(), "filled": filled, "res": res, "why": why,
            "regs": regs, "refs": refs, "st": self.state()}));
    }

    fn decompress_block(&mut self, t: &mut Trace) {
        let Some((height, orig, filled)) = self.pending.pop_front() else {
            t.event("DecompressBlock", json!({"res": "Empty", "st": self.state()}));
            return;
        };
        let cfg = self.cfg;
        let chain_id = self.chain_id;
        let (cstore, dstore, onchain) = (&self.cstore, &mut self.dstore, &self.onchain);
        let r = guarded(|| -> Result<fuel_core_types::blockchain::block::PartialFuelBlock, String> {
            // the compressed block as persisted by the compressor (postcard-encoded CompressedBlocks table)
            let cb = cstore
                .read_transaction()
                .storage_as_ref::<CompressedBlocks>()
                .get(&BlockHeight::from(height))
                .map_err(|e| e.to_string())?
                .ok_or_else(|| "compressed block missing".to_string())?
                .into_owned();
            let mut tx = dstore.write_transaction();
            let ctx = DecompressionContext {
                compression_storage: CompressionStorageWrapper { storage_tx: &mut tx },
                onchain_db: onchain.read_transaction(),
            };
            let out = decompress(cfg, ctx, cb)
                .now_or_never()
                .ok_or_else(|| "decompress future pending".to_string())?
                .map_err(|e| e.to_string())?;
            tx.commit().map_err(|e| e.to_string())?;
            Ok(out)
        });
        match r {
            Ok(Ok(pb)) => {
                let out = extract_block(&pb.transactions);
                let hdr = pb.header == PartialBlockHeader::from(orig.header());
                let txs = if !filled {
                    pb.transactions.as_slice() == orig.transactions()
                } else {
                    pb.transactions.len() == orig.transactions().len()
                        && pb.transactions.iter().zip(orig.transactions()).all(|(x, y)| x.id(&chain_id) == y.id(&chain_id))
                };
                t.event("DecompressBlock", json!({"res": "Ok", "why": "", "out": out.to_json(), "hdr": hdr, "txs": txs,
                    "filled": filled, "st": self.state()}));
            }
            Ok(Err(e)) => t.event("DecompressBlock", json!({"res": "Err", "why": e, "out": PerKs::default().to_json(),
                "hdr": true, "txs": true, "filled": filled, "st": self.state()})),
            Err(p) => t.event("DecompressBlock", json!({"res": "Panic", "why": p, "out": PerKs::default().to_json(),
                "hdr": true, "txs": true, "filled": filled, "st": self.state()})),
        }
    }
}

fn seqs_of(v: Option<&Value>) -> PerKs {
    let mut o = PerKs::default();
    if let Some(Value::Object(m)) = v {
        for (i, ks) in KS.iter().enumerate() {
            if let Some(Value::Array(a)) = m.get(*ks) {
                o.0[i] = a.iter().map(|x| x.as_i64().unwrap_or(0)).collect();
            }
        }
    }
    o
}

fn retention(args: &Args) -> u64 {
    args.num("retention", 2)
}

/// `c33-run --walks W --out T [--retention R]`: behaviours produced by TLC
pub fn run(args: &Args) {
    let walks = read_walks(args.req("walks"));
    let mut t = Trace::create(args.req("out"));
    let r = retention(args);
    for w in walks {
        let mut rng = Rng::new(env_seed() ^ (w.id as u64).wrapping_mul(0x51ED));
        let mut sys = Sys::new(r, &mut rng);
        t.reset(w.id, json!({"nkeys": NKEYS, "retention": r}));
        for s in &w.steps {
            match s.name() {
                "CompressBlock" => {
                    let seqs = seqs_of(s.get("used"));
                    let filled = s.get("filled").and_then(|v| v.as_bool()).unwrap_or(false);
                    sys.compress_block(&mut t, &seqs, s.int("ts"), &mut rng, filled)
                }
                "DecompressBlock" => sys.decompress_block(&mut t),
                "Jump" => {
                    sys.jump(s.str_("ks"), s.int("k"));
                    t.event("Jump", json!({"ks": s.str_("ks"), "k": s.int("k"), "st": sys.state()}));
                }
                a => die(&format!("unknown action {a}")),
            }
        }
    }
    t.finish();
}

/// `c33-random --walks N --len L --out T`: seeded block sequences with repeated and fresh values, timestamps
/// spanning the retention window, the cursor parked near the end of the key space and moved back into the
/// occupied region so that wrap-around, eviction and overwriting happen within a few blocks
pub fn random(args: &Args) {
    let n = args.num("walks", 50);
    let len = args.num("len", 14);
    let r = retention(args);
    let mut t = Trace::create(args.req("out"));
    for w in 0..n {
        let mut rng = Rng::new(env_seed().wrapping_mul(7919) ^ (w + 1).wrapping_mul(0x9E37));
        let mut sys = Sys::new(r, &mut rng);
        t.reset(w as i64, json!({"nkeys": NKEYS, "retention": r}));
        let nvals = 3 + rng.below(5) as i64; // pool of values this walk draws from
        let mut fresh = nvals;
        let mut ts: i64 = rng.below(3) as i64;
        let window = [NKEYS - 3, NKEYS - 2, NKEYS - 1, 0, 1, 2];
        for ks in KS.iter() {
            if rng.chance(3, 4) {
                let k = NKEYS - 1 - rng.below(3) as i64;
                sys.jump(ks, k);
                t.event("Jump", json!({"ks": ks, "k": k, "st": sys.state()}));
            }
        }
        let lag = 1 + rng.below(3) as usize;
        for _ in 0..len {
            match rng.below(10) {
                0 => {
                    let ks = *rng.pick(&KS);
                    let k = *rng.pick(&window);
                    sys.jump(ks, k);
                    t.event("Jump", json!({"ks": ks, "k": k, "st": sys.state()}));
                }
                1 | 2 if !sys.pending.is_empty() => sys.decompress_block(&mut t),
                _ => {
                    if sys.pending.len() >= lag {
                        sys.decompress_block(&mut t);
                    }
                    let mut seqs = PerKs::default();
                    for i in 0..5 {
                        let l = if rng.chance(1, 5) { 0 } else { rng.below(5) };
                        for _ in 0..l {
                            let v = match rng.below(12) {
                                0 => 0,
                                1 if fresh < 200 => { fresh += 1; fresh }
                                _ => 1 + rng.below(nvals as u64) as i64,
                            };
                            seqs.0[i].push(v);
                        }
                    }
                    // timestamps: mostly forward by 0..retention+2, rarely backwards
                    ts = if rng.chance(1, 15) { (ts - 1 - rng.below(2) as i64).max(0) } else { ts + rng.below(r + 3) as i64 };
                    let filled = rng.chance(1, 4);
                    sys.compress_block(&mut t, &seqs, ts, &mut rng, filled);
                }
            }
        }
        while !sys.pending.is_empty() {
            sys.decompress_block(&mut t);
        }
    }
    t.finish();
}
