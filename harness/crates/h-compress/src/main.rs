//! h-compress — action interpreter for
//!   C33  DA compression (fuel-core-compression `compress` / `decompress` over the compression
//!        service's temporal-registry storage tables on an in-memory KV), modes `c33-run`, `c33-random`
//!   C43  block aggregator (fuel <-> protobuf conversions and StorageDB / StorageBlocksProvider),
//!        modes `c43-run`, `c43-sweep`, `c43-random`
//! It executes actions on the real objects and logs events; TLC judges (specs/Trace_Compression.tla,
//! specs/Trace_BlockAgg.tla).

mod agg;
mod comp;

use h_common::{die, Args};

fn main() {
    let args = Args::parse();
    match args.mode.as_str() {
        "c33-run" => comp::run(&args),
        "c33-random" => comp::random(&args),
        "c43-run" => agg::run(&args),
        "c43-sweep" => agg::sweep(&args),
        "c43-random" => agg::random(&args),
        m => die(&format!("unknown mode {m}")),
    }
}
