//! C43: block aggregator — real fuel <-> protobuf conversions around the real StorageDB /
//! StorageBlocksProvider over a shared in-memory KV.
//!
//! A payload SHAPE (transaction kind, input kinds, output kinds, receipt kinds, policy bits) is instantiated
//! with seeded field values; Store: block --ProtobufBlockConverter::convert_block--> bytes (prost) --
//! StorageDB::store_block; GetRange: StorageBlocksProvider::get_block_range --> bytes --prost decode-->
//! fuel_block_from_protobuf --> block, compared component by component with the block that was submitted
//! for that height (the comparison results are logged; TLC judges them).

use fuel_core_block_aggregator_api::{
    block_range_response::BlockRangeResponse,
    blocks::old_block_source::{
        convertor_adapter::{proto_to_fuel_conversions::fuel_block_from_protobuf, ProtobufBlockConverter},
        BlockConverter,
    },
    db::{
        storage_db::{StorageBlocksProvider, StorageDB},
        table::Column,
        BlocksProvider,
        BlocksStorage,
    },
    protobuf_types::Block as ProtoBlock,
};
use fuel_core_storage::{
    kv_store::{KeyValueInspect, StorageColumn, Value as KvValue, WriteOperation},
    transactional::{AtomicView, Changes, Modifiable},
    Result as StorageResult,
};
use fuel_core_types::{
    blockchain::{
        block::Block,
        header::{ApplicationHeader, ConsensusHeader, PartialBlockHeader},
        primitives::{DaBlockHeight, Empty},
        transaction::TransactionExt,
    },
    fuel_asm::{PanicInstruction, PanicReason},
    fuel_tx::{
        field::Policies as PoliciesField,
        policies::{Policies, PolicyType},
        BlobBody,
        Input,
        Output,
        Receipt,
        ScriptExecutionResult,
        StorageSlot,
        Transaction,
        TxPointer,
        UpgradePurpose,
        UploadBody,
        UtxoId,
        Witness,
    },
    fuel_types::{Address, AssetId, BlobId, BlockHeight, Bytes32, ContractId, Nonce, Salt, SubAssetId},
    tai64::Tai64,
};
use futures::{FutureExt, StreamExt};
use h_common::{die, env_seed, guarded, json, read_walks, Args, Rng, StepExt, Trace};
use prost::Message as _;
use serde_json::{Map, Value};
use std::{
    collections::BTreeMap,
    sync::{Arc, Mutex},
};

// ---- shared in-memory KV (writer = StorageDB, reader = StorageBlocksProvider) ------------------------------

#[derive(Clone, Default)]
pub struct SharedKv(Arc<Mutex<BTreeMap<(u32, Vec<u8>), KvValue>>>);

impl KeyValueInspect for SharedKv {
    type Column = Column;
    fn get(&self, key: &[u8], column: Self::Column) -> StorageResult<Option<KvValue>> {
        Ok(self.0.lock().unwrap().get(&(column.id(), key.to_vec())).cloned())
    }
}
impl Modifiable for SharedKv {
    fn commit_changes(&mut self, changes: Changes) -> StorageResult<()> {
        let mut m = self.0.lock().unwrap();
        for (column, ops) in changes.into_iter() {
            for (key, op) in ops {
                let key: Vec<u8> = key.into();
                match op {
                    WriteOperation::Insert(v) => {
                        m.insert((column, key), v);
                    }
                    WriteOperation::Remove => {
                        m.remove(&(column, key));
                    }
                }
            }
        }
        Ok(())
    }
}
impl AtomicView for SharedKv {
    type LatestView = SharedKv;
    fn latest_view(&self) -> StorageResult<Self::LatestView> {
        Ok(SharedKv(Arc::new(Mutex::new(self.0.lock().unwrap().clone()))))
    }
}

// ---- shapes ---------------------------------------------------------------------------------------------

#[derive(Clone, Debug, Default)]
struct Shape {
    tx: String,
    ins: Vec<String>,
    outs: Vec<String>,
    rcs: Vec<String>,
    pol: u32,
}

fn strs(v: Option<&Value>) -> Vec<String> {
    v.and_then(|x| x.as_array())
        .map(|a| a.iter().map(|s| s.as_str().unwrap_or("?").to_string()).collect())
        .unwrap_or_default()
}
fn shape_of(v: Option<&Value>) -> Shape {
    let Some(Value::Object(m)) = v else { die("step without shape p") };
    Shape {
        tx: m.get("tx").and_then(|x| x.as_str()).unwrap_or("Script").to_string(),
        ins: strs(m.get("ins")),
        outs: strs(m.get("outs")),
        rcs: strs(m.get("rcs")),
        pol: m.get("pol").and_then(|x| x.as_u64()).unwrap_or(0) as u32,
    }
}
fn shape_json(s: &Shape) -> Value {
    json!({"tx": s.tx, "ins": s.ins, "outs": s.outs, "rcs": s.rcs, "pol": s.pol})
}

/// deterministic choices for enum-valued fields (sweep mode); None = seeded
#[derive(Clone, Debug, Default)]
struct Over {
    panic_reason: Option<u8>,
    script_result: Option<u8>,
    data_some: Option<bool>,
    panic_cid: Option<bool>,
    purpose: Option<u8>,
    extreme: bool,
}

fn r32(rng: &mut Rng) -> [u8; 32] {
    let mut b = [0u8; 32];
    for c in b.chunks_mut(8) {
        c.copy_from_slice(&rng.next().to_le_bytes());
    }
    b[0] |= 1;
    b
}
fn word(rng: &mut Rng, ex: bool) -> u64 {
    if ex { u64::MAX - rng.below(2) } else { rng.next() | 1 }
}
fn idx16(rng: &mut Rng, ex: bool) -> u16 {
    if ex { u16::MAX } else { 1 + rng.below(1000) as u16 }
}
fn bytes(rng: &mut Rng, ex: bool) -> Vec<u8> {
    if ex { vec![] } else { (0..1 + rng.below(24)).map(|_| rng.below(256) as u8).collect() }
}
fn utxo(rng: &mut Rng, ex: bool) -> UtxoId {
    UtxoId::new(Bytes32::from(r32(rng)), idx16(rng, ex))
}
fn txp(rng: &mut Rng, ex: bool) -> TxPointer {
    TxPointer::new(BlockHeight::from(if ex { u32::MAX } else { 1 + rng.below(1 << 30) as u32 }), idx16(rng, ex))
}

fn mk_input(kind: &str, rng: &mut Rng, ex: bool) -> Input {
    let a = |rng: &mut Rng| Address::from(r32(rng));
    match kind {
        "CoinSigned" => Input::coin_signed(utxo(rng, ex), a(rng), word(rng, ex), AssetId::from(r32(rng)), txp(rng, ex), idx16(rng, ex)),
        "CoinPredicate" => Input::coin_predicate(utxo(rng, ex), a(rng), word(rng, ex), AssetId::from(r32(rng)), txp(rng, ex),
            word(rng, ex), { let mut p = bytes(rng, false); p.push(7); p }, bytes(rng, ex)),
        "Contract" => Input::contract(utxo(rng, ex), Bytes32::from(r32(rng)), Bytes32::from(r32(rng)), txp(rng, ex), ContractId::from(r32(rng))),
        "MsgCoinSigned" => Input::message_coin_signed(a(rng), a(rng), word(rng, ex), Nonce::from(r32(rng)), idx16(rng, ex)),
        "MsgCoinPredicate" => Input::message_coin_predicate(a(rng), a(rng), word(rng, ex), Nonce::from(r32(rng)), word(rng, ex),
            { let mut p = bytes(rng, false); p.push(7); p }, bytes(rng, ex)),
        "MsgDataSigned" => Input::message_data_signed(a(rng), a(rng), word(rng, ex), Nonce::from(r32(rng)), idx16(rng, ex),
            { let mut p = bytes(rng, false); p.push(9); p }),
        "MsgDataPredicate" => Input::message_data_predicate(a(rng), a(rng), word(rng, ex), Nonce::from(r32(rng)), word(rng, ex),
            { let mut p = bytes(rng, false); p.push(9); p }, { let mut p = bytes(rng, false); p.push(7); p }, bytes(rng, ex)),
        k => die(&format!("unknown input kind {k}")),
    }
}
fn input_kind(i: &Input) -> &'static str {
    match i {
        Input::CoinSigned(_) => "CoinSigned",
        Input::CoinPredicate(_) => "CoinPredicate",
        Input::Contract(_) => "Contract",
        Input::MessageCoinSigned(_) => "MsgCoinSigned",
        Input::MessageCoinPredicate(_) => "MsgCoinPredicate",
        Input::MessageDataSigned(_) => "MsgDataSigned",
        Input::MessageDataPredicate(_) => "MsgDataPredicate",
    }
}
fn mk_output(kind: &str, rng: &mut Rng, ex: bool) -> Output {
    match kind {
        "Coin" => Output::coin(Address::from(r32(rng)), word(rng, ex), AssetId::from(r32(rng))),
        "Contract" => Output::contract(idx16(rng, ex), Bytes32::from(r32(rng)), Bytes32::from(r32(rng))),
        "Change" => Output::change(Address::from(r32(rng)), word(rng, ex), AssetId::from(r32(rng))),
        "Variable" => Output::variable(Address::from(r32(rng)), word(rng, ex), AssetId::from(r32(rng))),
        "ContractCreated" => Output::contract_created(ContractId::from(r32(rng)), Bytes32::from(r32(rng))),
        k => die(&format!("unknown output kind {k}")),
    }
}
fn output_kind(o: &Output) -> &'static str {
    match o {
        Output::Coin { .. } => "Coin",
        Output::Contract(_) => "Contract",
        Output::Change { .. } => "Change",
        Output::Variable { .. } => "Variable",
        Output::ContractCreated { .. } => "ContractCreated",
    }
}
/// every PanicReason known to the fuel-asm in use (u8 values that survive `PanicReason::from`)
fn panic_reasons() -> Vec<u8> {
    (0..=255u8).filter(|r| PanicReason::from(*r) as u8 == *r).collect()
}
fn mk_receipt(kind: &str, rng: &mut Rng, ov: &Over) -> Receipt {
    let ex = ov.extreme;
    let cid = |rng: &mut Rng| ContractId::from(r32(rng));
    let data = |rng: &mut Rng| -> Option<Vec<u8>> {
        let some = ov.data_some.unwrap_or_else(|| rng.chance(3, 4));
        if some { Some(bytes(rng, ex)) } else { None }
    };
    match kind {
        "Call" => Receipt::call(cid(rng), cid(rng), word(rng, ex), AssetId::from(r32(rng)), word(rng, ex), word(rng, ex),
            word(rng, ex), word(rng, ex), word(rng, ex)),
        "Return" => Receipt::ret(cid(rng), word(rng, ex), word(rng, ex), word(rng, ex)),
        "ReturnData" => { let d = data(rng); Receipt::return_data_with_len(cid(rng), word(rng, ex), word(rng, ex), Bytes32::from(r32(rng)),
            word(rng, ex), word(rng, ex), d) }
        "Panic" => {
            let rs = panic_reasons();
            let r = ov.panic_reason.unwrap_or_else(|| *rng.pick(&rs));
            let with_cid = ov.panic_cid.unwrap_or_else(|| rng.chance(1, 2));
            let c = if with_cid { Some(cid(rng)) } else { None };
            Receipt::panic(cid(rng), PanicInstruction::error(PanicReason::from(r), rng.below(1 << 32) as u32 | 1), word(rng, ex), word(rng, ex))
                .with_panic_contract_id(c)
        }
        "Revert" => Receipt::revert(cid(rng), word(rng, ex), word(rng, ex), word(rng, ex)),
        "Log" => Receipt::log(cid(rng), word(rng, ex), word(rng, ex), word(rng, ex), word(rng, ex), word(rng, ex), word(rng, ex)),
        "LogData" => { let d = data(rng); Receipt::log_data_with_len(cid(rng), word(rng, ex), word(rng, ex), word(rng, ex), word(rng, ex),
            Bytes32::from(r32(rng)), word(rng, ex), word(rng, ex), d) }
        "Transfer" => Receipt::transfer(cid(rng), cid(rng), word(rng, ex), AssetId::from(r32(rng)), word(rng, ex), word(rng, ex)),
        "TransferOut" => Receipt::transfer_out(cid(rng), Address::from(r32(rng)), word(rng, ex), AssetId::from(r32(rng)), word(rng, ex), word(rng, ex)),
        "ScriptResult" => {
            let r = match ov.script_result.unwrap_or_else(|| rng.below(4) as u8) {
                0 => ScriptExecutionResult::Success,
                1 => ScriptExecutionResult::Revert,
                2 => ScriptExecutionResult::Panic,
                _ => ScriptExecutionResult::GenericFailure(word(rng, ex)),
            };
            Receipt::script_result(r, word(rng, ex))
        }
        "MessageOut" => { let d = data(rng); Receipt::message_out_with_len(Address::from(r32(rng)), Address::from(r32(rng)), word(rng, ex),
            Nonce::from(r32(rng)), word(rng, ex), Bytes32::from(r32(rng)), d) }
        "Mint" => Receipt::mint(SubAssetId::from(r32(rng)), cid(rng), word(rng, ex), word(rng, ex), word(rng, ex)),
        "Burn" => Receipt::burn(SubAssetId::from(r32(rng)), cid(rng), word(rng, ex), word(rng, ex), word(rng, ex)),
        k => die(&format!("unknown receipt kind {k}")),
    }
}
fn receipt_kind(r: &Receipt) -> &'static str {
    match r {
        Receipt::Call { .. } => "Call",
        Receipt::Return { .. } => "Return",
        Receipt::ReturnData { .. } => "ReturnData",
        Receipt::Panic { .. } => "Panic",
        Receipt::Revert { .. } => "Revert",
        Receipt::Log { .. } => "Log",
        Receipt::LogData { .. } => "LogData",
        Receipt::Transfer { .. } => "Transfer",
        Receipt::TransferOut { .. } => "TransferOut",
        Receipt::ScriptResult { .. } => "ScriptResult",
        Receipt::MessageOut { .. } => "MessageOut",
        Receipt::Mint { .. } => "Mint",
        Receipt::Burn { .. } => "Burn",
    }
}
const POLS: [PolicyType; 6] = [PolicyType::Tip, PolicyType::WitnessLimit, PolicyType::Maturity, PolicyType::MaxFee,
    PolicyType::Expiration, PolicyType::Owner];
fn mk_policies(bits: u32, rng: &mut Rng, ex: bool) -> Policies {
    let mut p = Policies::new();
    for (i, t) in POLS.iter().enumerate() {
        if bits & (1 << i) != 0 {
            // heights (maturity, expiration) and the owner index are narrower than a word
            let v = match t {
                PolicyType::Maturity | PolicyType::Expiration => if ex { u32::MAX as u64 } else { 1 + rng.below(1 << 31) },
                _ => word(rng, ex),
            };
            p.set(*t, Some(v));
        }
    }
    p
}
fn pol_bits(p: &Policies) -> u32 {
    let mut b = 0;
    for (i, t) in POLS.iter().enumerate() {
        if p.is_set(*t) {
            b |= 1 << i;
        }
    }
    b
}
fn tx_policies(tx: &Transaction) -> Option<Policies> {
    match tx {
        Transaction::Script(t) => Some(t.policies().clone()),
        Transaction::Create(t) => Some(t.policies().clone()),
        Transaction::Upgrade(t) => Some(t.policies().clone()),
        Transaction::Upload(t) => Some(t.policies().clone()),
        Transaction::Blob(t) => Some(t.policies().clone()),
        Transaction::Mint(_) => None,
    }
}
fn tx_kind(tx: &Transaction) -> &'static str {
    match tx {
        Transaction::Script(_) => "Script",
        Transaction::Create(_) => "Create",
        Transaction::Mint(_) => "Mint",
        Transaction::Upgrade(_) => "Upgrade",
        Transaction::Upload(_) => "Upload",
        Transaction::Blob(_) => "Blob",
    }
}

/// instantiate a shape: one transaction of the shape, its receipts, a header generated from them
fn instantiate(s: &Shape, real_height: u32, rng: &mut Rng, ov: &Over) -> (Block, Vec<Vec<Receipt>>) {
    let ex = ov.extreme;
    let inputs: Vec<Input> = s.ins.iter().map(|k| mk_input(k, rng, ex)).collect();
    let outputs: Vec<Output> = s.outs.iter().map(|k| mk_output(k, rng, ex)).collect();
    let witnesses: Vec<Witness> = (0..rng.below(3)).map(|_| Witness::from(bytes(rng, ex))).collect();
    let policies = mk_policies(s.pol, rng, ex);
    let tx: Transaction = match s.tx.as_str() {
        "Script" => {
            use fuel_core_types::fuel_tx::field::ReceiptsRoot;
            let mut t = Transaction::script(word(rng, ex), bytes(rng, ex), bytes(rng, ex), policies, inputs, outputs, witnesses);
            *t.receipts_root_mut() = Bytes32::from(r32(rng));
            t.into()
        }
        "Create" => Transaction::create(idx16(rng, ex), policies, Salt::from(r32(rng)),
            (0..rng.below(3)).map(|_| StorageSlot::new(Bytes32::from(r32(rng)), Bytes32::from(r32(rng)))).collect(),
            inputs, outputs, witnesses).into(),
        "Mint" => Transaction::mint(txp(rng, ex),
            fuel_core_types::fuel_tx::input::contract::Contract { utxo_id: utxo(rng, ex), balance_root: Bytes32::from(r32(rng)),
                state_root: Bytes32::from(r32(rng)), tx_pointer: txp(rng, ex), contract_id: ContractId::from(r32(rng)) },
            fuel_core_types::fuel_tx::output::contract::Contract { input_index: idx16(rng, ex), balance_root: Bytes32::from(r32(rng)),
                state_root: Bytes32::from(r32(rng)) },
            word(rng, ex), AssetId::from(r32(rng)), word(rng, ex)).into(),
        "Upgrade" => {
            let purpose = match ov.purpose.unwrap_or_else(|| rng.below(2) as u8) {
                0 => UpgradePurpose::StateTransition { root: Bytes32::from(r32(rng)) },
                _ => UpgradePurpose::ConsensusParameters { witness_index: idx16(rng, ex), checksum: Bytes32::from(r32(rng)) },
            };
            Transaction::upgrade(purpose, policies, inputs, outputs, witnesses).into()
        }
        "Upload" => Transaction::upload(UploadBody { root: Bytes32::from(r32(rng)), witness_index: idx16(rng, ex),
                subsection_index: idx16(rng, ex), subsections_number: idx16(rng, ex),
                proof_set: (0..rng.below(4)).map(|_| Bytes32::from(r32(rng))).collect() },
            policies, inputs, outputs, witnesses).into(),
        "Blob" => Transaction::blob(BlobBody { id: BlobId::from(r32(rng)), witness_index: idx16(rng, ex) },
            policies, inputs, outputs, witnesses).into(),
        k => die(&format!("unknown tx kind {k}")),
    };
    let receipts: Vec<Receipt> = s.rcs.iter().map(|k| mk_receipt(k, rng, ov)).collect();
    // message ids of the block header: the messages sent by transactions that did not fail
    let failed = receipts.iter().any(|r| matches!(r, Receipt::Revert { .. } | Receipt::Panic { .. }));
    let msg_ids: Vec<_> = if failed { vec![] } else { receipts.iter().filter_map(|r| r.message_id()).collect() };
    let header = PartialBlockHeader {
        application: ApplicationHeader {
            da_height: DaBlockHeight(word(rng, ex)),
            consensus_parameters_version: rng.next() as u32 | 1,
            state_transition_bytecode_version: rng.next() as u32 | 1,
            generated: Empty,
        },
        consensus: ConsensusHeader {
            prev_root: Bytes32::from(r32(rng)),
            height: BlockHeight::from(real_height),
            time: Tai64(word(rng, ex)),
            generated: Empty,
        },
    };
    let block = Block::new(header, vec![tx], &msg_ids, Bytes32::from(r32(rng))).expect("block");
    (block, vec![receipts])
}

fn classify(block: &Block, receipts: &[Vec<Receipt>]) -> Value {
    let Some(tx) = block.transactions().first() else { return json!({"tx": "none", "ins": [], "outs": [], "rcs": [], "pol": 0}) };
    let ins: Vec<&str> = tx.inputs().iter().map(input_kind).collect();
    let outs: Vec<&str> = tx.outputs().iter().map(output_kind).collect();
    let rcs: Vec<&str> = receipts.first().map(|r| r.iter().map(receipt_kind).collect()).unwrap_or_default();
    json!({"tx": tx_kind(tx), "ins": ins, "outs": outs, "rcs": rcs, "pol": tx_policies(tx).map(|p| pol_bits(&p)).unwrap_or(0)})
}

// ---- the system under test ---------------------------------------------------------------------------

struct Sys {
    kv: SharedKv,
    db: StorageDB<SharedKv>,
    provider: StorageBlocksProvider<SharedKv>,
    maxh: i64,
    top: bool,
    /// what was submitted per abstract height (the most recent accepted store)
    orig: BTreeMap<i64, (Block, Vec<Vec<Receipt>>)>,
}

impl Sys {
    fn new(maxh: i64, top: bool) -> Self {
        let kv = SharedKv::default();
        Sys { db: StorageDB::new(kv.clone()), provider: StorageBlocksProvider::new(kv.clone()), kv, maxh, top, orig: BTreeMap::new() }
    }
    fn real(&self, h: i64) -> u32 {
        if self.top { (u32::MAX as i64 - self.maxh + h) as u32 } else { h as u32 }
    }
    fn abs_h(&self, real: u32) -> i64 {
        if self.top { real as i64 - (u32::MAX as i64 - self.maxh) } else { real as i64 }
    }
    fn state(&self) -> Value {
        let latest = match self.db.get_current_height() {
            Ok(Some(h)) => self.abs_h(*h),
            Ok(None) => -1,
            Err(_) => -2,
        };
        let col = Column::Blocks.id();
        let heights: Vec<i64> = self.kv.0.lock().unwrap().keys().filter(|(c, _)| *c == col)
            .filter_map(|(_, k)| <[u8; 4]>::try_from(k.as_slice()).ok()).map(|b| self.abs_h(u32::from_be_bytes(b))).collect();
        json!({"latest": latest, "heights": heights})
    }

    fn store(&mut self, t: &mut Trace, h: i64, shape: &Shape, rng: &mut Rng, ov: &Over, sv: &str) -> bool {
        let real = self.real(h);
        let (block, receipts) = instantiate(shape, real, rng, ov);
        let conv = guarded(|| ProtobufBlockConverter.convert_block(&block, &receipts));
        let (conv_res, bytes) = match conv {
            Ok(Ok(b)) => ("Ok".to_string(), Some(b)),
            Ok(Err(e)) => (format!("Err:{e:?}"), None),
            Err(p) => (format!("Panic:{p}"), None),
        };
        let mut res = "Skip".to_string();
        if let Some(b) = bytes {
            let db = &mut self.db;
            let r = guarded(|| db.store_block(BlockHeight::from(real), &b).now_or_never());
            res = match r {
                Ok(Some(Ok(()))) => "Ok".into(),
                Ok(Some(Err(_))) => "Err".into(),
                Ok(None) => "Pending".into(),
                Err(p) => format!("Panic:{p}"),
            };
            if res == "Ok" {
                self.orig.insert(h, (block, receipts));
            }
        }
        t.event("Store", json!({"h": h, "p": shape_json(shape), "sv": sv, "res": res, "conv": conv_res, "st": self.state()}));
        res == "Ok"
    }

    fn get_range(&mut self, t: &mut Trace, first: i64, last: i64) {
        let (rf, rl) = (self.real(first), self.real(last));
        let provider = &self.provider;
        let got = guarded(|| -> Result<Vec<(BlockHeight, Arc<[u8]>)>, String> {
            match provider.get_block_range(BlockHeight::from(rf), BlockHeight::from(rl)).map_err(|e| format!("{e:?}"))? {
                BlockRangeResponse::Bytes(s) => s.collect::<Vec<_>>().now_or_never().ok_or_else(|| "pending".to_string()),
                _ => Err("unexpected response kind".into()),
            }
        });
        let mut items = Vec::new();
        let res = match got {
            Ok(Ok(v)) => {
                for (h, bytes) in v {
                    let ah = self.abs_h(*h);
                    let dec = guarded(|| -> Result<(Block, Vec<Vec<Receipt>>), String> {
                        let proto = ProtoBlock::decode(&*bytes).map_err(|e| format!("decode: {e}"))?;
                        fuel_block_from_protobuf(proto).map_err(|e| format!("{e:?}"))
                    });
                    let item = match (dec, self.orig.get(&ah)) {
                        (Ok(Ok((b, rc))), Some((ob, orc))) => {
                            let (tx, otx) = (b.transactions().first(), ob.transactions().first());
                            let hdr = b.header() == ob.header();
                            let txs = b.transactions() == ob.transactions();
                            let ins = tx.map(|t| t.inputs().to_vec()) == otx.map(|t| t.inputs().to_vec());
                            let outs = tx.map(|t| t.outputs().to_vec()) == otx.map(|t| t.outputs().to_vec());
                            let pol = tx.and_then(tx_policies) == otx.and_then(tx_policies);
                            let rcs = &rc == orc;
                            json!({"h": ah, "p": classify(&b, &rc), "rt": hdr && txs && rcs, "dec": "Ok",
                                   "c": {"hdr": hdr, "txs": txs, "ins": ins, "outs": outs, "pol": pol, "rcs": rcs}})
                        }
                        (Ok(Ok((b, rc))), None) => json!({"h": ah, "p": classify(&b, &rc), "rt": false, "dec": "NoOriginal", "c": {}}),
                        (Ok(Err(e)), _) => json!({"h": ah, "p": {"tx": "undecodable", "ins": [], "outs": [], "rcs": [], "pol": 0},
                                                  "rt": false, "dec": format!("Err:{e}"), "c": {}}),
                        (Err(p), _) => json!({"h": ah, "p": {"tx": "undecodable", "ins": [], "outs": [], "rcs": [], "pol": 0},
                                              "rt": false, "dec": format!("Panic:{p}"), "c": {}}),
                    };
                    items.push(item);
                }
                "Ok".to_string()
            }
            Ok(Err(e)) => format!("Err:{e}"),
            Err(p) => format!("Panic:{p}"),
        };
        t.event("GetRange", json!({"first": first, "last": last, "res": res, "items": items, "st": self.state()}));
    }
}

fn rng_for(walk: i64, step: usize) -> Rng {
    Rng::new(env_seed().wrapping_mul(1_000_003) ^ (walk as u64).wrapping_mul(0x9E37_79B9) ^ ((step as u64) << 48))
}

/// `c43-run --walks W --out T --maxh H`
pub fn run(args: &Args) {
    let walks = read_walks(args.req("walks"));
    let maxh = args.num("maxh", 3) as i64;
    let mut t = Trace::create(args.req("out"));
    for w in walks {
        t.reset(w.id, json!({"maxh": maxh}));
        let mut sys: Option<Sys> = None;
        for (i, s) in w.steps.iter().enumerate() {
            let mut rng = rng_for(w.id, i);
            match s.name() {
                "New" => {
                    let top = s.boolean("top");
                    sys = Some(Sys::new(maxh, top));
                    t.event("New", json!({"top": top, "st": sys.as_ref().unwrap().state()}));
                }
                "Store" => {
                    let sh = shape_of(s.get("p"));
                    let sy = sys.as_mut().unwrap_or_else(|| die("Store before New"));
                    sy.store(&mut t, s.int("h"), &sh, &mut rng, &Over::default(), "");
                }
                "GetRange" => {
                    let sy = sys.as_mut().unwrap_or_else(|| die("GetRange before New"));
                    sy.get_range(&mut t, s.int("first"), s.int("last"));
                }
                a => die(&format!("unknown action {a}")),
            }
        }
    }
    t.finish();
}

fn one_shot(t: &mut Trace, id: i64, maxh: i64, shape: &Shape, ov: &Over, sv: &str) {
    t.reset(id, json!({"maxh": maxh}));
    let mut sys = Sys::new(maxh, false);
    t.event("New", json!({"top": false, "st": sys.state()}));
    let mut rng = rng_for(id, 1);
    sys.store(t, 0, shape, &mut rng, ov, sv);
    sys.get_range(t, 0, 0);
}

/// `c43-sweep --out T --maxh H`: every variant of the enum-valued fields (panic reasons, script results,
/// optional data / contract id, upgrade purposes, all 64 policy sets, extreme integers / empty byte strings)
pub fn sweep(args: &Args) {
    let maxh = args.num("maxh", 3) as i64;
    let mut t = Trace::create(args.req("out"));
    let mut id = 0;
    let sh = |tx: &str, ins: &[&str], outs: &[&str], rcs: &[&str], pol: u32| Shape {
        tx: tx.into(), ins: ins.iter().map(|s| s.to_string()).collect(), outs: outs.iter().map(|s| s.to_string()).collect(),
        rcs: rcs.iter().map(|s| s.to_string()).collect(), pol,
    };
    for r in panic_reasons() {
        for cid in [false, true] {
            let ov = Over { panic_reason: Some(r), panic_cid: Some(cid), ..Default::default() };
            one_shot(&mut t, id, maxh, &sh("Script", &[], &[], &["Panic"], 0), &ov, &format!("panic_reason={r},cid={cid}"));
            id += 1;
        }
    }
    for r in 0..4u8 {
        let ov = Over { script_result: Some(r), ..Default::default() };
        one_shot(&mut t, id, maxh, &sh("Script", &[], &[], &["ScriptResult"], 0), &ov, &format!("script_result={r}"));
        id += 1;
    }
    for k in ["ReturnData", "LogData", "MessageOut"] {
        for some in [false, true] {
            for ex in [false, true] {
                let ov = Over { data_some: Some(some), extreme: ex, ..Default::default() };
                one_shot(&mut t, id, maxh, &sh("Script", &[], &[], &[k], 0), &ov, &format!("{k}:data_some={some},extreme={ex}"));
                id += 1;
            }
        }
    }
    for p in 0..2u8 {
        let ov = Over { purpose: Some(p), ..Default::default() };
        one_shot(&mut t, id, maxh, &sh("Upgrade", &["CoinSigned"], &["Change"], &[], 8), &ov, &format!("purpose={p}"));
        id += 1;
    }
    for pol in 0..64u32 {
        for ex in [false, true] {
            let ov = Over { extreme: ex, ..Default::default() };
            one_shot(&mut t, id, maxh, &sh("Script", &["CoinSigned"], &["Coin"], &[], pol), &ov, &format!("pol={pol},extreme={ex}"));
            id += 1;
        }
    }
    // extreme integers and empty byte strings in every kind of transaction / input / output / receipt
    let ins = ["CoinSigned", "CoinPredicate", "Contract", "MsgCoinSigned", "MsgCoinPredicate", "MsgDataSigned", "MsgDataPredicate"];
    let outs = ["Coin", "Contract", "Change", "Variable", "ContractCreated"];
    let rcs = ["Call", "Return", "ReturnData", "Panic", "Revert", "Log", "LogData", "Transfer", "TransferOut", "ScriptResult",
        "MessageOut", "Mint", "Burn"];
    let ov = Over { extreme: true, ..Default::default() };
    for tx in ["Script", "Create", "Upgrade", "Upload", "Blob"] {
        for i in 0..ins.len().max(outs.len()).max(rcs.len()) {
            let s = sh(tx, &[ins[i % ins.len()]], &[outs[i % outs.len()]], &[rcs[i % rcs.len()]], 63);
            one_shot(&mut t, id, maxh, &s, &ov, &format!("extreme:{tx}:{i}"));
            id += 1;
        }
    }
    one_shot(&mut t, id, maxh, &sh("Mint", &[], &[], &["Mint"], 0), &ov, "extreme:Mint");
    t.finish();
}

/// `c43-random --walks N --len L --out T --maxh H`: seeded store / range sequences with random shapes
pub fn random(args: &Args) {
    let n = args.num("walks", 100);
    let len = args.num("len", 12);
    let maxh = args.num("maxh", 3) as i64;
    let mut t = Trace::create(args.req("out"));
    let txs = ["Script", "Create", "Mint", "Upgrade", "Upload", "Blob"];
    let ins = ["CoinSigned", "CoinPredicate", "Contract", "MsgCoinSigned", "MsgCoinPredicate", "MsgDataSigned", "MsgDataPredicate"];
    let outs = ["Coin", "Contract", "Change", "Variable", "ContractCreated"];
    let rcs = ["Call", "Return", "ReturnData", "Panic", "Revert", "Log", "LogData", "Transfer", "TransferOut", "ScriptResult",
        "MessageOut", "Mint", "Burn"];
    for w in 0..n as i64 {
        let mut rng = Rng::new(env_seed().wrapping_mul(31337) ^ (w as u64 + 1).wrapping_mul(0xABCD_EF01));
        t.reset(w, json!({"maxh": maxh}));
        let top = rng.chance(1, 3);
        let mut sys = Sys::new(maxh, top);
        t.event("New", json!({"top": top, "st": sys.state()}));
        let mut next = rng.below(maxh as u64 + 1) as i64;
        for i in 0..len as usize {
            if rng.chance(2, 3) {
                let h = if rng.chance(3, 4) { next } else { rng.below(maxh as u64 + 1) as i64 };
                let tx = *rng.pick(&txs);
                let pick = |rng: &mut Rng, pool: &[&str], max: u64| -> Vec<String> {
                    (0..rng.below(max + 1)).map(|_| rng.pick(pool).to_string()).collect()
                };
                let shape = if tx == "Mint" {
                    Shape { tx: tx.into(), rcs: pick(&mut rng, &rcs, 2), ..Default::default() }
                } else {
                    Shape { tx: tx.into(), ins: pick(&mut rng, &ins, 3), outs: pick(&mut rng, &outs, 3), rcs: pick(&mut rng, &rcs, 4),
                            pol: rng.below(64) as u32 }
                };
                let ov = Over { extreme: rng.chance(1, 8), ..Default::default() };
                let mut r2 = rng_for(w, i);
                if sys.store(&mut t, h, &shape, &mut r2, &ov, "") {
                    next = (h + 1).min(maxh);
                }
            } else {
                let f = rng.below(maxh as u64 + 1) as i64;
                let l = rng.below(maxh as u64 + 1) as i64;
                sys.get_range(&mut t, f, l);
            }
        }
    }
    t.finish();
}

#[allow(dead_code)]
fn _unused(_: Map<String, Value>) {}
