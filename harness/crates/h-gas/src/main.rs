//! Harness for fuel-gas-price-algorithm: C34 (AlgorithmUpdaterV1) and C35 (worst-case estimate).
use fuel_gas_price_algorithm::{
    cumulative_percentage_change,
    v1::{AlgorithmUpdaterV1, ClampedPercentage, L2ActivityTracker},
};
use h_common::*;
use serde_json::{Map, Value};
use std::{collections::BTreeMap, num::NonZeroU64};

const CLAMP: u64 = i32::MAX as u64;

fn clamp_u(v: u64) -> i64 {
    v.min(CLAMP) as i64
}
fn clamp_u128(v: u128) -> i64 {
    v.min(CLAMP as u128) as i64
}
fn clamp_i128(v: i128) -> i64 {
    v.clamp(-(CLAMP as i128), CLAMP as i128) as i64
}

fn updater_for_worst_case(exec: u64, epct: u16, da: u64, dpct: u16, height: u32) -> AlgorithmUpdaterV1 {
    AlgorithmUpdaterV1 {
        new_scaled_exec_price: exec,
        min_exec_gas_price: 0,
        exec_gas_price_change_percent: epct,
        l2_block_height: height,
        l2_block_fullness_threshold_percent: ClampedPercentage::new(50),
        new_scaled_da_gas_price: da,
        gas_price_factor: NonZeroU64::new(1).unwrap(),
        min_da_gas_price: 0,
        max_da_gas_price: u64::MAX,
        max_da_gas_price_change_percent: dpct,
        total_da_rewards: 0,
        latest_known_total_da_cost: 0,
        projected_total_da_cost: 0,
        da_p_component: 0,
        da_d_component: 0,
        last_profit: 0,
        second_to_last_profit: 0,
        latest_da_cost_per_byte: 0,
        l2_activity: L2ActivityTracker::new_always_normal(),
        unrecorded_blocks_bytes: 0,
    }
}

/// C35: every (price, percentage, horizon) of the bound, horizons ascending per (price, pct).
fn table(args: &Args) {
    let max_pct = args.num("maxpct", 27);
    let max_blocks = args.num("maxblocks", 27) as u32;
    let mut t = Trace::create(args.req("out"));
    t.reset(0, json!({}));
    let prices: [(i64, u64); 8] = [
        (0, 0),
        (1, 1),
        (99, 99),
        (100, 100),
        (10000, 10000),
        // huge prices: logged with a negative stand-in, estimate clamped to 2^31-1
        (-1, u64::MAX),
        (-2, 1u64 << 53),
        (-3, 16948547188989277),
    ];
    for base in [0u32, 1_000_000, u32::MAX - 30] {
        for (pid, price) in prices {
            for pct in 0..=max_pct {
                for blocks in 0..=max_blocks {
                    let height = base.saturating_add(blocks);
                    if height.saturating_sub(base) != blocks {
                        continue;
                    }
                    let r = guarded(|| cumulative_percentage_change(price, base, pct, height));
                    let (ok, est) = match r {
                        Ok(v) => (true, clamp_u(v)),
                        Err(_) => (false, -1),
                    };
                    t.event("Estimate", json!({"price": pid, "pct": pct, "blocks": blocks, "base": base, "ok": ok, "est": est}));
                }
            }
        }
    }
    // AlgorithmV1::worst_case through the updater's own algorithm()
    for (exec, da) in [(0u64, 0u64), (1, 100), (100, 1), (99, 10000), (10000, 10000)] {
        for epct in [0u16, 1, 10, 24, 25, 26] {
            for dpct in [0u16, 1, 24, 25, 26] {
                for blocks in 0..=max_blocks {
                    let base = 7u32;
                    let alg = updater_for_worst_case(exec, epct, da, dpct, base).algorithm();
                    let r = guarded(|| alg.worst_case(base + blocks));
                    let (ok, est) = match r {
                        Ok(v) => (true, clamp_u(v)),
                        Err(_) => (false, -1),
                    };
                    t.event("WorstCase", json!({"exec": exec, "da": da, "epct": epct, "dpct": dpct, "blocks": blocks, "ok": ok, "est": est}));
                }
            }
        }
    }
    t.finish();
}

// ---------------------------------------------------------------------------------------------- C34

struct Sut {
    u: AlgorithmUpdaterV1,
    unrec: BTreeMap<u32, u64>,
}

fn cfg_int(c: &Map<String, Value>, k: &str) -> i64 {
    c.get(k).and_then(|v| v.as_i64()).unwrap_or_else(|| die(&format!("config field {k} missing")))
}

fn new_sut(c: &Map<String, Value>) -> Sut {
    let u = AlgorithmUpdaterV1 {
        new_scaled_exec_price: cfg_int(c, "exec0") as u64,
        min_exec_gas_price: cfg_int(c, "minExec") as u64,
        exec_gas_price_change_percent: cfg_int(c, "execPct") as u16,
        l2_block_height: cfg_int(c, "h0") as u32,
        l2_block_fullness_threshold_percent: ClampedPercentage::new(cfg_int(c, "thr") as u8),
        new_scaled_da_gas_price: cfg_int(c, "da0") as u64,
        gas_price_factor: NonZeroU64::new(cfg_int(c, "factor") as u64).unwrap_or_else(|| die("factor 0")),
        min_da_gas_price: cfg_int(c, "minDa") as u64,
        max_da_gas_price: cfg_int(c, "maxDa") as u64,
        max_da_gas_price_change_percent: cfg_int(c, "daPct") as u16,
        total_da_rewards: 0,
        latest_known_total_da_cost: 0,
        projected_total_da_cost: 0,
        da_p_component: cfg_int(c, "pc"),
        da_d_component: cfg_int(c, "dc"),
        last_profit: 0,
        second_to_last_profit: 0,
        latest_da_cost_per_byte: cfg_int(c, "cpb0") as u128,
        l2_activity: L2ActivityTracker::new(
            cfg_int(c, "norm") as u16,
            cfg_int(c, "cap") as u16,
            cfg_int(c, "dec") as u16,
            cfg_int(c, "act0") as u16,
            ClampedPercentage::new(cfg_int(c, "blkAct") as u8),
        ),
        unrecorded_blocks_bytes: 0,
    };
    Sut { u, unrec: BTreeMap::new() }
}

fn project(s: &Sut) -> Value {
    let u = &s.u;
    json!({
        "exec": clamp_u(u.new_scaled_exec_price), "da": clamp_u(u.new_scaled_da_gas_price),
        "h": u.l2_block_height, "rewards": clamp_u128(u.total_da_rewards),
        "known": clamp_u128(u.latest_known_total_da_cost), "proj": clamp_u128(u.projected_total_da_cost),
        "lp": clamp_i128(u.last_profit), "slp": clamp_i128(u.second_to_last_profit),
        "cpb": clamp_u128(u.latest_da_cost_per_byte), "activity": u.l2_activity.current_activity(),
        "unrecBytes": clamp_u128(u.unrecorded_blocks_bytes),
        "unrec": s.unrec.iter().map(|(h, b)| json!([h, b])).collect::<Vec<_>>(),
    })
}

fn apply(sut: &mut Option<Sut>, s: &Map<String, Value>, t: &mut Trace) {
    match s.name() {
        "New" => {
            let c = s.get("c").and_then(|v| v.as_object()).unwrap_or_else(|| die("New without config"));
            let n = new_sut(c);
            t.event("New", json!({"c": Value::Object(c.clone()), "st": project(&n)}));
            *sut = Some(n);
        }
        "UpdateL2" => {
            let x = sut.as_mut().unwrap_or_else(|| die("UpdateL2 before New"));
            let (height, used, cap, bytes, fee) = (s.int("height"), s.int("used"), s.int("cap"), s.int("bytes"), s.int("fee"));
            let r = guarded(|| {
                x.u.update_l2_block_data(height as u32, used as u64, NonZeroU64::new(cap as u64).unwrap(), bytes as u64, fee as u128, &mut x.unrec)
            });
            let res = match r {
                Ok(Ok(())) => "Ok".to_string(),
                Ok(Err(e)) => format!("Err:{}", format!("{e:?}").split([' ', '{', '(']).next().unwrap_or("")),
                Err(p) => format!("Panic:{p}"),
            };
            t.event("UpdateL2", json!({"height": height, "used": used, "cap": cap, "bytes": bytes, "fee": fee, "res": res, "st": project(x)}));
        }
        "UpdateDa" => {
            let x = sut.as_mut().unwrap_or_else(|| die("UpdateDa before New"));
            let (lo, hi, rb, cost) = (s.int("lo"), s.int("hi"), s.int("recBytes"), s.int("cost"));
            // lo > hi (empty range) is expressible with u32 unless hi = -1
            let r = guarded(|| {
                #[allow(clippy::reversed_empty_ranges)]
                let range = if hi < 0 { 1u32..=0u32 } else { lo as u32..=hi as u32 };
                x.u.update_da_record_data(range, rb as u32, cost as u128, &mut x.unrec)
            });
            let res = match r {
                Ok(Ok(())) => "Ok".to_string(),
                Ok(Err(e)) => format!("Err:{}", format!("{e:?}").split([' ', '{', '(']).next().unwrap_or("")),
                Err(p) => format!("Panic:{p}"),
            };
            t.event("UpdateDa", json!({"lo": lo, "hi": hi, "recBytes": rb, "cost": cost, "res": res, "st": project(x)}));
        }
        other => die(&format!("unknown action {other}")),
    }
}

fn run(args: &Args) {
    let mut t = Trace::create(args.req("out"));
    for w in read_walks(args.req("walks")) {
        t.reset(w.id, json!({}));
        let mut sut = None;
        for s in &w.steps {
            apply(&mut sut, s, &mut t);
        }
    }
    t.finish();
}

fn random(args: &Args) {
    let n = args.num("walks", 100);
    let len = args.num("len", 16);
    let mut rng = Rng::new(env_seed() ^ 0x6a5);
    let mut t = Trace::create(args.req("out"));
    for id in 0..n {
        t.reset(id as i64, json!({}));
        let factor = *rng.pick(&[1i64, 2, 10, 100]);
        let min_exec = rng.range(0, 3);
        let min_da = rng.range(0, 3);
        let max_da = rng.range(0, 12);
        let c = json!({
            "id": 100 + id, "minExec": min_exec, "execPct": *rng.pick(&[0i64, 1, 10, 50]), "factor": factor,
            "minDa": min_da, "maxDa": max_da, "daPct": *rng.pick(&[0i64, 1, 10, 50]),
            "pc": rng.range(0, 6), "dc": rng.range(0, 4), "thr": *rng.pick(&[0i64, 50, 100]),
            "dec": rng.range(0, 2), "cap": rng.range(0, 2), "norm": rng.range(0, 2), "blkAct": *rng.pick(&[0i64, 30, 60, 100]),
            "exec0": (min_exec + rng.range(0, 40)) * factor, "da0": (min_da + rng.range(0, (max_da.max(min_da) - min_da).max(0))) * factor,
            "cpb0": rng.range(0, 3), "act0": rng.range(0, 6), "h0": rng.range(0, 5),
        });
        let mut sut = None;
        let mut step = Map::new();
        step.insert("a".into(), json!("New"));
        step.insert("c".into(), c.clone());
        apply(&mut sut, &step, &mut t);
        let h0 = c["h0"].as_i64().unwrap();
        for _ in 0..len {
            let cur = sut.as_ref().unwrap().u.l2_block_height as i64;
            let st = if rng.chance(2, 3) {
                let height = if rng.chance(4, 5) { cur + 1 } else { cur + rng.range(-1, 3) };
                json!({"a": "UpdateL2", "height": height.max(0), "used": *rng.pick(&[0i64, 10, 49, 50, 51, 100, 300]),
                       "cap": *rng.pick(&[1i64, 100, 100, 7]), "bytes": rng.range(0, 20), "fee": *rng.pick(&[0i64, 1, 100, 5000])})
            } else {
                let lo = rng.range(h0, cur + 1);
                json!({"a": "UpdateDa", "lo": lo, "hi": lo + rng.range(-1, 3), "recBytes": *rng.pick(&[0i64, 1, 5, 40]),
                       "cost": *rng.pick(&[0i64, 3, 50, 900])})
            };
            apply(&mut sut, st.as_object().unwrap(), &mut t);
        }
    }
    t.finish();
}

fn main() {
    let args = Args::parse();
    match args.mode.as_str() {
        "table" => table(&args),
        "run" => run(&args),
        "random" => random(&args),
        m => die(&format!("unknown mode {m}")),
    }
}
