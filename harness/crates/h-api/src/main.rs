//! h-api — harness for the GraphQL-API side of fuel-core (crate `fuel-core`):
//!   C38 pagination      : pag-run / pag-random            (real query_pagination through the verif hook)
//!   C37 coins to spend  : coins-random / coins-probe-max0 (real select_coins_to_spend / largest_first / random_improve)
//!   C36 off-chain index : off-run / off-random            (real process_executor_events on Database<OffChain>)
//! Action interpreter + projector + logger only; TLC judges the traces.

mod coins;
mod off;
mod pag;
mod world;

fn main() {
    let args = h_common::Args::parse();
    match args.mode.as_str() {
        "pag-run" => pag::run(&args),
        "pag-random" => pag::random(&args),
        "off-run" => off::run(&args),
        "off-random" => off::random(&args),
        "coins-random" => coins::random(&args),
        "coins-probe-max0" => coins::probe_max0(&args),
        other => h_common::die(&format!("unknown mode {other}")),
    }
}
