//! A small chain world shared by the C36 / C37 drivers: a real in-memory `Database<OnChain>` (Coins, Messages
//! tables written directly) and a real in-memory `Database<OffChain>` that is only ever written by the real
//! `process_executor_events` inside a worker-style storage transaction, committed once per block.

use fuel_core::{
    database::{
        database_description::{off_chain::OffChain, on_chain::OnChain},
        Database,
    },
    fuel_core_graphql_api::{
        database::{ReadDatabase, ReadView},
        ports::worker::OffChainDatabase as WorkerDb,
        storage::blocks::FuelBlockIdsToHeights,
        worker_service::process_executor_events,
    },
};
use fuel_core_storage::{
    tables::{Coins, Messages},
    StorageAsMut,
};
use fuel_core_types::{
    blockchain::primitives::BlockId,
    entities::{
        coins::coin::{Coin, CompressedCoin},
        relayer::message::{Message, MessageV1},
    },
    fuel_tx::{Address, AssetId, Bytes32, UtxoId},
    fuel_types::{BlockHeight, Nonce},
    services::executor::Event,
};
use std::{borrow::Cow, collections::HashMap};

pub fn owner(o: i64) -> Address {
    Address::from([o as u8; 32])
}
pub fn owner_id(a: &Address) -> i64 {
    let b = a.as_ref();
    if b.iter().all(|x| *x == b[0]) { b[0] as i64 } else { -1 }
}
pub fn asset(a: i64) -> AssetId {
    AssetId::from([(a * 4 + 3) as u8; 32])
}
pub fn asset_id(a: &AssetId) -> i64 {
    let b = a.as_ref();
    if b.iter().all(|x| *x == b[0]) && b[0] >= 3 && (b[0] - 3) % 4 == 0 { ((b[0] - 3) / 4) as i64 } else { -1 }
}
pub fn utxo(id: i64) -> UtxoId {
    UtxoId::new(Bytes32::from([id as u8; 32]), id as u16)
}
pub fn utxo_id(u: &UtxoId) -> i64 {
    let b = u.tx_id().as_ref();
    if b.iter().all(|x| *x == b[0]) && u.output_index() == b[0] as u16 { b[0] as i64 } else { -1 }
}
pub fn nonce(n: i64) -> Nonce {
    Nonce::from([n as u8; 32])
}
pub fn nonce_id(n: &Nonce) -> i64 {
    let b = n.as_ref();
    if b.iter().all(|x| *x == b[0]) { b[0] as i64 } else { -1 }
}

pub struct World {
    pub on: Database<OnChain>,
    pub off: Database<OffChain>,
    pub base: AssetId,
    pub height: u32,
    pub pending: Vec<Event>,
    pub coins: HashMap<i64, Coin>,
    pub msgs: HashMap<i64, Message>,
    pub rt: tokio::runtime::Runtime,
}

impl World {
    pub fn new() -> Self {
        World {
            on: Database::<OnChain>::in_memory(),
            off: Database::<OffChain>::in_memory(),
            base: asset(0),
            height: 0,
            pending: vec![],
            coins: HashMap::new(),
            msgs: HashMap::new(),
            rt: tokio::runtime::Builder::new_current_thread().build().unwrap(),
        }
    }

    /// The executor created a coin: on-chain table + event for the off-chain worker.
    pub fn coin_created(&mut self, id: i64, o: i64, a: i64, v: u64) {
        let coin = Coin { utxo_id: utxo(id), owner: owner(o), amount: v, asset_id: asset(a), tx_pointer: Default::default() };
        let mut c = CompressedCoin::default();
        c.set_owner(coin.owner);
        c.set_amount(coin.amount);
        c.set_asset_id(coin.asset_id);
        self.on.storage_as_mut::<Coins>().insert(&coin.utxo_id, &c).unwrap();
        self.coins.insert(id, coin.clone());
        self.pending.push(Event::CoinCreated(coin));
    }
    pub fn coin_consumed(&mut self, id: i64) -> Option<Coin> {
        let coin = self.coins.get(&id)?.clone();
        self.on.storage_as_mut::<Coins>().remove(&coin.utxo_id).unwrap();
        self.pending.push(Event::CoinConsumed(coin.clone()));
        Some(coin)
    }
    pub fn message_imported(&mut self, n: i64, o: i64, v: u64, retryable: bool) {
        let m: Message = MessageV1 {
            sender: Default::default(),
            recipient: owner(o),
            nonce: nonce(n),
            amount: v,
            data: if retryable { vec![1] } else { vec![] },
            da_height: 1u64.into(),
        }
        .into();
        self.on.storage_as_mut::<Messages>().insert(m.nonce(), &m).unwrap();
        self.msgs.insert(n, m.clone());
        self.pending.push(Event::MessageImported(m));
    }
    pub fn message_consumed(&mut self, n: i64) -> Option<Message> {
        let m = self.msgs.get(&n)?.clone();
        self.on.storage_as_mut::<Messages>().remove(m.nonce()).unwrap();
        self.pending.push(Event::MessageConsumed(m.clone()));
        Some(m)
    }

    /// What the worker's process_block does with the block's executor events: one storage transaction,
    /// the real process_executor_events with the indexation flags read from the database, the block id ->
    /// height entry that links the commit to the previous one, commit.
    pub fn commit_block(&mut self) -> Result<(), String> {
        let events = std::mem::take(&mut self.pending);
        let balances = WorkerDb::balances_indexation_enabled(&self.off).map_err(|e| e.to_string())?;
        let c2s = WorkerDb::coins_to_spend_indexation_enabled(&self.off).map_err(|e| e.to_string())?;
        let base = self.base;
        let height = BlockHeight::from(self.height);
        let mut idb = [0u8; 32];
        idb[..4].copy_from_slice(&self.height.to_be_bytes());
        idb[31] = 0xB1;
        let block_id = BlockId::from(Bytes32::from(idb));
        let mut tx = WorkerDb::transaction(&mut self.off);
        process_executor_events(events.iter().map(Cow::Borrowed), &mut tx, balances, c2s, &base)
            .map_err(|e| format!("process_executor_events: {e}"))?;
        tx.storage_as_mut::<FuelBlockIdsToHeights>().insert(&block_id, &height).map_err(|e| e.to_string())?;
        tx.commit().map_err(|e| format!("commit: {e}"))?;
        self.height += 1;
        Ok(())
    }

    pub fn view(&self, batch: usize) -> ReadView {
        ReadDatabase::new(batch, BlockHeight::from(0u32), self.on.clone(), self.off.clone())
            .expect("read database")
            .view()
            .expect("view")
    }
}
