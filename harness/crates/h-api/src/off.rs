//! C36 — executor event histories through the real off-chain indexation; after every block the off-chain
//! tables and the read-side answers are projected and logged.  TLC (Trace_Offchain) judges.

use crate::world::*;
use fuel_core::fuel_core_graphql_api::{
    ports::OffChainDatabase,
    storage::{
        balances::{CoinBalances, MessageBalances},
        coins::{CoinsToSpendIndex, CoinsToSpendIndexKey, OwnedCoins},
        messages::OwnedMessageIds,
    },
};
use fuel_core_storage::{
    iter::{IterDirection, IteratorOverTable},
    transactional::AtomicView,
};
use fuel_core_types::fuel_tx::{Address, Bytes32, UtxoId};
use futures::TryStreamExt;
use h_common::{guarded, json, read_walks, Args, Rng, StepExt, Trace};
use serde_json::Value;

fn key_json(k: &CoinsToSpendIndexKey) -> (Value, bool) {
    let (kind, id) = match k {
        CoinsToSpendIndexKey::Coin { utxo_id, .. } => ("c", utxo_id_of(utxo_id)),
        CoinsToSpendIndexKey::Message { nonce, .. } => ("m", nonce_id(nonce)),
    };
    let o = owner_id(k.owner());
    let a = asset_id(k.asset_id());
    let junk = id < 0 || o < 0 || a < 0;
    (json!({"f": k.retryable_flag(), "o": o, "a": a, "v": k.amount(), "k": kind, "id": id}), junk)
}
fn utxo_id_of(u: &UtxoId) -> i64 {
    utxo_id(u)
}

/// Projection of the off-chain database: the five tables and the read-side answers.
pub fn project(w: &World, owners: i64, assets: i64) -> Value {
    let mut junk = 0u64;
    let mut bal = vec![];
    for e in w.off.iter_all::<CoinBalances>(None) {
        let (k, v) = e.unwrap();
        let (o, a) = (owner_id(k.address()), asset_id(k.asset_id()));
        if o < 0 || a < 0 { junk += 1; }
        bal.push(json!({"o": o, "a": a, "v": v as u64}));
    }
    let mut mbal = vec![];
    for e in w.off.iter_all::<MessageBalances>(None) {
        let (k, v) = e.unwrap();
        let o = owner_id(&k);
        if o < 0 { junk += 1; }
        mbal.push(json!({"o": o, "r": v.retryable as u64, "n": v.non_retryable as u64}));
    }
    let mut owned_c = vec![];
    for e in w.off.iter_all_keys::<OwnedCoins>(None) {
        let k = e.unwrap();
        let o = owner_id(&Address::try_from(&k[..32]).unwrap());
        let tx = Bytes32::try_from(&k[32..64]).unwrap();
        let idx = u16::from_be_bytes([k[64], k[65]]);
        let id = utxo_id(&UtxoId::new(tx, idx));
        if o < 0 || id < 0 { junk += 1; }
        owned_c.push(json!([o, id]));
    }
    let mut owned_m = vec![];
    for e in w.off.iter_all_keys::<OwnedMessageIds>(None) {
        let k = e.unwrap();
        let (o, n) = (owner_id(k.address()), nonce_id(k.nonce()));
        if o < 0 || n < 0 { junk += 1; }
        owned_m.push(json!([o, n]));
    }
    let mut c2s = vec![];
    for e in w.off.iter_all_keys::<CoinsToSpendIndex>(None) {
        let (j, bad) = key_json(&e.unwrap());
        if bad { junk += 1; }
        c2s.push(j);
    }
    // read side
    let view = w.view(3);
    let off_view = w.off.latest_view().unwrap();
    let mut total = vec![];
    let mut qc = vec![];
    let mut qm = vec![];
    let mut q2s = vec![];
    for o in 1..=owners {
        let ow = owner(o);
        let ids: Vec<i64> = w.rt.block_on(view.owned_coins_ids(&ow, None, IterDirection::Forward).try_collect::<Vec<_>>())
            .unwrap().iter().map(utxo_id).collect();
        qc.push(json!(ids));
        let ns: Vec<i64> = w.rt.block_on(view.owned_message_ids(&ow, None, IterDirection::Forward).try_collect::<Vec<_>>())
            .unwrap().iter().map(nonce_id).collect();
        qm.push(json!(ns));
        for a in 0..assets {
            let t = w.rt.block_on(view.balance(ow, asset(a), w.base)).unwrap().amount as u64;
            total.push(json!({"o": o, "a": a, "v": t}));
            let it = off_view.coins_to_spend_index(&ow, &asset(a));
            let keys: Vec<Value> = it.big_coins_iter.map(|k| {
                let (j, _) = key_json(&k.unwrap());
                json!({"k": j["k"], "id": j["id"], "v": j["v"]})
            }).collect();
            q2s.push(json!({"o": o, "a": a, "e": keys}));
        }
    }
    json!({"bal": bal, "mbal": mbal, "ownedC": owned_c, "ownedM": owned_m, "c2s": c2s, "junk": junk,
           "total": total, "qc": qc, "qm": qm, "q2s": q2s})
}

fn apply(w: &mut World, t: &mut Trace, name: &str, id: i64, o: i64, a: i64, v: i64, r: bool) {
    match name {
        "CoinCreated" => {
            w.coin_created(id, o, a, v as u64);
            t.event("CoinCreated", json!({"id": id, "o": o, "a": a, "v": v}));
        }
        "CoinConsumed" => match w.coin_consumed(id) {
            Some(c) => t.event("CoinConsumed", json!({"id": id, "o": owner_id(&c.owner), "a": asset_id(&c.asset_id), "v": c.amount})),
            None => t.event("Skip", json!({"what": "CoinConsumed of unknown coin", "id": id})),
        },
        "MessageImported" => {
            w.message_imported(id, o, v as u64, r);
            t.event("MessageImported", json!({"id": id, "o": o, "v": v, "r": r}));
        }
        "MessageConsumed" => match w.message_consumed(id) {
            Some(m) => t.event("MessageConsumed", json!({"id": id, "o": owner_id(m.recipient()), "v": m.amount(), "r": m.is_retryable_message()})),
            None => t.event("Skip", json!({"what": "MessageConsumed of unknown message", "id": id})),
        },
        other => h_common::die(&format!("unknown action {other}")),
    }
}

fn commit(w: &mut World, t: &mut Trace, owners: i64, assets: i64) {
    let r = guarded(|| w.commit_block());
    let res = match r {
        Ok(Ok(())) => "ok".to_string(),
        Ok(Err(e)) => format!("Err:{e}"),
        Err(p) => format!("Panic:{p}"),
    };
    let st = project(w, owners, assets);
    t.event("Commit", json!({"res": res, "st": st}));
}

pub fn run(args: &Args) {
    let (owners, assets) = (args.num("owners", 2) as i64, args.num("assets", 2) as i64);
    let walks = read_walks(args.req("walks"));
    let mut t = Trace::create(args.req("out"));
    for wk in walks {
        t.reset(wk.id, json!({}));
        let mut w = World::new();
        for s in &wk.steps {
            match s.name() {
                "Commit" => commit(&mut w, &mut t, owners, assets),
                "CoinCreated" => apply(&mut w, &mut t, "CoinCreated", s.int("id"), s.int("o"), s.int("ast"), s.int("v"), false),
                "CoinConsumed" => apply(&mut w, &mut t, "CoinConsumed", s.int("id"), 0, 0, 0, false),
                "MessageImported" => apply(&mut w, &mut t, "MessageImported", s.int("id"), s.int("o"), 0, s.int("v"), s.boolean("r")),
                "MessageConsumed" => apply(&mut w, &mut t, "MessageConsumed", s.int("id"), 0, 0, 0, false),
                other => h_common::die(&format!("unknown action {other}")),
            }
        }
    }
    t.finish();
}

/// Seeded histories: blocks of 0..6 events; creations with fresh ids, consumptions of random unspent
/// resources (also ones created earlier in the same block), same-amount and zero-amount resources,
/// retryable and non-retryable messages, several owners and assets.
pub fn random(args: &Args) {
    let (owners, assets) = (args.num("owners", 2) as i64, args.num("assets", 2) as i64);
    let (nc, nm) = (args.num("coins", 6) as i64, args.num("msgs", 4) as i64);
    let blocks = args.num("len", 8);
    let amts: Vec<i64> = vec![0, 1, 1, 2, 3, 5, 8];
    let mut rng = Rng::new(h_common::env_seed().wrapping_mul(104729).wrapping_add(36));
    let mut t = Trace::create(args.req("out"));
    for id in 0..args.num("walks", 100) {
        t.reset(id as i64, json!({}));
        let mut w = World::new();
        let (mut next_c, mut next_m) = (1i64, 1i64);
        let mut live_c: Vec<i64> = vec![];
        let mut live_m: Vec<i64> = vec![];
        for _ in 0..blocks {
            for _ in 0..rng.below(7) {
                match rng.below(10) {
                    0..=2 if next_c <= nc => {
                        let (o, a, v) = (rng.range(1, owners), rng.range(0, assets - 1), *rng.pick(&amts));
                        apply(&mut w, &mut t, "CoinCreated", next_c, o, a, v, false);
                        live_c.push(next_c);
                        next_c += 1;
                    }
                    3..=4 if next_m <= nm => {
                        let (o, v, r) = (rng.range(1, owners), *rng.pick(&amts), rng.chance(1, 2));
                        apply(&mut w, &mut t, "MessageImported", next_m, o, 0, v, r);
                        live_m.push(next_m);
                        next_m += 1;
                    }
                    5..=7 if !live_c.is_empty() => {
                        let i = rng.below(live_c.len() as u64) as usize;
                        let c = live_c.swap_remove(i);
                        apply(&mut w, &mut t, "CoinConsumed", c, 0, 0, 0, false);
                    }
                    8..=9 if !live_m.is_empty() => {
                        let i = rng.below(live_m.len() as u64) as usize;
                        let m = live_m.swap_remove(i);
                        apply(&mut w, &mut t, "MessageConsumed", m, 0, 0, 0, false);
                    }
                    _ => {}
                }
            }
            commit(&mut w, &mut t, owners, assets);
        }
    }
    t.finish();
}
