//! C37 — answers of the real coin selection algorithms over generated wallets.
//!   indexed : select_coins_to_spend over the CoinsToSpend index built by the real indexation
//!   largest : largest_first(AssetQuery)         (non-indexed path)
//!   improve : random_improve(ReadView, SpendQuery)
//! The wallet is created through executor events (world.rs), spent resources are consumed again, so the
//! indexes are produced by the real off-chain code.  Answers are logged; TLC (Trace_CoinsQuery) judges.

use crate::world::*;
use fuel_core::{
    coins_query::{largest_first, random_improve, select_coins_to_spend, CoinsQueryError, SpendQuery},
    fuel_core_graphql_api::{ports::OffChainDatabase, storage::coins::CoinsToSpendIndexKey},
    query::asset_query::{AssetQuery, AssetSpendTarget, Exclude},
};
use fuel_core_storage::transactional::AtomicView;
use fuel_core_types::entities::coins::{CoinId, CoinType};
use h_common::{guarded, json, Args, Rng, Trace};
use serde_json::Value;
use std::borrow::Cow;

#[derive(Clone)]
struct Res {
    id: i64,
    k: &'static str,
    o: i64,
    a: i64,
    v: i64,
    r: bool,
    s: bool,
}

fn err_json(e: &CoinsQueryError) -> Value {
    let why = match e {
        CoinsQueryError::MaxCoinsReached { .. } => "max".to_string(),
        CoinsQueryError::InsufficientCoins { .. } => "insufficient".to_string(),
        other => format!("other: {other}"),
    };
    json!({"kind": "err", "why": why, "sel": []})
}
fn ok_json(ids: Vec<i64>) -> Value {
    json!({"kind": "ok", "why": "", "sel": ids})
}
fn coin_type_id(c: &CoinType) -> i64 {
    match c {
        CoinType::Coin(c) => utxo_id(&c.utxo_id),
        CoinType::MessageCoin(m) => nonce_id(&m.nonce),
    }
}
fn key_id(k: &CoinsToSpendIndexKey) -> i64 {
    match k {
        CoinsToSpendIndexKey::Coin { utxo_id: u, .. } => utxo_id(u),
        CoinsToSpendIndexKey::Message { nonce: n, .. } => nonce_id(n),
    }
}

struct Q {
    algo: &'static str,
    o: i64,
    a: i64,
    t: i64,
    max: i64,
    ex: Vec<i64>,
    p: bool,
}

fn ask(w: &World, wallet: &[Res], q: &Q, batch: usize) -> Value {
    let ow = owner(q.o);
    let target = AssetSpendTarget::new(asset(q.a), q.t as u128, q.max as u16, q.p);
    let exclude = Exclude::new(
        q.ex.iter()
            .map(|i| match wallet.iter().find(|r| r.id == *i).map(|r| r.k) {
                Some("m") => CoinId::Message(nonce(*i)),
                _ => CoinId::Utxo(utxo(*i)),
            })
            .collect(),
    );
    let r = guarded(|| match q.algo {
        "indexed" => {
            let view = w.off.latest_view().unwrap();
            let it = view.coins_to_spend_index(&ow, &asset(q.a));
            match w.rt.block_on(select_coins_to_spend(it, target.clone(), &exclude, batch, ow)) {
                Ok(keys) => ok_json(keys.iter().map(key_id).collect()),
                Err(e) => err_json(&e),
            }
        }
        "largest" => {
            let view = w.view(batch);
            let aq = AssetQuery::new(&ow, &target, &w.base, Some(&exclude), &view);
            match w.rt.block_on(largest_first(aq)) {
                Ok(cs) => ok_json(cs.iter().map(coin_type_id).collect()),
                Err(e) => err_json(&e),
            }
        }
        _ => {
            let view = w.view(batch);
            let sq = match SpendQuery::new(ow, &[target.clone()], Cow::Borrowed(&exclude), w.base) {
                Ok(sq) => sq,
                Err(e) => return err_json(&e),
            };
            match w.rt.block_on(random_improve(&view, &sq)) {
                Ok(mut per_asset) => ok_json(per_asset.remove(0).iter().map(coin_type_id).collect()),
                Err(e) => err_json(&e),
            }
        }
    });
    match r {
        Ok(v) => v,
        Err(p) => json!({"kind": "panic", "why": p, "sel": []}),
    }
}

/// amount distributions mixing dust and big coins around the algorithm's thresholds
fn amounts(rng: &mut Rng, n: usize) -> Vec<i64> {
    let shape = rng.below(6);
    (0..n)
        .map(|i| match shape {
            0 => rng.range(0, 3),                                                      // all dust (and zeros)
            1 => if i % 4 == 0 { rng.range(20, 60) } else { rng.range(0, 3) },        // few big, much dust
            2 => *rng.pick(&[1, 2, 4, 8, 16, 32]),                                     // powers of two
            3 => 5,                                                                    // all equal (ties)
            4 => if rng.chance(1, 2) { rng.range(9, 11) } else { rng.range(1, 2) },   // around x5 / x2
            _ => rng.range(0, 40),
        })
        .collect()
}

fn build(rng: &mut Rng, t: &mut Trace, n: usize) -> (World, Vec<Res>) {
    let mut w = World::new();
    let vs = amounts(rng, n);
    let mut wallet = vec![];
    for i in 0..n {
        let id = i as i64 + 1;
        let is_msg = rng.chance(1, 3);
        let foreign = rng.below(10);
        let o = if foreign == 0 { 2 } else { 1 };
        let a = if !is_msg && foreign == 1 { 1 } else { 0 };
        let r = is_msg && foreign == 2;
        let s = foreign == 3;
        let res = Res { id, k: if is_msg { "m" } else { "c" }, o, a, v: vs[i], r, s };
        if is_msg { w.message_imported(id, o, res.v as u64, r) } else { w.coin_created(id, o, a, res.v as u64) }
        wallet.push(res);
    }
    w.commit_block().unwrap();
    for r in wallet.iter().filter(|r| r.s) {
        if r.k == "m" { w.message_consumed(r.id); } else { w.coin_consumed(r.id); }
    }
    w.commit_block().unwrap();
    let list: Vec<Value> = wallet
        .iter()
        .map(|r| json!({"id": r.id, "k": r.k, "o": r.o, "a": r.a, "v": r.v, "r": r.r, "s": r.s}))
        .collect();
    t.event("Wallet", json!({"res": list}));
    (w, wallet)
}

fn query(rng: &mut Rng, wallet: &[Res], algo: &'static str, allow_max0: bool) -> Q {
    let n = wallet.len() as i64;
    let a = if rng.chance(1, 8) { 1 } else { 0 };
    let o = if rng.chance(1, 12) { 2 } else { 1 };
    let mine: Vec<&Res> = wallet.iter().filter(|r| r.o == o && !r.s && !r.r && (if r.k == "c" { r.a == a } else { a == 0 })).collect();
    let total: i64 = mine.iter().map(|r| r.v).sum();
    let biggest = mine.iter().map(|r| r.v).max().unwrap_or(0);
    let t = match rng.below(10) {
        0 => 0,
        1 => 1,
        2 => total,
        3 => total + 1,
        4 => (total - 1).max(0),
        5 => biggest,
        6 => biggest / 2 + 1,
        7 => total / 2,
        8 => biggest * 2,
        _ => rng.range(0, total + 2),
    };
    let mut max = match rng.below(8) {
        0 => 1,
        1 => 2,
        2 => 3,
        3 => n,
        4 => 255,
        5 => 0,
        _ => rng.range(1, n.max(1)),
    };
    if max == 0 && !allow_max0 {
        max = 1;
    }
    let mut ex = vec![];
    if rng.chance(1, 2) {
        for r in wallet {
            if rng.chance(1, 4) { ex.push(r.id); }
        }
    }
    Q { algo, o, a, t, max, ex, p: rng.chance(1, 3) }
}

pub fn random(args: &Args) {
    let n_walks = args.num("walks", 100);
    let maxn = args.num("maxn", 10) as i64;
    let per = args.num("len", 12);
    let mut rng = Rng::new(h_common::env_seed().wrapping_mul(15485863).wrapping_add(37));
    let mut t = Trace::create(args.req("out"));
    for id in 0..n_walks {
        t.reset(id as i64, json!({}));
        let n = rng.range(0, maxn) as usize;
        let (w, wallet) = build(&mut rng, &mut t, n);
        for _ in 0..per {
            let algo = *rng.pick(&["indexed", "indexed", "largest", "improve"]);
            // max = 0 on the indexed path is known finding C37-1 (probe mode below)
            let q = query(&mut rng, &wallet, algo, algo != "indexed");
            let batch = *rng.pick(&[1usize, 2, 3, 100]);
            let res = ask(&w, &wallet, &q, batch);
            t.event("Query", json!({"algo": q.algo, "o": q.o, "a": q.a, "t": q.t, "max": q.max, "ex": q.ex, "p": q.p, "res": res}));
        }
    }
    t.finish();
}

/// One walk with the request shape of known finding C37-1: indexed path, max = 0, target > 0, not partial.
pub fn probe_max0(args: &Args) {
    let mut rng = Rng::new(37);
    let mut t = Trace::create(args.req("out"));
    t.reset(0, json!({}));
    let (w, wallet) = build(&mut rng, &mut t, 4);
    let q = Q { algo: "indexed", o: 1, a: 0, t: 3, max: 0, ex: vec![], p: false };
    let res = ask(&w, &wallet, &q, 100);
    t.event("Query", json!({"algo": q.algo, "o": q.o, "a": q.a, "t": q.t, "max": q.max, "ex": q.ex, "p": q.p, "res": res}));
    t.finish();
}
