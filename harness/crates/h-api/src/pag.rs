//! C38 — drives the real `query_pagination` (through the add-only hook `fuel_core::schema::verif`) over
//! small ordered collections.  Action interpreter + logger only: TLC (Trace_Pagination) judges.

use fuel_core::schema::verif::verif_query_pagination;
use fuel_core_storage::iter::IterDirection;
use h_common::{guarded, json, read_walks, Args, Rng, StepExt, Trace};
use serde_json::Value;
use std::collections::BTreeSet;

const NONE: i64 = -1;
const NEG: i64 = -2;

fn opt_cursor(c: i64) -> Option<String> {
    if c == NONE { None } else { Some(c.to_string()) }
}
fn opt_size(n: i64) -> Option<i32> {
    match n {
        NONE => None,
        NEG => Some(-1),
        n => Some(n as i32),
    }
}

struct Pag {
    rt: tokio::runtime::Runtime,
    coll: BTreeSet<u32>,
    dir: String,
    cur: i64,
}

impl Pag {
    fn new() -> Self {
        let rt = tokio::runtime::Builder::new_current_thread().build().unwrap();
        Pag { rt, coll: BTreeSet::new(), dir: "N".into(), cur: NONE }
    }

    /// One call of the real query_pagination; the storage iterator is a BTreeSet range from `start`
    /// inclusive in the requested direction (what the key-value store iterators do).
    fn call(&self, after: i64, before: i64, first: i64, last: i64) -> Value {
        let coll = self.coll.clone();
        let size = if first >= 0 { first } else if last >= 0 { last } else { 0 };
        let r = guarded(|| {
            self.rt.block_on(verif_query_pagination(
                opt_cursor(after),
                opt_cursor(before),
                opt_size(first),
                opt_size(last),
                move |start: Option<u32>, dir: IterDirection| -> Vec<u32> {
                    match (dir, start) {
                        (IterDirection::Forward, None) => coll.iter().copied().collect(),
                        (IterDirection::Forward, Some(s)) => coll.range(s..).copied().collect(),
                        (IterDirection::Reverse, None) => coll.iter().rev().copied().collect(),
                        (IterDirection::Reverse, Some(s)) => coll.range(..=s).rev().copied().collect(),
                    }
                },
            ))
        });
        match r {
            Ok(Ok((edges, hp, hn))) => json!({"kind": "ok", "why": "", "edges": edges, "hp": hp, "hn": hn, "size": size}),
            Ok(Err(msg)) => json!({"kind": "err", "why": msg, "edges": [], "hp": false, "hn": false, "size": 0}),
            Err(p) => json!({"kind": "panic", "why": p, "edges": [], "hp": false, "hn": false, "size": 0}),
        }
    }

    fn request(&self, d: &str, c: i64, n: i64) -> Value {
        if d == "F" { self.call(c, NONE, n, NONE) } else { self.call(NONE, c, NONE, n) }
    }

    fn advance(&mut self, res: &Value) -> bool {
        let edges = res["edges"].as_array().cloned().unwrap_or_default();
        if let Some(e) = edges.last() {
            self.cur = e.as_i64().unwrap_or(NONE);
        }
        res["hn"].as_bool().unwrap_or(false) && !edges.is_empty()
    }

    fn new_coll(&mut self, t: &mut Trace, m: i64) {
        self.coll = (0..31u32).filter(|b| (m >> b) & 1 == 1).map(|b| b + 1).collect();
        self.dir = "N".into();
        self.cur = NONE;
        t.event("New", json!({"m": m, "coll": self.coll.iter().collect::<Vec<_>>()}));
    }
    fn start(&mut self, t: &mut Trace, d: &str, c: i64, n: i64) -> bool {
        let res = self.request(d, c, n);
        self.dir = d.to_string();
        self.cur = c;
        let open = self.advance(&res);
        t.event("Start", json!({"d": d, "c": c, "n": n, "res": res}));
        open
    }
    fn follow(&mut self, t: &mut Trace, n: i64) -> bool {
        let cur = self.cur;
        let d = self.dir.clone();
        let res = self.request(&d, cur, n);
        let open = self.advance(&res);
        t.event("Follow", json!({"n": n, "cur": cur, "res": res}));
        open
    }
    fn end(&mut self, t: &mut Trace) {
        self.dir = "N".into();
        self.cur = NONE;
        t.event("End", json!({}));
    }
    fn reject(&mut self, t: &mut Trace, why: &str) {
        let (c, n) = (1, 2);
        let res = match why {
            "both" => self.call(NONE, NONE, n, n),
            "after_last" => self.call(c, NONE, NONE, n),
            "before_first" => self.call(NONE, c, n, NONE),
            "neither" => self.call(c, NONE, NONE, NONE),
            "negative" => self.call(NONE, NONE, NEG, NONE),
            _ => self.call(NONE, NONE, NONE, NEG),
        };
        t.event("Reject", json!({"why": why, "res": res}));
    }
}

pub fn run(args: &Args) {
    let walks = read_walks(args.req("walks"));
    let mut t = Trace::create(args.req("out"));
    for w in walks {
        t.reset(w.id, json!({}));
        let mut p = Pag::new();
        for s in &w.steps {
            match s.name() {
                "New" => p.new_coll(&mut t, s.int("m")),
                "Start" => {
                    p.start(&mut t, s.str_("d"), s.int("c"), s.int("n"));
                }
                "Follow" => {
                    p.follow(&mut t, s.int("n"));
                }
                "End" => p.end(&mut t),
                "Reject" => p.reject(&mut t, s.str_("why")),
                other => h_common::die(&format!("unknown action {other}")),
            }
        }
    }
    t.finish();
}

/// Seeded driver: random collections over 1..maxkey, complete cursor-following traversals with a page
/// size drawn per page, from the start / the end or from an arbitrary cursor (in or not in the collection).
pub fn random(args: &Args) {
    let n = args.num("walks", 100);
    let maxkey = args.num("maxkey", 9) as i64;
    let maxsize = args.num("maxsize", 11) as i64;
    let mut rng = Rng::new(h_common::env_seed().wrapping_mul(7919).wrapping_add(38));
    let mut t = Trace::create(args.req("out"));
    for id in 0..n {
        t.reset(id as i64, json!({}));
        let mut p = Pag::new();
        let m = match rng.below(8) {
            0 => 0,
            1 => (1i64 << maxkey) - 1,
            _ => rng.below(1u64 << maxkey) as i64,
        };
        p.new_coll(&mut t, m);
        for _ in 0..args.num("len", 6) {
            if rng.chance(1, 12) {
                let w = *rng.pick(&["both", "after_last", "before_first", "neither", "negative", "negative_last"]);
                p.reject(&mut t, w);
                p.end(&mut t);
                continue;
            }
            let d = if rng.chance(1, 2) { "F" } else { "B" };
            let c = if rng.chance(1, 2) { NONE } else { rng.range(0, maxkey + 1) };
            let fixed = if rng.chance(1, 2) { rng.range(1, maxsize) } else { 0 };
            let size = |rng: &mut Rng| if fixed > 0 { fixed } else { rng.range(0, maxsize) };
            let n0 = size(&mut rng);
            let mut open = p.start(&mut t, d, c, n0);
            let mut guard = 0;
            while open && guard < 64 {
                let k = size(&mut rng);
                open = p.follow(&mut t, k);
                guard += 1;
            }
            p.end(&mut t);
        }
    }
    t.finish();
}
