//! Source node state ("world"), its abstraction (entry ids 1..n per table in key order) and the
//! projections of snapshots and destination databases onto those ids.
use fuel_core::{
    chain_config::{
        AsTable,
        SnapshotReader,
        StateConfig,
        TableEntry,
    },
    combined_database::CombinedDatabase,
    database::{
        Database,
        database_description::{
            DatabaseDescription,
            off_chain::OffChain,
            on_chain::OnChain,
        },
    },
    fuel_core_graphql_api::storage::{
        contracts::ContractsInfo,
        messages::SpentMessages,
        old::{
            OldFuelBlockConsensus,
            OldFuelBlocks,
            OldTransactions,
        },
        transactions::{
            OwnedTransactionIndexKey,
            OwnedTransactions,
            TransactionStatuses,
        },
    },
};
use fuel_core_storage::{
    ContractsAssetKey,
    ContractsStateKey,
    Mappable,
    StorageAsMut,
    iter::{
        IterDirection,
        IterableStore,
        IterableTable,
    },
    kv_store::StorageColumn,
    structured_storage::TableWithBlueprint,
    tables::{
        Coins,
        ContractsAssets,
        ContractsLatestUtxo,
        ContractsRawCode,
        ContractsState,
        FuelBlocks,
        Messages,
        ProcessedTransactions,
        SealedBlockConsensus,
        Transactions,
        merkle::{
            FuelBlockMerkleData,
            FuelBlockMerkleMetadata,
        },
    },
    transactional::WriteTransaction,
};
use fuel_core_types::{
    blockchain::{
        block::CompressedBlock,
        consensus::Consensus,
        primitives::DaBlockHeight,
    },
    entities::{
        coins::coin::{
            CompressedCoin,
            CompressedCoinV1,
        },
        contract::ContractUtxoInfo,
        relayer::message::{
            Message,
            MessageV1,
        },
    },
    fuel_tx::{
        Receipt,
        Transaction,
        TransactionBuilder,
        TxPointer,
        UniqueIdentifier,
        UtxoId,
    },
    fuel_types::{
        Address,
        AssetId,
        BlobId,
        BlockHeight,
        Bytes32,
        ChainId,
        ContractId,
        Nonce,
    },
    fuel_vm::BlobData,
    services::transaction_status::TransactionExecutionStatus,
    tai64::Tai64,
};
use h_common::{
    Rng,
    die,
    json,
};
use serde_json::{
    Map,
    Value,
};
use std::{
    collections::{
        BTreeMap,
        HashMap,
    },
    hash::Hasher,
    sync::Arc,
};

/// (migration name = progress key, snapshot table, written to the off-chain database) in the order
/// `SnapshotImporter::run_workers` starts the workers.
pub const MIGRATIONS: &[(&str, &str, bool)] = &[
    ("Coins -> Coins", "Coins", false),
    ("Messages -> Messages", "Messages", false),
    ("Blobs -> Blobs", "Blobs", false),
    ("ContractsRawCode -> ContractsRawCode", "ContractsRawCode", false),
    ("ContractsLatestUtxo -> ContractsLatestUtxo", "ContractsLatestUtxo", false),
    ("ContractsState -> ContractsState", "ContractsState", false),
    ("ContractsAssets -> ContractsAssets", "ContractsAssets", false),
    ("ProcessedTransactions -> ProcessedTransactions", "ProcessedTransactions", false),
    ("FuelBlockMerkleData -> FuelBlockMerkleData", "FuelBlockMerkleData", false),
    ("FuelBlockMerkleMetadata -> FuelBlockMerkleMetadata", "FuelBlockMerkleMetadata", false),
    ("TransactionStatus -> TransactionStatus", "TransactionStatus", true),
    ("TransactionsByOwnerBlockIdx -> TransactionsByOwnerBlockIdx", "TransactionsByOwnerBlockIdx", true),
    ("SpentMessages -> SpentMessages", "SpentMessages", true),
    ("Messages -> OwnedMessageIds", "Messages", true),
    ("Coins -> OwnedCoins", "Coins", true),
    ("FuelBlocks -> OldFuelBlocks", "FuelBlocks", true),
    ("Transactions -> OldTransactions", "Transactions", true),
    ("FuelBlockConsensus -> OldFuelBlockConsensus", "FuelBlockConsensus", true),
    ("ContractsInfo -> ContractsInfo", "ContractsInfo", true),
    ("Transactions -> ContractsInfo", "Transactions", true),
    ("OldTransactions -> ContractsInfo", "OldTransactions", true),
    ("OldFuelBlocks -> OldFuelBlocks", "OldFuelBlocks", true),
    ("OldFuelBlockConsensus -> OldFuelBlockConsensus", "OldFuelBlockConsensus", true),
    ("OldTransactions -> OldTransactions", "OldTransactions", true),
    ("FuelBlocks -> FuelBlockIdsToHeights", "FuelBlocks", true),
    ("OldFuelBlocks -> FuelBlockIdsToHeights", "OldFuelBlocks", true),
];

/// Per snapshot table: postcard(entry) -> id and postcard(key) -> id, ids 1..n in iteration order.
#[derive(Default)]
pub struct TableIds {
    pub n: usize,
    by_entry: HashMap<Vec<u8>, usize>,
    by_key: HashMap<Vec<u8>, usize>,
}

pub struct World {
    pub src: CombinedDatabase,
    pub height: i64,
    pub ids: BTreeMap<String, TableIds>,
}

fn b32(r: &mut Rng) -> [u8; 32] {
    let mut b = [0u8; 32];
    for c in b.chunks_mut(8) {
        c.copy_from_slice(&r.next().to_le_bytes());
    }
    b
}

fn bytes(r: &mut Rng, max: u64) -> Vec<u8> {
    let n = 1 + r.below(max) as usize;
    (0..n).map(|_| r.next() as u8).collect()
}

fn name_of<T: TableWithBlueprint>() -> String
where
    T::Column: StorageColumn,
{
    T::column().name()
}

fn collect_ids<T, D>(db: &Database<D>, out: &mut BTreeMap<String, TableIds>)
where
    T: TableWithBlueprint<Column = D::Column> + Mappable,
    D: DatabaseDescription,
    Database<D>: IterableTable<T>,
    TableEntry<T>: serde::Serialize,
    T::OwnedKey: serde::Serialize,
{
    let mut t = TableIds::default();
    for e in db.entries::<T>(None, IterDirection::Forward) {
        let e = e.unwrap_or_else(|e| die(&format!("source iteration: {e:?}")));
        t.n += 1;
        t.by_entry.insert(postcard::to_stdvec(&e).unwrap(), t.n);
        t.by_key.insert(postcard::to_stdvec(&e.key).unwrap(), t.n);
    }
    out.insert(name_of::<T>(), t);
}

/// id of an entry: its source id if key and value are those of the source entry, id + 100 if the key
/// exists in the source with another value, 900 + k for a key the source does not have.
fn entry_id<T>(ids: &TableIds, e: &TableEntry<T>, unknown: &mut i64) -> i64
where
    T: Mappable,
    TableEntry<T>: serde::Serialize,
    T::OwnedKey: serde::Serialize,
{
    if let Some(i) = ids.by_entry.get(&postcard::to_stdvec(e).unwrap()) {
        return *i as i64;
    }
    if let Some(i) = ids.by_key.get(&postcard::to_stdvec(&e.key).unwrap()) {
        return *i as i64 + 100;
    }
    *unknown += 1;
    900 + *unknown
}

fn groups_of<T>(reader: &SnapshotReader, ids: &BTreeMap<String, TableIds>, out: &mut Map<String, Value>, by_key_of: Option<&str>)
where
    T: TableWithBlueprint + Mappable,
    T::Column: StorageColumn,
    StateConfig: AsTable<T>,
    TableEntry<T>: serde::Serialize + serde::de::DeserializeOwned,
    T::OwnedKey: serde::Serialize,
{
    let name = name_of::<T>();
    let empty = TableIds::default();
    let tids = ids.get(&name).unwrap_or(&empty);
    let mut unknown = 0;
    let mut gs = Vec::new();
    match reader.read::<T>() {
        Ok(groups) => {
            for g in groups {
                match g {
                    Ok(entries) => gs.push(json!(
                        entries
                            .iter()
                            .map(|e| match by_key_of {
                                // entries derived by the reader (ContractsInfo of a JSON snapshot): identified
                                // by the contract they belong to
                                Some(t) => ids
                                    .get(t)
                                    .and_then(|x| x.by_key.get(&postcard::to_stdvec(&e.key).unwrap()))
                                    .map(|i| *i as i64)
                                    .unwrap_or(999),
                                None => entry_id::<T>(tids, e, &mut unknown),
                            })
                            .collect::<Vec<_>>()
                    )),
                    Err(_) => gs.push(json!([-1])),
                }
            }
        }
        Err(_) => gs.push(json!([-2])),
    }
    out.insert(name, Value::Array(gs));
}

fn dest_ids<T>(db: &Database<OnChain>, ids: &BTreeMap<String, TableIds>, out: &mut Map<String, Value>)
where
    T: TableWithBlueprint<Column = <OnChain as DatabaseDescription>::Column> + Mappable,
    Database<OnChain>: IterableTable<T>,
    TableEntry<T>: serde::Serialize,
    T::OwnedKey: serde::Serialize,
{
    let name = name_of::<T>();
    let empty = TableIds::default();
    let tids = ids.get(&name).unwrap_or(&empty);
    let mut unknown = 0;
    let mut v = Vec::new();
    for e in db.entries::<T>(None, IterDirection::Forward) {
        match e {
            Ok(e) => v.push(entry_id::<T>(tids, &e, &mut unknown)),
            Err(_) => v.push(-1),
        }
    }
    out.insert(name, json!(v));
}

macro_rules! on_chain_snapshot_tables {
    ($mac:ident) => {
        $mac!(Coins, Messages, BlobData, ContractsRawCode, ContractsLatestUtxo, ContractsState, ContractsAssets,
              FuelBlocks, FuelBlockMerkleData, FuelBlockMerkleMetadata, Transactions, SealedBlockConsensus,
              ProcessedTransactions);
    };
}
macro_rules! off_chain_snapshot_tables {
    ($mac:ident) => {
        $mac!(TransactionStatuses, OwnedTransactions, OldFuelBlocks, OldFuelBlockConsensus, OldTransactions, SpentMessages);
    };
}

impl World {
    /// shape: {"coins":n,"msgs":n,"blobs":n,"contracts":[[slots,balances],..],"blocks":n,"st":n,"ot":n,"sm":n,"old":n}
    pub fn build(shape: &Value, seed: u64) -> World {
        let get = |k: &str| shape.get(k).and_then(|v| v.as_u64()).unwrap_or(0);
        let mut r = Rng::new(seed ^ 0x6e5_1234);
        let mut src = CombinedDatabase::in_memory();
        let blocks = get("blocks").max(1);
        let top = (blocks - 1) as u32;
        let da_top = 10 + top as u64;
        let ptr = |r: &mut Rng| TxPointer::new(BlockHeight::from(r.below(top as u64 + 1) as u32), r.below(4) as u16);
        {
            let on = src.on_chain_mut();
            for _ in 0..get("coins") {
                let key = UtxoId::new(b32(&mut r).into(), r.below(3) as u16);
                let coin = CompressedCoin::V1(CompressedCoinV1 {
                    owner: Address::from(b32(&mut r)),
                    amount: 1 + r.below(1_000_000),
                    asset_id: if r.chance(1, 2) { AssetId::BASE } else { AssetId::from(b32(&mut r)) },
                    tx_pointer: ptr(&mut r),
                });
                on.storage_as_mut::<Coins>().insert(&key, &coin).unwrap();
            }
            for _ in 0..get("msgs") {
                let m = Message::V1(MessageV1 {
                    sender: Address::from(b32(&mut r)),
                    recipient: Address::from(b32(&mut r)),
                    nonce: Nonce::from(b32(&mut r)),
                    amount: 1 + r.below(1_000_000),
                    // messages with and without data (only the latter count as spendable balance)
                    data: if r.chance(1, 2) { vec![] } else { bytes(&mut r, 20) },
                    da_height: DaBlockHeight(r.below(da_top + 1)),
                });
                on.storage_as_mut::<Messages>().insert(m.nonce(), &m).unwrap();
            }
            for _ in 0..get("blobs") {
                let id = BlobId::from(b32(&mut r));
                let payload = bytes(&mut r, 40);
                on.storage_as_mut::<BlobData>().insert(&id, payload.as_slice()).unwrap();
            }
            let empty = vec![];
            for c in shape.get("contracts").and_then(|v| v.as_array()).unwrap_or(&empty) {
                let slots = c.get(0).and_then(|v| v.as_u64()).unwrap_or(0);
                let bals = c.get(1).and_then(|v| v.as_u64()).unwrap_or(0);
                let id = ContractId::from(b32(&mut r));
                let code = bytes(&mut r, 60);
                on.storage_as_mut::<ContractsRawCode>().insert(&id, code.as_slice()).unwrap();
                let utxo = ContractUtxoInfo::V1((UtxoId::new(b32(&mut r).into(), r.below(3) as u16), ptr(&mut r)).into());
                on.storage_as_mut::<ContractsLatestUtxo>().insert(&id, &utxo).unwrap();
                for _ in 0..slots {
                    let k = ContractsStateKey::new(&id, &Bytes32::from(b32(&mut r)));
                    // values of 32 bytes and of other lengths
                    let v = if r.chance(1, 2) { b32(&mut r).to_vec() } else { bytes(&mut r, 50) };
                    on.storage_as_mut::<ContractsState>().insert(&k, v.as_slice()).unwrap();
                }
                for _ in 0..bals {
                    let k = ContractsAssetKey::new(&id, &AssetId::from(b32(&mut r)));
                    on.storage_as_mut::<ContractsAssets>().insert(&k, &(1 + r.below(1_000_000))).unwrap();
                }
            }
            // the chain: blocks 0..=top, one transaction each; the last transaction is a Create
            for h in 0..=top {
                let mut tx = on.write_transaction();
                let t: Transaction = if h == top && top > 0 {
                    TransactionBuilder::create(bytes(&mut r, 30).into(), b32(&mut r).into(), vec![])
                        .add_fee_input()
                        .add_contract_created()
                        .finalize_as_transaction()
                } else {
                    TransactionBuilder::script(bytes(&mut r, 30), bytes(&mut r, 30))
                        .add_fee_input()
                        .finalize_as_transaction()
                };
                let id = t.id(&ChainId::default());
                let mut block = CompressedBlock::default();
                block.header_mut().set_block_height(BlockHeight::from(h));
                block.header_mut().set_da_height(DaBlockHeight(10 + h as u64));
                block.transactions_mut().push(id);
                tx.storage_as_mut::<FuelBlocks>().insert(&BlockHeight::from(h), &block).unwrap();
                tx.storage_as_mut::<SealedBlockConsensus>()
                    .insert(&BlockHeight::from(h), &Consensus::PoA(Default::default()))
                    .unwrap();
                tx.storage_as_mut::<Transactions>().insert(&id, &t).unwrap();
                tx.storage_as_mut::<ProcessedTransactions>().insert(&id, &()).unwrap();
                tx.commit().unwrap_or_else(|e| die(&format!("source block {h}: {e:?}")));
            }
        }
        {
            let off = src.off_chain_mut();
            for _ in 0..get("st") {
                let key = Bytes32::from(b32(&mut r));
                let status = TransactionExecutionStatus::Success {
                    block_height: BlockHeight::from(r.below(top as u64 + 1) as u32),
                    time: Tai64(r.below(1 << 30)),
                    result: None,
                    receipts: Arc::new(vec![Receipt::Return {
                        id: ContractId::from(b32(&mut r)),
                        val: r.next(),
                        pc: r.next(),
                        is: r.next(),
                    }]),
                    total_gas: r.below(1 << 20),
                    total_fee: r.below(1 << 20),
                };
                off.storage_as_mut::<TransactionStatuses>().insert(&key, &status).unwrap();
            }
            for _ in 0..get("ot") {
                let key = OwnedTransactionIndexKey {
                    owner: Address::from(b32(&mut r)),
                    block_height: BlockHeight::from(r.below(top as u64 + 1) as u32),
                    tx_idx: r.below(4) as u16,
                };
                off.storage_as_mut::<OwnedTransactions>().insert(&key, &Bytes32::from(b32(&mut r))).unwrap();
            }
            for _ in 0..get("sm") {
                off.storage_as_mut::<SpentMessages>().insert(&Nonce::from(b32(&mut r)), &()).unwrap();
            }
            // history of a chain that already went through a regenesis
            for k in 0..get("old") {
                let h = BlockHeight::from(1000 + k as u32);
                let t: Transaction = TransactionBuilder::script(bytes(&mut r, 30), bytes(&mut r, 30))
                    .add_fee_input()
                    .finalize_as_transaction();
                let id = t.id(&ChainId::default());
                let mut block = CompressedBlock::default();
                block.header_mut().set_block_height(h);
                block.transactions_mut().push(id);
                off.storage_as_mut::<OldFuelBlocks>().insert(&h, &block).unwrap();
                off.storage_as_mut::<OldFuelBlockConsensus>().insert(&h, &Consensus::PoA(Default::default())).unwrap();
                off.storage_as_mut::<OldTransactions>().insert(&id, &t).unwrap();
            }
        }
        let mut ids = BTreeMap::new();
        macro_rules! on_ids { ($($t:ty),*) => { $(collect_ids::<$t, OnChain>(src.on_chain(), &mut ids);)* }; }
        macro_rules! off_ids { ($($t:ty),*) => { $(collect_ids::<$t, OffChain>(src.off_chain(), &mut ids);)* }; }
        on_chain_snapshot_tables!(on_ids);
        off_chain_snapshot_tables!(off_ids);
        ids.insert("ContractsInfo".to_string(), TableIds::default());
        World { src, height: top as i64, ids }
    }

    pub fn sizes(&self) -> Value {
        let mut o = Map::new();
        for (k, v) in &self.ids {
            o.insert(k.clone(), json!(v.n));
        }
        Value::Object(o)
    }

    /// groups of every snapshot table as the real reader yields them, entries as ids
    pub fn snapshot_groups(&self, reader: &SnapshotReader) -> Value {
        let mut o = Map::new();
        macro_rules! gs { ($($t:ty),*) => { $(groups_of::<$t>(reader, &self.ids, &mut o, None);)* }; }
        on_chain_snapshot_tables!(gs);
        off_chain_snapshot_tables!(gs);
        groups_of::<ContractsInfo>(reader, &self.ids, &mut o, Some("ContractsRawCode"));
        Value::Object(o)
    }

    /// the tables property C39 names, read from the destination node, entries as ids
    pub fn dest_tables(&self, db: &CombinedDatabase) -> Value {
        let mut o = Map::new();
        macro_rules! ds { ($($t:ty),*) => { $(dest_ids::<$t>(db.on_chain(), &self.ids, &mut o);)* }; }
        ds!(Coins, Messages, BlobData, ContractsRawCode, ContractsLatestUtxo, ContractsState, ContractsAssets,
            ProcessedTransactions, FuelBlockMerkleData, FuelBlockMerkleMetadata);
        Value::Object(o)
    }
}

fn column_digest<D>(db: &Database<D>, prefix: &str, out: &mut Vec<(String, u64)>)
where
    D: DatabaseDescription,
    D::Column: enum_iterator::Sequence + StorageColumn,
    Database<D>: IterableStore<Column = D::Column>,
{
    for col in enum_iterator::all::<D::Column>() {
        // DatabaseMetadata serialises a HashSet (indexation kinds) in its per-instance iteration order: the
        // bytes are not a function of the state.  The height it stores is logged separately.
        if col.name() == "Metadata" {
            continue;
        }
        let mut h = std::collections::hash_map::DefaultHasher::new();
        let mut n = 0u64;
        for kv in db.iter_store(col, None, None, IterDirection::Forward) {
            match kv {
                Ok((k, v)) => {
                    h.write_usize(k.len());
                    h.write(&k);
                    h.write_usize(v.len());
                    h.write(&v);
                    n += 1;
                }
                Err(_) => h.write_u8(0xEE),
            }
        }
        h.write_u64(n);
        out.push((format!("{prefix}:{}", col.name()), h.finish()));
    }
}

/// digest of every column of the on-chain and the off-chain database
pub fn digests(db: &CombinedDatabase) -> Vec<(String, u64)> {
    let mut out = Vec::new();
    column_digest::<OnChain>(db.on_chain(), "on", &mut out);
    column_digest::<OffChain>(db.off_chain(), "off", &mut out);
    out
}
