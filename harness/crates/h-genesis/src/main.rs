//! h-genesis — action interpreter for C39 / C40 (specs/Genesis.tla).
//!
//! Executes, on the real fuel-core objects,
//!   Export    : build a source node state, run the real `Exporter::write_full_snapshot` into real
//!               snapshot files (JSON or parquet) and open them with the real `SnapshotReader`
//!   Reference : an uninterrupted `execute_genesis_block` + genesis block commit on fresh databases
//!   Run       : `execute_genesis_block` on the walk's databases, with at most one interruption
//!               injected through the `verif` hook of `ImportTask::run` on the import thread
//!   CommitBlock / DropResult : commit (or lose) the returned genesis block
//!   ClearOffChain : `clear_off_chain_genesis_progress`, as `FuelService::prepare_genesis` calls it
//! and logs one event per observable step (hook points included).  It asserts nothing.
mod world;

use fuel_core::{
    chain_config::{
        ChainConfig,
        MAX_GROUP_SIZE,
        SnapshotMetadata,
        SnapshotReader,
        SnapshotWriter,
        ZstdCompressionLevel,
    },
    combined_database::CombinedDatabase,
    database::{
        database_description::{
            off_chain::OffChain,
            on_chain::OnChain,
        },
        genesis_progress::GenesisMetadata,
    },
    service::{
        Config,
        adapters::block_importer::NoopBlockReconciliationWriteAdapter,
        genesis::{
            Exporter,
            clear_off_chain_genesis_progress,
            execute_genesis_block,
            verif::{
                ImportPoint,
                set_import_callback,
            },
        },
    },
    state::historical_rocksdb::StateRewindPolicy,
};
use fuel_core_importer::ports::{
    MockBlockVerifier,
    MockValidator,
};
use fuel_core_services::{
    State,
    StateWatcher,
};
use fuel_core_storage::{
    StorageAsRef,
    transactional::{
        AtomicView,
        Changes,
    },
};
use fuel_core_types::services::block_importer::UncommittedResult;
use h_common::{
    Args,
    StepExt,
    Trace,
    die,
    guarded,
    json,
    read_walks,
};
use serde_json::{
    Map,
    Value,
};
use std::{
    collections::HashMap,
    sync::{
        Arc,
        Mutex,
    },
};
use world::{
    MIGRATIONS,
    World,
};

/// One interruption to inject into a run.
#[derive(Clone, Debug)]
struct Directive {
    kind: String, // "fail" | "cancel"
    m: String,
    i: i64,
    pt: String,
}

/// Shared between the harness thread and the hook callback (which runs on the import thread(s)).
struct Ctl {
    directive: Option<Directive>,
    fired: bool,
    events: Vec<(String, Value)>,
    sender: Option<tokio::sync::watch::Sender<State>>,
    db: Option<CombinedDatabase>,
}

fn point_name(p: ImportPoint) -> &'static str {
    match p {
        ImportPoint::TaskStart => "task_start",
        ImportPoint::GroupStart => "group_start",
        ImportPoint::AfterProcess => "after_process",
        ImportPoint::BeforeCommit => "before_commit",
        ImportPoint::AfterCommit => "after_commit",
    }
}

/// GenesisMetadata progress of one migration, -1 = no key.
fn progress_of(db: &CombinedDatabase, m: &str, off: bool) -> i64 {
    let r = if off {
        db.off_chain()
            .storage::<GenesisMetadata<OffChain>>()
            .get(m)
            .map(|v| v.map(|c| c.into_owned()))
    } else {
        db.on_chain()
            .storage::<GenesisMetadata<OnChain>>()
            .get(m)
            .map(|v| v.map(|c| c.into_owned()))
    };
    match r {
        Ok(Some(i)) => i as i64,
        Ok(None) => -1,
        Err(_) => -2,
    }
}

fn is_off(m: &str) -> bool {
    MIGRATIONS.iter().find(|x| x.0 == m).map(|x| x.2).unwrap_or(false)
}

fn all_progress(db: &CombinedDatabase) -> Value {
    let mut o = Map::new();
    for (m, _, off) in MIGRATIONS {
        o.insert(m.to_string(), json!(progress_of(db, m, *off)));
    }
    Value::Object(o)
}

fn install_callback(ctl: Arc<Mutex<Ctl>>) {
    set_import_callback(Some(Arc::new(move |point, m: &str, idx: usize| {
        let mut c = ctl.lock().unwrap_or_else(|e| e.into_inner());
        let pt = point_name(point);
        let p = c.db.as_ref().map(|db| progress_of(db, m, is_off(m))).unwrap_or(-3);
        match point {
            ImportPoint::TaskStart => c.events.push(("Task".into(), json!({"m": m, "skip": idx, "p": p}))),
            ImportPoint::GroupStart => c.events.push(("Start".into(), json!({"m": m, "i": idx, "p": p}))),
            ImportPoint::AfterCommit => c.events.push(("Commit".into(), json!({"m": m, "i": idx, "p": p}))),
            _ => {}
        }
        let hit = match (&c.directive, c.fired) {
            (Some(d), false) => d.m == m && d.i == idx as i64 && d.pt == pt,
            _ => false,
        };
        if hit {
            c.fired = true;
            let d = c.directive.clone().unwrap();
            if d.kind == "cancel" {
                if let Some(s) = &c.sender {
                    let _ = s.send(State::Stopping);
                }
                c.events.push(("Cancel".into(), json!({"m": m, "i": idx, "pt": pt})));
            } else {
                c.events.push(("Fail".into(), json!({"m": m, "i": idx, "pt": pt, "p": p})));
                return Err(anyhow::anyhow!("verif: injected failure at {pt} of group {idx} of {m}"));
            }
        }
        Ok(())
    })));
}

struct Snapshot {
    _dir: tempfile::TempDir,
    meta: SnapshotMetadata,
    json_group: usize,
}

impl Snapshot {
    fn reader(&self) -> SnapshotReader {
        SnapshotReader::open_w_config(self.meta.clone(), self.json_group)
            .unwrap_or_else(|e| die(&format!("open snapshot: {e}")))
    }
}

fn runtime() -> tokio::runtime::Runtime {
    tokio::runtime::Builder::new_current_thread().enable_all().build().unwrap()
}

/// Real exporter -> real files.
fn export(world: &World, enc: &str, g: usize) -> Result<Snapshot, String> {
    let dir = tempfile::tempdir().map_err(|e| e.to_string())?;
    let path = dir.path().to_path_buf();
    let group = if g == 0 { MAX_GROUP_SIZE } else { g };
    let rt = runtime();
    let db = world.src.clone();
    let res: Result<anyhow::Result<()>, String> = guarded(|| {
        rt.block_on(async {
            match enc {
                "json" => {
                    let p = path.clone();
                    // the CLI exports JSON with MAX_GROUP_SIZE; the group size of a JSON snapshot is
                    // applied by the reader
                    Exporter::new(
                        db,
                        ChainConfig::local_testnet(),
                        move || Ok(SnapshotWriter::json(p.clone())),
                        MAX_GROUP_SIZE,
                        StateWatcher::default(),
                    )
                    .write_full_snapshot()
                    .await
                }
                _ => {
                    let p = path.clone();
                    Exporter::new(
                        db,
                        ChainConfig::local_testnet(),
                        move || SnapshotWriter::parquet(p.clone(), ZstdCompressionLevel::Level1),
                        group,
                        StateWatcher::default(),
                    )
                    .write_full_snapshot()
                    .await
                }
            }
        })
    });
    drop(rt);
    match res {
        Ok(Ok(())) => {}
        Ok(Err(e)) => return Err(format!("Err:{e}")),
        Err(p) => return Err(format!("Panic:{p}")),
    }
    let meta = SnapshotMetadata::read(&path).map_err(|e| format!("Err:{e}"))?;
    Ok(Snapshot { _dir: dir, meta, json_group: group })
}

fn fresh_db(kind: &str) -> CombinedDatabase {
    match kind {
        "rocks" => CombinedDatabase::temp_database_with_state_rewind_policy(
            StateRewindPolicy::NoRewind,
            fuel_core::state::rocks_db::DatabaseConfig::config_for_tests(),
        )
        .unwrap_or_else(|e| die(&format!("rocksdb: {e}"))),
        _ => CombinedDatabase::in_memory(),
    }
}

type GenesisResult = UncommittedResult<Changes>;

/// One call of the real `execute_genesis_block`; the hook callback produces the fine-grained events.
fn run_once(
    ctl: &Arc<Mutex<Ctl>>,
    cfg: &Config,
    db: &CombinedDatabase,
    directive: Option<Directive>,
) -> (Vec<(String, Value)>, Result<GenesisResult, String>) {
    let (tx, rx) = tokio::sync::watch::channel(State::Started);
    let cancel_at_begin = matches!(&directive, Some(d) if d.kind == "cancel" && d.pt == "begin");
    {
        let mut c = ctl.lock().unwrap();
        c.events.clear();
        c.fired = cancel_at_begin;
        c.directive = directive;
        c.db = Some(db.clone());
        c.events.push(("Begin".into(), json!({})));
        if cancel_at_begin {
            let _ = tx.send(State::Stopping);
            c.events.push(("Cancel".into(), json!({"m": "", "i": -1, "pt": "begin"})));
        }
        c.sender = Some(tx);
    }
    let watcher: StateWatcher = rx.into();
    let rt = runtime();
    let res = guarded(|| rt.block_on(execute_genesis_block(watcher, cfg, db)));
    // The process "dies" here: workers still running on blocking threads see Stopping at their next
    // group boundary; dropping the runtime joins them, so every commit is logged before End.
    if let Some(s) = &ctl.lock().unwrap().sender {
        if res.as_ref().map(|r| r.is_err()).unwrap_or(true) {
            let _ = s.send(State::Stopping);
        }
    }
    drop(rt);
    let mut c = ctl.lock().unwrap();
    c.sender = None;
    c.directive = None;
    let evs = std::mem::take(&mut c.events);
    let r = match res {
        Ok(Ok(r)) => Ok(r),
        Ok(Err(e)) => {
            let s = format!("{e:#}");
            if s.contains("Import cancelled") {
                Err("Err:cancelled".to_string())
            } else if s.contains("verif: injected failure") {
                Err("Err:failed".to_string())
            } else {
                Err(format!("Err:other:{}", s.chars().take(160).collect::<String>()))
            }
        }
        Err(p) => Err(format!("Panic:{}", p.chars().take(160).collect::<String>())),
    };
    (evs, r)
}

fn commit_block(cfg: &Config, db: &CombinedDatabase, result: GenesisResult) -> String {
    let rt = runtime();
    let r = guarded(|| {
        rt.block_on(async {
            let importer = fuel_core_importer::Importer::new(
                cfg.snapshot_reader.chain_config().consensus_parameters.chain_id(),
                cfg.block_importer.clone(),
                db.on_chain().clone(),
                MockValidator::default(),
                MockBlockVerifier::default(),
                NoopBlockReconciliationWriteAdapter,
            );
            importer.commit_result(result).await
        })
    });
    drop(rt);
    match r {
        Ok(Ok(())) => "Ok".into(),
        Ok(Err(e)) => format!("Err:{}", format!("{e:?}").chars().take(160).collect::<String>()),
        Err(p) => format!("Panic:{}", p.chars().take(160).collect::<String>()),
    }
}

fn clear_off_chain(db: &CombinedDatabase) -> String {
    match guarded(|| clear_off_chain_genesis_progress(db)) {
        Ok(Ok(())) => "Ok".into(),
        Ok(Err(e)) => format!("Err:{}", format!("{e:?}").chars().take(160).collect::<String>()),
        Err(p) => format!("Panic:{}", p.chars().take(160).collect::<String>()),
    }
}

fn height_of(db: &CombinedDatabase) -> i64 {
    db.on_chain()
        .latest_view()
        .ok()
        .and_then(|v| v.latest_height().ok())
        .map(|h| u32::from(h) as i64)
        .unwrap_or(-1)
}

/// Interns digests to small integers (per process; equal bytes <=> equal id).
#[derive(Default)]
struct Interner(HashMap<u64, i64>);
impl Interner {
    fn id(&mut self, h: u64) -> i64 {
        let n = self.0.len() as i64 + 1;
        *self.0.entry(h).or_insert(n)
    }
    fn map(&mut self, d: Vec<(String, u64)>) -> Value {
        let mut o = Map::new();
        for (k, h) in d {
            o.insert(k, json!(self.id(h)));
        }
        Value::Object(o)
    }
}

struct RefResult {
    res: String,
    tabs: Value,
    dig: Value,
    h: i64,
}

struct Session {
    world: Arc<World>,
    snap: Arc<Snapshot>,
    dbkind: String,
    cfg: Config,
    db: CombinedDatabase,
    pending: Option<GenesisResult>,
}

fn directive_of(step: &Map<String, Value>) -> Option<Directive> {
    let kind = step.get("kind").and_then(|v| v.as_str()).unwrap_or("none");
    if kind == "none" {
        return None;
    }
    Some(Directive {
        kind: kind.to_string(),
        m: step.get("m").and_then(|v| v.as_str()).unwrap_or("").to_string(),
        i: step.get("i").and_then(|v| v.as_i64()).unwrap_or(-1),
        pt: step.get("pt").and_then(|v| v.as_str()).unwrap_or("").to_string(),
    })
}

fn main() {
    let args = Args::parse();
    let seed = h_common::env_seed();
    match args.mode.as_str() {
        "shape" => {
            // sizes of the snapshot tables of a shape (for the TLC crash-point enumeration)
            let shape: Value = serde_json::from_str(args.req("shape")).unwrap_or_else(|e| die(&format!("shape: {e}")));
            let w = World::build(&shape, seed);
            println!("{}", json!({"n": w.sizes(), "h": w.height}));
        }
        "run" => run(&args, seed),
        _ => die("modes: run --walks W --out T | shape --shape JSON"),
    }
}

fn run(args: &Args, seed: u64) {
    let walks = read_walks(args.req("walks"));
    let mut t = Trace::create(args.req("out"));
    let ctl = Arc::new(Mutex::new(Ctl { directive: None, fired: false, events: vec![], sender: None, db: None }));
    install_callback(ctl.clone());
    let mut worlds: HashMap<String, Arc<World>> = HashMap::new();
    let mut snaps: HashMap<String, Arc<Snapshot>> = HashMap::new();
    let mut refs: HashMap<String, Arc<RefResult>> = HashMap::new();
    let mut interner = Interner::default();

    for walk in walks {
        t.reset(walk.id, json!({}));
        let mut sess: Option<Session> = None;
        for step in &walk.steps {
            match step.name() {
                "Export" => {
                    let shape = step.get("shape").cloned().unwrap_or_else(|| die("Export without shape"));
                    let enc = step.str_("enc").to_string();
                    let g = step.int("g") as usize;
                    let dbkind = step.get("db").and_then(|v| v.as_str()).unwrap_or("mem").to_string();
                    let wkey = shape.to_string();
                    let world = worlds.entry(wkey.clone()).or_insert_with(|| Arc::new(World::build(&shape, seed))).clone();
                    let skey = format!("{wkey}|{enc}|{g}");
                    let snap = match snaps.get(&skey) {
                        Some(s) => Ok(s.clone()),
                        None => export(&world, &enc, g).map(|s| {
                            let s = Arc::new(s);
                            snaps.insert(skey.clone(), s.clone());
                            s
                        }),
                    };
                    match snap {
                        Ok(snap) => {
                            let reader = snap.reader();
                            let groups = world.snapshot_groups(&reader);
                            let snap_h = reader.last_block_config().map(|b| u32::from(b.block_height) as i64).unwrap_or(-1);
                            t.event("Export", json!({"enc": enc, "g": g, "res": "Ok", "n": world.sizes(), "h": world.height,
                                                    "snap": groups, "snapH": snap_h, "db": dbkind}));
                            let cfg = Config::local_node_with_reader(reader);
                            sess = Some(Session { world, snap, dbkind: dbkind.clone(), cfg, db: fresh_db(&dbkind), pending: None });
                        }
                        Err(e) => {
                            t.event("Export", json!({"enc": enc, "g": g, "res": e, "n": world.sizes(), "h": world.height,
                                                    "snap": {}, "snapH": -1, "db": dbkind}));
                        }
                    }
                }
                "Reference" => {
                    let Some(s) = sess.as_ref() else { continue };
                    let key = format!("{:p}|{}", Arc::as_ptr(&s.snap), s.dbkind);
                    let r = match refs.get(&key) {
                        Some(r) => r.clone(),
                        None => {
                            let db = fresh_db(&s.dbkind);
                            let (_evs, res) = run_once(&ctl, &s.cfg, &db, None);
                            let r = match res {
                                Ok(result) => {
                                    let tabs = s.world.dest_tables(&db);
                                    let mut c = commit_block(&s.cfg, &db, result);
                                    if c == "Ok" {
                                        c = clear_off_chain(&db);
                                    }
                                    RefResult { res: c, tabs, dig: interner.map(world::digests(&db)), h: height_of(&db) }
                                }
                                Err(e) => RefResult { res: e, tabs: json!({}), dig: json!({}), h: -1 },
                            };
                            let r = Arc::new(r);
                            refs.insert(key, r.clone());
                            r
                        }
                    };
                    t.event("Reference", json!({"res": r.res, "tabs": r.tabs, "dig": r.dig, "h": r.h}));
                }
                "Run" => {
                    let Some(s) = sess.as_mut() else { continue };
                    if s.pending.is_some() {
                        // the import already completed (an interruption of the plan did not occur any more):
                        // a node does not run it again, it commits the result
                        continue;
                    }
                    // `tries` > 1: an operator restarting an uninterrupted import until it completes
                    let mut tries = step.get("tries").and_then(|v| v.as_i64()).unwrap_or(1);
                    loop {
                        tries -= 1;
                        let (evs, res) = run_once(&ctl, &s.cfg, &s.db, directive_of(step));
                        for (ev, fields) in evs {
                            t.event(&ev, fields);
                        }
                        let (res_s, pending) = match res {
                            Ok(r) => ("Ok".to_string(), Some(r)),
                            Err(e) => (e, None),
                        };
                        s.pending = pending;
                        t.event("End", json!({"res": res_s, "prog": all_progress(&s.db), "tabs": s.world.dest_tables(&s.db)}));
                        if s.pending.is_some() || tries <= 0 {
                            break;
                        }
                    }
                }
                "CommitBlock" => {
                    let Some(s) = sess.as_mut() else { continue };
                    let Some(result) = s.pending.take() else {
                        // the import never completed: nothing to commit
                        t.event("GaveUp", json!({"prog": all_progress(&s.db)}));
                        continue;
                    };
                    let res = commit_block(&s.cfg, &s.db, result);
                    t.event("CommitBlock", json!({"res": res, "prog": all_progress(&s.db), "h": height_of(&s.db)}));
                }
                "ClearOffChain" => {
                    // what FuelService::prepare_genesis does after the genesis block is committed
                    let Some(s) = sess.as_mut() else { continue };
                    if height_of(&s.db) < 0 {
                        continue;
                    }
                    let res = clear_off_chain(&s.db);
                    t.event("ClearOffChain", json!({"res": res, "prog": all_progress(&s.db),
                                                   "dig": interner.map(world::digests(&s.db))}));
                }
                "DropResult" => {
                    let Some(s) = sess.as_mut() else { continue };
                    if s.pending.take().is_some() {
                        t.event("DropResult", json!({"prog": all_progress(&s.db)}));
                    }
                }
                other => die(&format!("unknown action {other}")),
            }
        }
    }
    set_import_callback(None);
    t.finish();
}
