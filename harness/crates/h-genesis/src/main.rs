fn main() {}
