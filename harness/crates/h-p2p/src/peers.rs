//! C31: the real `PeerManager`, the `ConnectionState` it shares through a SeqLock and the real
//! `ConnectionTracker` (through the `verif` wrapper) reading that state.
use fuel_core_p2p::{
    Multiaddr, PeerId, Protocol,
    config::verif::VerifConnectionTracker,
    gossipsub_config::GRAYLIST_THRESHOLD,
    peer_manager::{ConnectionState, PeerManager, Punisher},
};
use fuel_core_services::seqlock::SeqLockReader;
use h_common::*;
use serde_json::{Map, Value};

const RESERVED: [&str; 2] = ["r1", "r2"];
const OTHERS: [&str; 4] = ["o1", "o2", "o3", "o4"];

/// Deterministic peer id: identity multihash of the peer's name.
fn peer_id(name: &str) -> PeerId {
    let mut b = vec![0x00u8, (name.len() + 4) as u8];
    b.extend_from_slice(b"peer");
    b.extend_from_slice(name.as_bytes());
    PeerId::from_bytes(&b).unwrap_or_else(|e| die(&format!("peer id: {e}")))
}

fn all_names() -> Vec<&'static str> {
    RESERVED.iter().chain(OTHERS.iter()).copied().collect()
}

/// Records what the manager asks the punisher to do.
#[derive(Default)]
struct Bans(Vec<PeerId>);
impl Punisher for Bans {
    fn ban_peer(&mut self, peer_id: PeerId) {
        self.0.push(peer_id);
    }
}

struct Sys {
    mgr: PeerManager,
    reader: SeqLockReader<ConnectionState>,
    tracker: VerifConnectionTracker,
    _updates: tokio::sync::broadcast::Receiver<usize>,
    scale: f64,
}

impl Sys {
    fn new(limit: usize, scale: f64) -> Sys {
        let (writer, reader) = ConnectionState::new();
        let (tx, rx) = tokio::sync::broadcast::channel(64);
        let reserved = RESERVED.iter().map(|n| peer_id(n)).collect();
        let mgr = PeerManager::new(tx, reserved, writer, limit);
        let addrs: Vec<Multiaddr> =
            RESERVED.iter().map(|n| Multiaddr::empty().with(Protocol::P2p(peer_id(n)))).collect();
        let tracker = VerifConnectionTracker::new(&addrs, Some(reader.clone()));
        Sys { mgr, reader, tracker, _updates: rx, scale }
    }

    fn scaled(&self, name: &str) -> Option<i64> {
        self.mgr.get_peer_info(&peer_id(name)).map(|i| (i.score * self.scale).round() as i64)
    }

    /// Abstract state through the public API, the SeqLock reader and the real tracker.
    fn project(&self) -> Value {
        let conn = |names: &[&str]| -> Vec<Value> {
            names.iter().filter(|n| self.mgr.get_peer_info(&peer_id(n)).is_some()).map(|n| json!(n)).collect()
        };
        let mut score = Map::new();
        for n in all_names() {
            score.insert(n.to_string(), json!(self.scaled(n).unwrap_or(0)));
        }
        let admits: Vec<Value> =
            all_names().into_iter().filter(|n| self.tracker.allow_peer(&peer_id(n))).map(|n| json!(n)).collect();
        json!({
            "nonres": conn(&OTHERS), "res": conn(&RESERVED), "score": Value::Object(score),
            "flag": self.reader.read().available_slot(), "admits": admits,
            "total": self.mgr.total_peers_connected(),
        })
    }

    fn names(ids: &[PeerId]) -> Vec<Value> {
        ids.iter()
            .map(|id| json!(all_names().into_iter().find(|n| peer_id(n) == *id).unwrap_or("?")))
            .collect()
    }

    fn connect(&mut self, t: &mut Trace, p: &str) {
        let res = self.mgr.handle_peer_connected(&peer_id(p));
        t.event("Connect", json!({"p": p, "res": res, "st": self.project()}));
    }
    fn disconnect(&mut self, t: &mut Trace, p: &str) {
        let res = self.mgr.handle_peer_disconnect(peer_id(p));
        t.event("Disconnect", json!({"p": p, "res": res, "st": self.project()}));
    }
    fn score(&mut self, t: &mut Trace, p: &str, d: i64) {
        let mut bans = Bans::default();
        self.mgr.update_app_score(peer_id(p), d as f64, "verif", &mut bans);
        t.event("Score", json!({"p": p, "d": d, "bans": Sys::names(&bans.0), "st": self.project()}));
    }
    fn gossip(&mut self, t: &mut Trace, p: &str, g: &str) {
        let v = match g {
            "low" => GRAYLIST_THRESHOLD - 1.0,
            "ok" => GRAYLIST_THRESHOLD,
            o => die(&format!("gossip value {o}")),
        };
        let mut bans = Bans::default();
        self.mgr.handle_gossip_score_update(peer_id(p), v, &mut bans);
        t.event("Gossip", json!({"p": p, "g": g, "bans": Sys::names(&bans.0), "st": self.project()}));
    }
    fn decay(&mut self, t: &mut Trace) {
        self.mgr.batch_update_score_with_decay();
        t.event("Decay", json!({"st": self.project()}));
    }
    fn identify(&mut self, t: &mut Trace, p: &str) {
        let addr: Multiaddr = Multiaddr::empty().with(Protocol::P2p(peer_id(p)));
        self.mgr.handle_peer_identified(&peer_id(p), vec![addr], "verif/1".to_string());
        t.event("Identify", json!({"p": p, "st": self.project()}));
    }
}

fn new_sys(t: &mut Trace, limit: i64, scale: f64) -> Sys {
    let s = Sys::new(limit as usize, scale);
    t.event("New", json!({"limit": limit, "st": s.project()}));
    s
}

/// S->I: replay the walks computed from the spec's reachable graph.
pub fn run(args: &Args) {
    let walks = read_walks(args.req("walks"));
    let scale = args.num("scale", 10) as f64;
    let mut t = Trace::create(args.req("out"));
    for w in walks {
        t.reset(w.id, json!({}));
        let mut sys: Option<Sys> = None;
        for s in &w.steps {
            if s.name() == "New" {
                sys = Some(new_sys(&mut t, s.int("limit"), scale));
                continue;
            }
            let x = sys.as_mut().unwrap_or_else(|| die("action before New"));
            match s.name() {
                "Connect" => x.connect(&mut t, s.str_("p")),
                "Disconnect" => x.disconnect(&mut t, s.str_("p")),
                "Score" => x.score(&mut t, s.str_("p"), s.int("d")),
                "Gossip" => x.gossip(&mut t, s.str_("p"), s.str_("g")),
                "Decay" => x.decay(&mut t),
                "Identify" => x.identify(&mut t, s.str_("p")),
                other => die(&format!("unknown action {other}")),
            }
        }
    }
    t.finish();
}

/// I->S: seeded random histories over all peers (every peer is scored, more deltas than the
/// model-checking configuration, connect/disconnect churn around the limit).
pub fn random(args: &Args) {
    let n = args.num("walks", 100);
    let len = args.num("len", 60);
    let scale = args.num("scale", 10) as f64;
    let max_decay = args.num("maxdecay", 1);
    let mut rng = Rng::new(env_seed() ^ 0x3131);
    let names = all_names();
    let deltas = [150i64, -60, 40, -5, -30, 7];
    let mut t = Trace::create(args.req("out"));
    for id in 0..n {
        t.reset(id as i64, json!({}));
        let mut x = new_sys(&mut t, rng.range(0, 3), scale);
        let mut decays = 0;
        for _ in 0..len {
            let p = *rng.pick(&names);
            match rng.below(12) {
                0..=3 => x.connect(&mut t, p),
                4..=6 => x.disconnect(&mut t, p),
                7 | 8 => {
                    let d = *rng.pick(&deltas);
                    // the model's bound: a peer already below the ban line gets no further penalty
                    if d < 0 && x.scaled(p).unwrap_or(0) < -50 * scale as i64 {
                        continue;
                    }
                    x.score(&mut t, p, d)
                }
                9 => x.gossip(&mut t, p, if rng.chance(1, 2) { "low" } else { "ok" }),
                10 => {
                    if decays < max_decay {
                        decays += 1;
                        x.decay(&mut t)
                    }
                }
                _ => x.identify(&mut t, p),
            }
        }
    }
    t.finish();
}
