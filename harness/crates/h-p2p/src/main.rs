//! Harness for fuel-core-p2p: C31 (PeerManager / ConnectionState / ConnectionTracker) and
//! C32 (Task request serving through CachedView and the request/response codec).
//! Action interpreter + state projector + logger only: TLC judges the traces.
mod peers;
mod serve;

use h_common::*;

fn main() {
    let args = Args::parse();
    match args.mode.as_str() {
        "pm-run" => peers::run(&args),
        "pm-random" => peers::random(&args),
        "serve-enum" => serve::run(&args),
        "serve-random" => serve::random(&args),
        m => die(&format!("unknown mode {m}")),
    }
}
