//! C32: inbound requests served by the real `Task` (built by the `verif` hook constructor around
//! a fake `TaskP2PService`), the real `CachedView` inside it, a generated append-only chain as
//! the database view, and the real request/response codec on both legs:
//!   request --encode/decode--> Task::run -> process_request -> handle_db_request -> CachedView
//!   response (captured in send_response_msg) --encode/decode (V1 or V2)--> logged
//! Nothing is asserted here; every event carries what was asked, what the database was asked,
//! what was sent, what the peer would decode, and what the caches hold afterwards.
use fuel_core_p2p::{
    PeerId,
    codecs::{postcard::PostcardCodec, request_response::RequestResponseMessageHandler},
    gossipsub::messages::GossipsubBroadcastRequest,
    p2p_service::FuelP2PEvent,
    peer_manager::PeerInfo,
    ports::{P2pDb, TxPool},
    request_response::{
        messages::{RequestMessage, ResponseMessageErrorCode, ResponseSender, V2ResponseMessage},
        protocols::RequestResponseProtocol,
    },
    service::{
        SharedState, Task, TaskP2PService,
        verif::{VerifTaskParams, task_with_service},
    },
};
use fuel_core_services::{RunnableTask, StateWatcher};
use fuel_core_storage::{Result as StorageResult, transactional::AtomicView};
use fuel_core_types::{
    blockchain::{
        SealedBlockHeader,
        consensus::{Consensus, Genesis, poa::PoAConsensus},
        header::BlockHeader,
    },
    fuel_crypto::Signature,
    fuel_tx::{Transaction, TxId, UniqueIdentifier, policies::Policies},
    fuel_types::{BlockHeight, ChainId},
    services::p2p::{
        GossipsubMessageAcceptance, GossipsubMessageInfo, NetworkableTransactionPool, Transactions,
        peer_reputation::AppScore,
    },
    tai64::Tai64,
};
use futures::future::BoxFuture;
use h_common::*;
use libp2p::request_response::{Codec, InboundRequestId};
use serde_json::Value;
use std::{
    collections::VecDeque,
    num::NonZeroU32,
    ops::Range,
    sync::{Arc, Mutex, RwLock},
};

// ---------------------------------------------------------------- generated chain (the database)

type Block = (SealedBlockHeader, Transactions);

fn make_tx(tag: u32, idx: u32) -> Transaction {
    let mut data = tag.to_be_bytes().to_vec();
    data.extend_from_slice(&idx.to_be_bytes());
    data.extend(std::iter::repeat(0xA5u8).take((tag % 7) as usize));
    Transaction::script(1000 + tag as u64, vec![0x24, 0, 0, 0], data, Policies::new(), vec![], vec![], vec![]).into()
}

/// Every height has a distinct header and a distinct, non-empty transaction list.
fn make_block(h: u32) -> Block {
    let mut header = BlockHeader::default();
    header.set_block_height(BlockHeight::from(h));
    header.set_time(Tai64(4_000_000 + h as u64 * 10));
    header.set_da_height((h as u64 * 3).into());
    let mut sig = [0u8; 64];
    sig[0] = h as u8;
    sig[63] = 0x5a;
    let consensus =
        if h == 0 { Consensus::Genesis(Genesis::default()) } else { Consensus::PoA(PoAConsensus::new(Signature::from_bytes(sig))) };
    let txs = (0..1 + h % 2).map(|i| make_tx(h, i)).collect();
    (SealedBlockHeader { entity: header, consensus }, Transactions(txs))
}

#[derive(Clone)]
struct Db {
    committed: Arc<RwLock<Vec<Block>>>,
    queries: Arc<Mutex<Vec<i64>>>,
}

/// What `latest_view` hands out: the committed prefix at that moment.
struct Snapshot {
    blocks: Vec<Block>,
    queries: Arc<Mutex<Vec<i64>>>,
}

impl AtomicView for Db {
    type LatestView = Snapshot;
    fn latest_view(&self) -> StorageResult<Snapshot> {
        Ok(Snapshot { blocks: self.committed.read().unwrap().clone(), queries: self.queries.clone() })
    }
}

impl Snapshot {
    /// Same contract as fuel-core's on-chain view: every height of the range, or `None`.
    fn range<T>(&self, r: Range<u32>, f: impl Fn(&Block) -> T) -> Option<Vec<T>> {
        let mut q = self.queries.lock().unwrap();
        q.push(r.start as i64);
        q.push(r.end as i64);
        r.map(|h| self.blocks.get(h as usize).map(&f)).collect()
    }
}

impl P2pDb for Snapshot {
    fn get_sealed_headers(&self, r: Range<u32>) -> StorageResult<Option<Vec<SealedBlockHeader>>> {
        Ok(self.range(r, |b| b.0.clone()))
    }
    fn get_transactions(&self, r: Range<u32>) -> StorageResult<Option<Vec<Transactions>>> {
        Ok(self.range(r, |b| b.1.clone()))
    }
    fn get_genesis(&self) -> StorageResult<Genesis> {
        Ok(Genesis::default())
    }
}

// ---------------------------------------------------------------- transaction pool

#[derive(Clone)]
struct Pool(Arc<Vec<Transaction>>);

fn tx_id(tx: &Transaction) -> TxId {
    tx.id(&ChainId::default())
}

impl TxPool for Pool {
    async fn get_tx_ids(&self, max_ids: usize) -> anyhow::Result<Vec<TxId>> {
        Ok(self.0.iter().take(max_ids).map(tx_id).collect())
    }
    async fn get_full_txs(&self, tx_ids: Vec<TxId>) -> anyhow::Result<Vec<Option<NetworkableTransactionPool>>> {
        Ok(tx_ids
            .iter()
            .map(|id| self.0.iter().find(|t| tx_id(t) == *id).cloned().map(NetworkableTransactionPool::Transaction))
            .collect())
    }
}

// ---------------------------------------------------------------- fake p2p service

#[derive(Clone, Default)]
struct Wire {
    inbound: Arc<Mutex<VecDeque<FuelP2PEvent>>>,
    outbound: Arc<Mutex<Vec<(String, V2ResponseMessage)>>>,
}

struct FakeP2P(Wire);

impl TaskP2PService for FakeP2P {
    fn get_all_peer_info(&self) -> Vec<(&PeerId, &PeerInfo)> {
        vec![]
    }
    fn get_peer_id_with_height(&self, _: &BlockHeight) -> Option<PeerId> {
        None
    }
    fn next_event(&mut self) -> BoxFuture<'_, Option<FuelP2PEvent>> {
        // the event is taken only when the future is polled: `Task::run` builds this future on
        // every turn of its biased select and may drop it unpolled
        let q = self.0.inbound.clone();
        Box::pin(async move {
            let ev = q.lock().unwrap().pop_front();
            match ev {
                Some(e) => Some(e),
                None => futures::future::pending().await,
            }
        })
    }
    fn publish_message(&mut self, _: GossipsubBroadcastRequest) -> anyhow::Result<()> {
        Ok(())
    }
    fn send_request_msg(&mut self, _: Option<PeerId>, _: RequestMessage, _: ResponseSender) -> anyhow::Result<()> {
        Ok(())
    }
    fn send_response_msg(&mut self, request_id: InboundRequestId, message: V2ResponseMessage) -> anyhow::Result<()> {
        self.0.outbound.lock().unwrap().push((request_id.to_string(), message));
        Ok(())
    }
    fn report_message(&mut self, _: GossipsubMessageInfo, _: GossipsubMessageAcceptance) -> anyhow::Result<()> {
        Ok(())
    }
    fn report_peer(&mut self, _: PeerId, _: AppScore, _: &str) -> anyhow::Result<()> {
        Ok(())
    }
    fn update_block_height(&mut self, _: BlockHeight) -> anyhow::Result<()> {
        Ok(())
    }
    fn update_metrics<T>(&self, _: T)
    where
        T: FnOnce(),
    {
    }
}

/// `InboundRequestId` has no public constructor (libp2p makes them); the task only carries it
/// from the inbound event to `send_response_msg`, so any value does.
fn inbound_id(n: u64) -> InboundRequestId {
    const _: () = assert!(std::mem::size_of::<InboundRequestId>() == std::mem::size_of::<u64>());
    unsafe { std::mem::transmute::<u64, InboundRequestId>(n) }
}

// ---------------------------------------------------------------- the system under test

struct Sys {
    rt: tokio::runtime::Runtime,
    task: Task<FakeP2P, Db, SharedState, Pool>,
    watcher: StateWatcher,
    wire: Wire,
    db: Db,
    chain: Vec<Block>,
    pool: Pool,
    codec: RequestResponseMessageHandler<PostcardCodec>,
    max: u32,
    next_id: u64,
    span: u32,
}

fn msg(v: &str, k: &str, items: Vec<i64>, code: &str) -> Value {
    json!({"v": v, "k": k, "items": items, "code": code})
}

fn code_name(c: &ResponseMessageErrorCode) -> &'static str {
    match c {
        ResponseMessageErrorCode::ProtocolV1EmptyResponse => "Empty",
        ResponseMessageErrorCode::RequestedRangeTooLarge => "TooLarge",
        ResponseMessageErrorCode::Timeout => "Timeout",
        ResponseMessageErrorCode::SyncProcessorOutOfCapacity => "Capacity",
        ResponseMessageErrorCode::Unknown => "Unknown",
    }
}

impl Sys {
    fn new(mh: usize, mt: usize, cap: usize, max: u32, maxh: u32) -> Sys {
        let rt = tokio::runtime::Builder::new_current_thread()
            .enable_time()
            .start_paused(true)
            .build()
            .unwrap_or_else(|e| die(&format!("runtime: {e}")));
        let wire = Wire::default();
        let db = Db { committed: Arc::new(RwLock::new(Vec::new())), queries: Arc::new(Mutex::new(Vec::new())) };
        let pool = Pool(Arc::new((0..2).map(|i| make_tx(9000, i)).collect()));
        let task = rt
            .block_on(async {
                task_with_service(
                    FakeP2P(wire.clone()),
                    db.clone(),
                    pool.clone(),
                    VerifTaskParams { max_headers_per_request: mh, max_txs_per_request: mt, cache_capacity: cap },
                )
            })
            .unwrap_or_else(|e| die(&format!("task: {e}")));
        Sys {
            rt,
            task,
            watcher: StateWatcher::started(),
            wire,
            db,
            chain: (0..=maxh).map(make_block).collect(),
            pool,
            codec: RequestResponseMessageHandler::new(NonZeroU32::new(max).unwrap_or_else(|| die("max = 0"))),
            max,
            next_id: 1,
            span: maxh + 3,
        }
    }

    fn header_id(&self, h: &SealedBlockHeader) -> i64 {
        self.chain.iter().position(|b| b.0 == *h).map(|i| i as i64).unwrap_or(-2)
    }
    fn txs_id(&self, t: &Transactions) -> i64 {
        self.chain.iter().position(|b| b.1.0 == t.0).map(|i| i as i64).unwrap_or(-2)
    }
    fn pool_id(&self, id: &TxId) -> i64 {
        self.pool.0.iter().position(|t| tx_id(t) == *id).map(|i| i as i64).unwrap_or(-2)
    }
    fn pool_tx(&self, t: &Option<NetworkableTransactionPool>) -> i64 {
        match t {
            None => -1,
            Some(NetworkableTransactionPool::Transaction(tx)) => {
                self.pool.0.iter().position(|p| p == tx).map(|i| i as i64).unwrap_or(-2)
            }
            Some(NetworkableTransactionPool::PoolTransaction(_)) => -3,
        }
    }

    /// Abstract form of a response message: variant, ok/err, content ids.
    fn project(&self, m: &V2ResponseMessage) -> Value {
        fn shape<T>(v: &str, r: &Result<Vec<T>, ResponseMessageErrorCode>, f: impl Fn(&T) -> i64) -> Value {
            match r {
                Ok(items) => msg(v, "ok", items.iter().map(f).collect(), ""),
                Err(c) => msg(v, "err", vec![], code_name(c)),
            }
        }
        match m {
            V2ResponseMessage::SealedHeaders(r) => shape("H", r, |h| self.header_id(h)),
            V2ResponseMessage::Transactions(r) => shape("T", r, |t| self.txs_id(t)),
            V2ResponseMessage::TxPoolAllTransactionsIds(r) => shape("I", r, |i| self.pool_id(i)),
            V2ResponseMessage::TxPoolFullTransactions(r) => shape("F", r, |t| self.pool_tx(t)),
        }
    }

    fn caches(&self) -> (Value, Value) {
        let mut ch = vec![];
        let mut ct = vec![];
        for h in 0..self.span {
            if let Some(x) = self.task.verif_cached_header(h) {
                ch.push(json!([h, self.header_id(&x)]));
            }
            if let Some(x) = self.task.verif_cached_transactions(h) {
                ct.push(json!([h, self.txs_id(&x)]));
            }
        }
        (Value::Array(ch), Value::Array(ct))
    }

    fn tip(&self) -> i64 {
        self.db.committed.read().unwrap().len() as i64 - 1
    }

    /// request leg of the codec: (encoded length, decoded request if any)
    fn wire_request(&mut self, req: RequestMessage) -> (usize, Option<RequestMessage>) {
        let mut buf = Vec::new();
        let p = RequestResponseProtocol::V2;
        if futures::executor::block_on(self.codec.write_request(&p, &mut buf, req)).is_err() {
            return (0, None);
        }
        let len = buf.len();
        let dec = futures::executor::block_on(self.codec.read_request(&p, &mut buf.as_slice())).ok();
        (len, dec)
    }

    /// response leg of the codec: (encoded length, what the peer decodes)
    fn wire_response(&mut self, proto: i64, m: V2ResponseMessage) -> (usize, Value) {
        let p = if proto == 1 { RequestResponseProtocol::V1 } else { RequestResponseProtocol::V2 };
        let mut buf = Vec::new();
        if let Err(e) = futures::executor::block_on(self.codec.write_response(&p, &mut buf, m)) {
            return (0, msg("-", "encerr", vec![], &e.to_string()));
        }
        let len = buf.len();
        match futures::executor::block_on(self.codec.read_response(&p, &mut buf.as_slice())) {
            Ok(d) => (len, self.project(&d)),
            Err(_) => (len, msg("-", "lost", vec![], "")),
        }
    }

    /// Hands the (decoded) request to the real task as an inbound p2p event and turns the task's
    /// `run` loop until the response reaches `send_response_msg`.
    fn deliver(&mut self, req: RequestMessage) -> Option<V2ResponseMessage> {
        let id = self.next_id;
        self.next_id += 1;
        self.db.queries.lock().unwrap().clear();
        self.wire.outbound.lock().unwrap().clear();
        self.wire
            .inbound
            .lock()
            .unwrap()
            .push_back(FuelP2PEvent::InboundRequestMessage { request_id: inbound_id(id), request_message: req });
        let (rt, task, watcher, wire) = (&self.rt, &mut self.task, &mut self.watcher, &self.wire);
        rt.block_on(async {
            for _ in 0..4 {
                if !wire.outbound.lock().unwrap().is_empty() {
                    break;
                }
                let _ = task.run(watcher).await;
            }
        });
        let mut out = self.wire.outbound.lock().unwrap();
        match out.len() {
            0 => None,
            1 if out[0].0 == id.to_string() => Some(out.remove(0).1),
            _ => die("response for another request id / more than one response"),
        }
    }

    fn finish(&mut self, t: &mut Trace, ev: &str, mut fields: Value, proto: i64, rlen: usize, resp: Option<V2ResponseMessage>) {
        let (sent, len, recv) = match resp {
            Some(m) => {
                let sent = self.project(&m);
                let (len, recv) = self.wire_response(proto, m);
                (sent, len, recv)
            }
            None => (msg("-", "none", vec![], ""), 0, msg("-", "none", vec![], "")),
        };
        let (ch, ct) = self.caches();
        let o = fields.as_object_mut().unwrap();
        o.insert("proto".into(), json!(proto));
        o.insert("rlen".into(), json!(rlen));
        o.insert("max".into(), json!(self.max));
        o.insert("dbq".into(), json!(self.db.queries.lock().unwrap().clone()));
        o.insert("sent".into(), sent);
        o.insert("len".into(), json!(len));
        o.insert("recv".into(), recv);
        o.insert("tip".into(), json!(self.tip()));
        o.insert("cacheH".into(), ch);
        o.insert("cacheT".into(), ct);
        t.event(ev, fields);
    }

    fn lost(&mut self, t: &mut Trace, what: &str, rlen: usize) {
        let (ch, ct) = self.caches();
        t.event("ReqLost", json!({"what": what, "rlen": rlen, "max": self.max, "tip": self.tip(), "cacheH": ch, "cacheT": ct}));
    }

    fn request(&mut self, t: &mut Trace, kind: &str, lo: u32, hi: u32, proto: i64) {
        #[allow(clippy::reversed_empty_ranges)]
        let req = if kind == "H" { RequestMessage::SealedHeaders(lo..hi) } else { RequestMessage::Transactions(lo..hi) };
        let (rlen, dec) = self.wire_request(req);
        let Some(dec) = dec else { return self.lost(t, kind, rlen) };
        let (dkind, dlo, dhi) = match &dec {
            RequestMessage::SealedHeaders(r) => ("H", r.start, r.end),
            RequestMessage::Transactions(r) => ("T", r.start, r.end),
            _ => ("?", 0, 0),
        };
        let resp = self.deliver(dec);
        self.finish(t, "Request", json!({"kind": kind, "lo": lo, "hi": hi, "dkind": dkind, "dlo": dlo, "dhi": dhi}), proto, rlen, resp);
    }

    fn all_ids(&mut self, t: &mut Trace, proto: i64) {
        let (rlen, dec) = self.wire_request(RequestMessage::TxPoolAllTransactionsIds);
        let Some(dec) = dec else { return self.lost(t, "I", rlen) };
        let resp = self.deliver(dec);
        self.finish(t, "AllIds", json!({}), proto, rlen, resp);
    }

    fn full_txs(&mut self, t: &mut Trace, n: u32, proto: i64) {
        let ids: Vec<TxId> =
            (0..n).map(|i| self.pool.0.get(i as usize).map(tx_id).unwrap_or_else(|| TxId::from([i as u8 + 1; 32]))).collect();
        let (rlen, dec) = self.wire_request(RequestMessage::TxPoolFullTransactions(ids.clone()));
        let Some(dec) = dec else { return self.lost(t, "F", rlen) };
        let dn = match &dec {
            RequestMessage::TxPoolFullTransactions(d) if *d == ids => d.len() as i64,
            _ => -1,
        };
        let resp = self.deliver(dec);
        self.finish(t, "FullTxs", json!({"n": n, "dn": dn}), proto, rlen, resp);
    }

    fn extend(&mut self, t: &mut Trace) {
        let next = self.db.committed.read().unwrap().len();
        if next >= self.chain.len() {
            return;
        }
        self.db.committed.write().unwrap().push(self.chain[next].clone());
        let (ch, ct) = self.caches();
        t.event("Extend", json!({"tip": self.tip(), "cacheH": ch, "cacheT": ct}));
    }
}

fn new_sys(t: &mut Trace, mh: usize, mt: usize, cap: usize, max: u32, maxh: u32) -> Sys {
    let s = Sys::new(mh, mt, cap, max, maxh);
    t.event("New", json!({"mh": mh, "mt": mt, "cap": cap, "max": max, "tip": -1, "cacheH": [], "cacheT": []}));
    s
}

/// Systematic histories: for every limit, cache capacity, chain length, request kind and warm-up
/// range, every (lo, hi) over the bound in a seeded order.
pub fn run(args: &Args) {
    let maxh = args.num("maxh", 5) as u32;
    let bound = maxh + 2;
    let mut rng = Rng::new(env_seed() ^ 0x3232);
    let mut t = Trace::create(args.req("out"));
    let mut id = 0;
    for &(mh, cap) in &[(1usize, 64usize), (3, 64), (3, 2), (6, 3)] {
        for tip in [0, maxh / 2, maxh] {
            for kind in ["H", "T"] {
                for wlo in 0..=tip {
                    for whi in [wlo + 1, wlo + 3] {
                        t.reset(id, json!({}));
                        id += 1;
                        let mut x = new_sys(&mut t, mh, 2, cap, 1 << 20, maxh);
                        for _ in 0..=tip {
                            x.extend(&mut t);
                        }
                        x.request(&mut t, kind, wlo, whi.min(bound), 2);
                        // every range up to one over the limit, plus the reversed / far ones
                        let mut ranges: Vec<(u32, u32)> = (0..=bound)
                            .flat_map(|lo| (0..=bound).map(move |hi| (lo, hi)))
                            .filter(|&(lo, hi)| hi + 1 >= lo && hi <= lo + mh as u32 + 1 || (lo + hi) % 5 == 0)
                            .collect();
                        for i in (1..ranges.len()).rev() {
                            ranges.swap(i, rng.below(i as u64 + 1) as usize);
                        }
                        for (i, (lo, hi)) in ranges.into_iter().take(40).enumerate() {
                            x.request(&mut t, kind, lo, hi, 1 + (i as i64 % 2));
                            if i == 11 {
                                x.extend(&mut t);
                            }
                        }
                    }
                }
            }
        }
    }
    t.finish();
}

/// Seeded random histories: limits, cache capacity (evictions), codec size limit (oversized
/// messages), chain growth between requests, both protocols, pool requests around the id limit.
pub fn random(args: &Args) {
    let n = args.num("walks", 100);
    let len = args.num("len", 40);
    let maxh = args.num("maxh", 5) as u32;
    let bound = (maxh + 2) as i64;
    let mut rng = Rng::new(env_seed() ^ 0x3233);
    let mut t = Trace::create(args.req("out"));
    for id in 0..n {
        t.reset(id as i64, json!({}));
        let mh = *rng.pick(&[0usize, 1, 2, 3, 4, 8]);
        let mt = *rng.pick(&[0usize, 1, 2, 3]);
        let cap = *rng.pick(&[1usize, 2, 3, 4, 8, 64]);
        let max = *rng.pick(&[1u32 << 20, 1 << 20, 1 << 20, 700, 300, 100, 40]);
        let mut x = new_sys(&mut t, mh, mt, cap, max, maxh);
        for _ in 0..rng.below(maxh as u64 + 2) {
            x.extend(&mut t);
        }
        for _ in 0..len {
            let proto = 1 + rng.below(2) as i64;
            match rng.below(10) {
                0 => x.extend(&mut t),
                1 => x.all_ids(&mut t, proto),
                2 => x.full_txs(&mut t, rng.below(mt as u64 + 3) as u32, proto),
                _ => {
                    let kind = if rng.chance(1, 2) { "H" } else { "T" };
                    let lo = rng.range(0, bound);
                    let hi = if rng.chance(1, 12) { rng.range(0, bound) } else { (lo + rng.range(0, mh as i64 + 1)).min(bound) };
                    x.request(&mut t, kind, lo as u32, hi as u32, proto)
                }
            }
        }
    }
    t.finish();
}
