//! Modes of the executor harness (shared by h-exec and h-exec-wasm).
use h_common::*;
use serde_json::Value;
use crate::world::*;

fn run_walks(args: &Args) {
    let path = args.req("walks");
    let text = std::fs::read_to_string(path).unwrap_or_else(|e| die(&format!("open {path}: {e}")));
    let mut t = Trace::create(args.req("out"));
    for line in text.lines().filter(|l| !l.trim().is_empty()) {
        let v: Value = serde_json::from_str(line).unwrap_or_else(|e| die(&format!("walk json: {e}")));
        let id = v["id"].as_i64().unwrap_or(0);
        let cfg = scale_cfg(&v["cfg"]);
        t.reset(id, json!({}));
        let mut world = World::with_primary(cfg, args.get("primary").unwrap_or("native"));
        world.log_setup(&mut t);
        // group the walk's steps into blocks: ProduceBegin, TryTx*, (everything else is derived)
        let steps = v["steps"].as_array().cloned().unwrap_or_default();
        let mut i = 0;
        while i < steps.len() {
            let s = &steps[i];
            if s["name"] == "ProduceBegin" {
                let mut txs = vec![];
                let mut tampers = vec![];
                let mut j = i + 1;
                while j < steps.len() && steps[j]["name"] != "ProduceBegin" {
                    if steps[j]["name"] == "TryTx" {
                        txs.push(steps[j]["id"].as_str().unwrap_or("").to_string());
                    }
                    if steps[j]["name"] == "Tamper" {
                        tampers.push(steps[j]["kind"].as_str().unwrap_or("").to_string());
                    }
                    j += 1;
                }
                let plan = BlockPlan {
                    da: s["da"].as_u64().unwrap_or(0),
                    gp: s["gp"].as_u64().unwrap_or(0),
                    cb: s["cb"].as_str().unwrap_or("none").to_string(),
                    batches: if txs.is_empty() { vec![] } else { vec![txs] },
                    tampers,
                };
                world.run_block(&plan, &mut t);
                i = j;
            } else {
                i += 1;
            }
        }
    }
    t.finish();
}

fn random(args: &Args) {
    let n = args.num("walks", 20);
    let blocks = args.num("blocks", 6);
    // --small-size 1: every world gets a block size limit that a source ignoring its `size` argument can exceed
    let small = args.num("small-size", 0) == 1;
    let mut t = Trace::create(args.req("out"));
    for id in 0..n {
        let mut rng = Rng::new(env_seed().wrapping_mul(1_000_003) ^ (id.wrapping_mul(7919) + 17));
        let cfg = random_cfg(&mut rng, small);
        t.reset(id as i64, json!({}));
        let mut world = World::with_primary(cfg, args.get("primary").unwrap_or("native"));
        world.log_setup(&mut t);
        for _ in 0..blocks {
            world.add_late_txs(&mut rng, &mut t);
            let plan = world.random_plan(&mut rng);
            world.run_block(&plan, &mut t);
        }
    }
    t.finish();
}

pub fn main() {
    let args = Args::parse();
    match args.mode.as_str() {
        "run" => run_walks(&args),
        "random" => random(&args),
        "probe" => crate::world::probe(),
        m => die(&format!("unknown mode {m}")),
    }
}
