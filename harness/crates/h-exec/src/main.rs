//! Harness for the executor family C01-C06 (specs/Exec.tla).
//!
//! An *action interpreter + logger*: it turns abstract transaction descriptors into concrete
//! fuel transactions, lets the real `fuel_core_upgradable_executor::Executor` (native) produce /
//! validate blocks over a plain in-memory key-value store (db.rs) and a scripted relayer view, commits
//! them the way the importer does, and logs one ndjson event per step of Exec.tla.  It asserts
//! nothing about the properties; TLC judges the trace.
//!
//! modes:
//!   run    --walks W --out T            walks = {"id":n,"cfg":{..},"steps":[{"name":..},..]} (Sim_Exec)
//!   random --walks N --blocks B --out T seeded driver (VERIF_SEED)
mod db;
mod driver;
mod world;

fn main() {
    driver::main()
}
