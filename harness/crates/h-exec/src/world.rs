//! Concrete world behind the abstract descriptors of Exec.tla: value maps (owners, coins,
//! messages, contracts, transactions), the real database / executor / scripted relayer, the
//! per-block driver and the projection of results and tables back to abstract values.
use crate::db::{MemDb, MemStore};
use fuel_core_executor::ports::{MaybeCheckedTransaction, RelayerPort, TransactionsSource};
use fuel_core_storage::{
    Result as StorageResult, StorageAsMut,
    iter::IteratorOverTable,
    tables::{
        Coins, ConsensusParametersVersions, ContractsAssets, ContractsLatestUtxo, ContractsRawCode,
        ContractsState, FuelBlocks, Messages, ProcessedTransactions, Transactions,
    },
    transactional::{AtomicView, Changes, IntoTransaction},
    kv_store::WriteOperation,
};
use fuel_core_types::{
    blockchain::{
        block::{Block, PartialFuelBlock},
        header::PartialBlockHeader,
        primitives::DaBlockHeight,
    },
    entities::{
        RelayedTransaction,
        coins::coin::{CompressedCoin, CompressedCoinV1},
        contract::ContractUtxoInfo,
        relayer::{message::{Message, MessageV1}, transaction::RelayedTransactionV1},
    },
    fuel_asm::{GTFArgs, RegId, op},
    fuel_crypto::{Hasher, SecretKey},
    fuel_tx::{
        Address, AssetId, Bytes32, Chargeable, ConsensusParameters, Contract as TxContract, FeeParameters,
        Cacheable, Finalizable, Input, Output, Signable, Receipt, Salt, Transaction, TransactionBuilder, TxId, TxPointer,
        UniqueIdentifier, UtxoId, ValidityError, Witness,
        field::{InputContract, MintAmount, MintAssetId, MintGasPrice, OutputContract, Outputs, TxPointer as TxPointerField},
    },
    fuel_types::{BlockHeight, ChainId, ContractId, MessageId, Nonce, canonical::Serialize},
    fuel_vm::{
        Call, CallFrame,
        checked_transaction::{CheckError, CheckPredicateParams, EstimatePredicates},
        interpreter::MemoryInstance,
        predicate::EmptyStorage,
    },
    services::{
        block_producer::Components,
        executor::{
            Error as ExecutorError, Event as ExecutorEvent, ExecutionResult, TransactionExecutionResult,
            TransactionExecutionStatus, TransactionValidityError,
        },
        relayer::Event,
    },
};
use fuel_core_upgradable_executor::{config::Config as ExecConfig, executor::Executor};
use h_common::*;
use serde_json::{Map, Value};
use std::{
    collections::{BTreeMap, VecDeque},
    sync::{Arc, Mutex},
};

pub const SCALE: u64 = 100_000;
const MF: u64 = 20_000; // max_fee_limit of ordinary transactions
const GL_STD: u64 = 300_000; // script gas limit of ordinary transactions
const GAS_PRICE_FACTOR: u64 = 5_000;

fn h32(tag: &str, name: &str) -> Bytes32 {
    Hasher::hash(format!("{tag}:{name}").as_bytes())
}
fn hex8(b: &[u8]) -> String {
    let mut s = String::from("x");
    for x in b.iter().take(6) {
        s.push_str(&format!("{x:02x}"));
    }
    s
}
fn s(v: &Value, k: &str) -> String {
    v[k].as_str().unwrap_or("").to_string()
}
fn u(v: &Value, k: &str) -> u64 {
    v[k].as_u64().unwrap_or(0)
}
fn arr(v: &Value, k: &str) -> Vec<Value> {
    v[k].as_array().cloned().unwrap_or_default()
}

// ------------------------------------------------------------------------------------------------
// scripted relayer view and logging transaction source (observation ports, called in program order)
// ------------------------------------------------------------------------------------------------
#[derive(Clone, Default)]
pub struct ScriptedRelayer {
    events: Arc<Mutex<BTreeMap<u64, Vec<Event>>>>,
    calls: Arc<Mutex<Vec<u64>>>,
}
impl RelayerPort for ScriptedRelayer {
    fn enabled(&self) -> bool {
        true
    }
    fn get_events(&self, h: &DaBlockHeight) -> anyhow::Result<Vec<Event>> {
        self.calls.lock().unwrap().push(h.0);
        Ok(self.events.lock().unwrap().get(&h.0).cloned().unwrap_or_default())
    }
}
impl AtomicView for ScriptedRelayer {
    type LatestView = Self;
    fn latest_view(&self) -> StorageResult<Self> {
        Ok(self.clone())
    }
}
impl ScriptedRelayer {
    fn take_calls(&self) -> Vec<u64> {
        std::mem::take(&mut *self.calls.lock().unwrap())
    }
}

/// Returns the planned batches one per call and records the arguments of every call.
pub struct LoggingSource {
    batches: Mutex<VecDeque<Vec<Transaction>>>,
    calls: Arc<Mutex<Vec<(u64, u16, u32, Vec<TxId>)>>>,
    chain_id: ChainId,
}
impl TransactionsSource for LoggingSource {
    fn next(&self, gas: u64, n: u16, size: u32) -> Vec<MaybeCheckedTransaction> {
        let batch = self.batches.lock().unwrap().pop_front().unwrap_or_default();
        let ids = batch.iter().map(|t| t.id(&self.chain_id)).collect();
        self.calls.lock().unwrap().push((gas, n, size, ids));
        batch.into_iter().map(MaybeCheckedTransaction::Transaction).collect()
    }
}

pub struct BlockPlan {
    pub da: u64,
    pub gp: u64,
    pub cb: String,
    pub batches: Vec<Vec<String>>,
    pub tampers: Vec<String>,
}

// ------------------------------------------------------------------------------------------------
// the world
// ------------------------------------------------------------------------------------------------
pub struct World {
    pub cfg: Value,
    params: ConsensusParameters,
    chain_id: ChainId,
    db: MemDb,
    executor: Executor<MemDb, ScriptedRelayer>,
    /// the other execution strategy (C07); `None` in the native-only harness
    other: Option<Executor<MemDb, ScriptedRelayer>>,
    strat: (String, String),
    relayer: ScriptedRelayer,
    contract_code: Vec<u8>,
    txs: BTreeMap<String, (Value, Transaction)>,
    tx_names: BTreeMap<TxId, String>,
    coin_names: BTreeMap<Bytes32, String>, // genesis coins: utxo tx-id part -> name
    msg_names: BTreeMap<Nonce, String>,
    contract_names: BTreeMap<ContractId, String>,
    owner_names: BTreeMap<Address, String>,
    relayed_names: BTreeMap<Bytes32, String>,
    height: u32,
    da: u64,
    gas_limit: u64,
    executed_before: Vec<Transaction>,
    next_tx: usize,
    last_state: Value,
    recent: Vec<String>,
    pending: Vec<String>,
}

fn secret(owner: &str) -> SecretKey {
    SecretKey::try_from(h32("owner", owner)).unwrap_or_else(|_| die("bad secret"))
}
/// The trivially true predicate; coins / messages of owner "oP" are owned by its root.
fn pred_code() -> Vec<u8> {
    vec![op::ret(RegId::ONE)].into_iter().collect()
}
fn address(owner: &str) -> Address {
    if owner == "oP" {
        return Input::predicate_owner(pred_code());
    }
    if owner == "oT" {
        // the address the generic contract transfers to: first word 7, rest zero
        let mut b = [0u8; 32];
        b[7] = 7;
        return Address::new(b);
    }
    Input::owner(&secret(owner).public_key())
}
fn asset(name: &str) -> AssetId {
    if name == "A0" { AssetId::BASE } else { AssetId::new(*h32("asset", name)) }
}
fn genesis_utxo(name: &str) -> UtxoId {
    UtxoId::new(h32("coin", name), 0)
}
fn nonce(name: &str) -> Nonce {
    Nonce::new(*h32("msg", name))
}
fn msg_sender() -> Address {
    Address::new(*h32("sender", "bridge"))
}
fn msg_data(data: bool) -> Vec<u8> {
    if data { vec![0xda; 8] } else { vec![] }
}

/// The one generic contract. Call parameters (a, b):
///   a = slot            : state[slot] := b, return
///   a = 100 + outIdx    : transfer b base coins from the contract balance to variable output outIdx (owner oT)
///   a = 200 + slot      : state[slot] := b, then revert inside the call
fn contract_code() -> Vec<u8> {
    let a_off = CallFrame::a_offset() as u16;
    let b_off = CallFrame::b_offset() as u16;
    vec![
        op::addi(0x10, RegId::FP, a_off),   // 0
        op::lw(0x10, 0x10, 0),              // 1  a
        op::addi(0x11, RegId::FP, b_off),   // 2
        op::lw(0x11, 0x11, 0),              // 3  b
        op::move_(0x12, RegId::SP),         // 4  scratch
        op::cfei(64),                       // 5
        op::mcli(0x12, 64),                 // 6
        op::movi(0x13, 100),                // 7
        op::div(0x14, 0x10, 0x13),          // 8  mode
        op::mod_(0x15, 0x10, 0x13),         // 9  idx
        op::movi(0x16, 1),                  // 10
        op::eq(0x17, 0x14, 0x16),           // 11
        op::jnzf(0x17, RegId::ZERO, 7),     // 12 -> 20
        op::sw(0x12, 0x15, 0),              // 13 key word0 = idx
        op::sww(0x12, 0x18, 0x11),          // 14 state[key] = b
        op::movi(0x16, 2),                  // 15
        op::eq(0x17, 0x14, 0x16),           // 16
        op::jnzf(0x17, RegId::ZERO, 1),     // 17 -> 19
        op::ret(RegId::ONE),                // 18
        op::rvrt(RegId::ONE),               // 19
        op::movi(0x16, 7),                  // 20
        op::sw(0x12, 0x16, 0),              // 21 address word0 = 7
        op::addi(0x19, 0x12, 32),           // 22 asset ptr (zeroes = base)
        op::tro(0x12, 0x15, 0x11, 0x19),    // 23
        op::ret(RegId::ONE),                // 24
    ]
    .into_iter()
    .collect()
}

fn contract_id_of(code: &[u8], name: &str) -> ContractId {
    let salt = Salt::new(*h32("salt", name));
    let root = TxContract::root_from_code(code);
    TxContract::id(&salt, &root, &TxContract::default_state_root())
}

impl World {
    pub fn new(cfg: Value) -> World {
        World::with_primary(cfg, "native")
    }

    /// `primary` = the strategy whose results are logged as the block's events and committed
    /// ("native" | "wasm"); with the `wasm` feature the other strategy runs next to it on the same
    /// parent state and inputs and its digests are logged in the `other` fields.
    pub fn with_primary(mut cfg: Value, primary: &str) -> World {
        let _ = primary;
        let mut params = ConsensusParameters::default();
        params.set_fee_params(FeeParameters::default().with_gas_price_factor(GAS_PRICE_FACTOR));
        let chain_id = params.chain_id();
        let code = contract_code();
        let mut w = World {
            cfg: Value::Null,
            params: params.clone(),
            chain_id,
            db: MemDb::default(),
            executor: Executor::native(MemDb::default(), ScriptedRelayer::default(), exec_config()),
            other: None,
            strat: ("native".to_string(), "none".to_string()),
            relayer: ScriptedRelayer::default(),
            contract_code: code.clone(),
            txs: BTreeMap::new(),
            tx_names: BTreeMap::new(),
            coin_names: BTreeMap::new(),
            msg_names: BTreeMap::new(),
            contract_names: BTreeMap::new(),
            owner_names: BTreeMap::new(),
            relayed_names: BTreeMap::new(),
            height: 0,
            gas_limit: 0,
            da: u(&cfg, "da0"),
            executed_before: vec![],
            next_tx: 100,
            last_state: Value::Null,
            recent: vec![],
            pending: vec![],
        };
        for o in ["o1", "o2", "o3", "o4", "oT", "oP"] {
            w.owner_names.insert(address(o), o.to_string());
        }
        for c in ["c1", "c2", "c3", "c4", "cX"] {
            w.contract_names.insert(contract_id_of(&code, c), c.to_string());
        }
        // transactions: ordinary ones first (their limits do not depend on the block gas limit)
        for d in arr(&cfg, "txs") {
            if s(&d, "gl") != "big" {
                w.register_tx(&d);
            }
        }
        // block gas limit: 0 = "fits two ordinary transactions"
        if u(&cfg, "gasLimit") == 0 {
            let mg = w
                .txs
                .values()
                .filter(|(d, _)| s(d, "gl") == "std" && s(d, "kind") == "script" && s(d, "end") != "oog")
                .map(|(_, t)| max_gas_of(t, &params))
                .max()
                .unwrap_or(320_000);
            cfg["gasLimit"] = json!(mg * 2 + mg / 2);
        }
        w.gas_limit = u(&cfg, "gasLimit");
        for d in arr(&cfg, "txs") {
            if s(&d, "gl") == "big" {
                w.register_tx(&d);
            }
        }
        if u(&cfg, "sizeLimit") == 0 {
            cfg["sizeLimit"] = json!(100_000);
        }
        cfg["maxTx"] = json!(u16::MAX as u64 - 1);
        params.set_block_gas_limit(u(&cfg, "gasLimit"));
        let _ = params.set_block_transaction_size_limit(u(&cfg, "sizeLimit"));
        w.params = params.clone();

        // relayer log
        let mut roots_events: BTreeMap<u64, Vec<Bytes32>> = BTreeMap::new();
        let rel = arr(&cfg, "relayer");
        for (i, evs) in rel.iter().enumerate() {
            let h = i as u64 + 1;
            let mut list = vec![];
            for e in evs.as_array().cloned().unwrap_or_default() {
                let ev = w.relayer_event(&e, h);
                roots_events.entry(h).or_default().push(ev.hash());
                list.push(ev);
            }
            w.relayer.events.lock().unwrap().insert(h, list);
        }
        // inbox roots for every (p, d): independent binary Merkle over the event hashes
        let maxda = rel.len() as u64;
        let mut roots = vec![];
        for p in 0..=maxda {
            for d in p..=maxda {
                let mut leaves = vec![];
                for h in (p + 1)..=d {
                    leaves.extend(roots_events.get(&h).cloned().unwrap_or_default());
                }
                roots.push(json!({"p": p, "d": d, "root": hex8(&merkle_root(&leaves)[..])}));
            }
        }
        cfg["roots"] = Value::Array(roots);

        // genesis database
        let db = MemDb::default();
        {
            let mut tx = db.snapshot().into_transaction();
            tx.storage_as_mut::<ConsensusParametersVersions>().insert(&0, &params).unwrap();
            for c in arr(&cfg, "coins") {
                let name = s(&c["id"], "t");
                let utxo = genesis_utxo(&name);
                w.coin_names.insert(*utxo.tx_id(), name);
                let coin: CompressedCoin = CompressedCoinV1 {
                    owner: address(&s(&c, "o")),
                    amount: u(&c, "am"),
                    asset_id: asset(&s(&c, "as")),
                    tx_pointer: TxPointer::new(0u32.into(), 0),
                }
                .into();
                tx.storage_as_mut::<Coins>().insert(&utxo, &coin).unwrap();
            }
            for m in arr(&cfg, "msgs") {
                let msg = w.message(&s(&m, "id"), &s(&m, "o"), u(&m, "am"), m["data"].as_bool().unwrap_or(false), u(&m, "da"));
                tx.storage_as_mut::<Messages>().insert(msg.nonce(), &msg).unwrap();
            }
            for c in arr(&cfg, "contracts") {
                let cid = contract_id_of(&code, c.as_str().unwrap_or(""));
                tx.storage_as_mut::<ContractsRawCode>().insert(&cid, code.as_slice()).unwrap();
                let info = ContractUtxoInfo::V1((UtxoId::new(h32("coin", "genesis"), 0), TxPointer::new(0u32.into(), 0)).into());
                tx.storage_as_mut::<ContractsLatestUtxo>().insert(&cid, &info).unwrap();
            }
            w.coin_names.insert(h32("coin", "genesis"), "genesis".to_string());
            for p in arr(&cfg, "processed0") {
                let name = p.as_str().unwrap_or("");
                if let Some((_, t)) = w.txs.get(name) {
                    tx.storage_as_mut::<ProcessedTransactions>().insert(&t.id(&chain_id), &()).unwrap();
                }
            }
            let mut genesis = Block::default();
            genesis.header_mut().set_da_height(u(&cfg, "da0").into());
            genesis.header_mut().recalculate_metadata();
            tx.storage_as_mut::<FuelBlocks>().insert(&0u32.into(), &genesis.compress(&chain_id)).unwrap();
            db.commit(tx.into_changes(), 0u32.into());
        }
        w.executor = Executor::native(db.clone(), w.relayer.clone(), exec_config());
        #[cfg(feature = "wasm")]
        {
            let wasm = Executor::wasm(db.clone(), w.relayer.clone(), exec_config());
            if primary == "wasm" {
                w.other = Some(std::mem::replace(&mut w.executor, wasm));
                w.strat = ("wasm".to_string(), "native".to_string());
            } else {
                w.other = Some(wasm);
                w.strat = ("native".to_string(), "wasm".to_string());
            }
        }
        w.db = db;
        w.cfg = cfg;
        w
    }

    fn message(&mut self, name: &str, owner: &str, am: u64, data: bool, da: u64) -> Message {
        self.msg_names.insert(nonce(name), name.to_string());
        MessageV1 {
            sender: msg_sender(),
            recipient: address(owner),
            nonce: nonce(name),
            amount: am,
            data: msg_data(data),
            da_height: DaBlockHeight(da),
        }
        .into()
    }

    fn relayer_event(&mut self, e: &Value, h: u64) -> Event {
        if s(e, "k") == "msg" {
            let m = self.message(&s(e, "id"), &s(e, "o"), u(e, "am"), e["data"].as_bool().unwrap_or(false), h);
            return Event::Message(m);
        }
        let name = s(e, "id");
        let why = s(e, "why");
        let (bytes, max_gas) = match self.txs.get(&name) {
            Some((_, t)) => {
                let mg = max_gas_of(t, &self.params);
                (t.to_bytes(), if why == "lowgas" { mg.saturating_sub(1) } else { mg })
            }
            None => {
                if why == "mint" {
                    let mint = Transaction::mint(
                        TxPointer::new(1u32.into(), 0),
                        Default::default(),
                        Default::default(),
                        0,
                        AssetId::BASE,
                        0,
                    );
                    (Transaction::from(mint).to_bytes(), 1_000_000)
                } else {
                    (h32("junk", &name).to_vec(), 1_000_000)
                }
            }
        };
        let rt: RelayedTransaction = RelayedTransactionV1 {
            nonce: Nonce::new(*h32("relayed", &name)),
            max_gas,
            serialized_transaction: bytes,
            da_height: DaBlockHeight(h),
        }
        .into();
        self.relayed_names.insert(Bytes32::from(rt.id()), name);
        Event::Transaction(rt)
    }

    // -------------------------------------------------------------------- descriptor -> transaction
    fn register_tx(&mut self, d: &Value) {
        let name = s(d, "id");
        let tx = self.build_tx(d);
        self.tx_names.insert(tx.id(&self.chain_id), name.clone());
        self.txs.insert(name, (d.clone(), tx));
    }

    fn build_tx(&self, d: &Value) -> Transaction {
        let ins = arr(d, "ins");
        let outs = arr(d, "outs");
        let mf = if u(d, "mf") == 0 { 0 } else if s(d, "bad") == "basic" { u64::MAX / 4 } else { MF };
        let add_io = |b: &mut dyn FnMut(IoItem)| {
            for i in &ins {
                b(IoItem::In(i.clone()));
            }
            for o in &outs {
                b(IoItem::Out(o.clone()));
            }
        };
        if s(d, "kind") == "create" {
            let cname = s(d, "c");
            let salt = Salt::new(*h32("salt", &cname));
            let mut b = TransactionBuilder::create(Witness::from(self.contract_code.clone()), salt, vec![]);
            b.with_params(self.params.clone());
            b.max_fee_limit(mf);
            // a create carries no script data to tag: keep two descriptors from building the same transaction
            let tag: u64 = s(d, "id").bytes().fold(0u64, |a, c| a.wrapping_mul(131).wrapping_add(c as u64)) % 100_000;
            b.witness_limit(1_000_000 + tag);
            if d["exp"].as_i64().unwrap_or(-1) >= 0 {
                b.expiration(BlockHeight::new(d["exp"].as_i64().unwrap() as u32));
            }
            let cid = contract_id_of(&self.contract_code, &cname);
            add_io(&mut |it| match it {
                IoItem::In(i) => self.add_input(&mut b, &i),
                IoItem::Out(o) => {
                    if s(&o, "k") == "created" {
                        b.add_output(Output::contract_created(cid, TxContract::default_state_root()));
                    } else {
                        b.add_output(self.output(&o));
                    }
                }
            });
            return self.finish(b.finalize(), &ins);
        }
        let (script, data) = self.script(d);
        let mut b = TransactionBuilder::script(script, data);
        b.with_params(self.params.clone());
        let gl = match s(d, "gl").as_str() {
            "big" => self.gas_limit.saturating_sub(14_000), // max_gas just below the block limit
            "tiny" => 1,
            _ => GL_STD,
        };
        b.script_gas_limit(if s(d, "end") == "oog" { 1 } else { gl });
        b.max_fee_limit(mf);
        if d["exp"].as_i64().unwrap_or(-1) >= 0 {
            b.expiration(BlockHeight::new(d["exp"].as_i64().unwrap() as u32));
        }
        add_io(&mut |it| match it {
            IoItem::In(i) => self.add_input(&mut b, &i),
            IoItem::Out(o) => {
                b.add_output(self.output(&o));
            }
        });
        self.finish(b.finalize(), &ins)
    }

    /// Predicate inputs: estimate `predicate_gas_used` as the executor's own tests do; that changes the
    /// transaction id, so the signed inputs are signed again.
    fn finish<T>(&self, mut tx: T, ins: &[Value]) -> Transaction
    where
        T: EstimatePredicates + Signable + Cacheable + Into<Transaction>,
    {
        if ins.iter().any(|i| s(i, "o") == "oP" && s(i, "k") != "contract") {
            let _ = tx.estimate_predicates(&CheckPredicateParams::from(&self.params), MemoryInstance::new(), &EmptyStorage);
            let _ = tx.precompute(&self.chain_id);
            for i in ins {
                if s(i, "k") != "contract" && s(i, "o") != "oP" {
                    tx.sign_inputs(&secret(&s(i, "o")), &self.chain_id);
                }
            }
            let _ = tx.precompute(&self.chain_id);
        }
        tx.into()
    }

    fn add_input<T>(&self, b: &mut TransactionBuilder<T>, i: &Value)
    where
        T: fuel_core_types::fuel_tx::Buildable,
    {
        match s(i, "k").as_str() {
            "coin" if s(i, "o") == "oP" => {
                let utxo = self.utxo_of(&s(i, "id"), u(i, "i") as u16);
                b.add_input(Input::coin_predicate(utxo, address("oP"), u(i, "am"), asset(&s(i, "as")), TxPointer::default(), 0, pred_code(), vec![]));
            }
            "msg" if s(i, "o") == "oP" => {
                let data = i["data"].as_bool().unwrap_or(false);
                b.add_input(if data {
                    Input::message_data_predicate(msg_sender(), address("oP"), u(i, "am"), nonce(&s(i, "id")), 0, msg_data(true), pred_code(), vec![])
                } else {
                    Input::message_coin_predicate(msg_sender(), address("oP"), u(i, "am"), nonce(&s(i, "id")), 0, pred_code(), vec![])
                });
            }
            "coin" => {
                let utxo = self.utxo_of(&s(i, "id"), u(i, "i") as u16);
                b.add_unsigned_coin_input(secret(&s(i, "o")), utxo, u(i, "am"), asset(&s(i, "as")), TxPointer::default());
            }
            "msg" => {
                b.add_unsigned_message_input(
                    secret(&s(i, "o")),
                    msg_sender(),
                    nonce(&s(i, "id")),
                    u(i, "am"),
                    msg_data(i["data"].as_bool().unwrap_or(false)),
                );
            }
            _ => {
                let cid = contract_id_of(&self.contract_code, &s(i, "id"));
                b.add_input(Input::contract(Default::default(), Default::default(), Default::default(), Default::default(), cid));
            }
        }
    }

    fn output(&self, o: &Value) -> Output {
        match s(o, "k").as_str() {
            "coin" => Output::coin(address(&s(o, "to")), u(o, "am"), asset(&s(o, "as"))),
            "change" => Output::change(address(&s(o, "to")), 0, asset(&s(o, "as"))),
            "variable" => Output::variable(Address::zeroed(), 0, AssetId::zeroed()),
            _ => Output::contract(u(o, "in") as u16, Bytes32::zeroed(), Bytes32::zeroed()),
        }
    }

    fn utxo_of(&self, t: &str, i: u16) -> UtxoId {
        match self.txs.get(t) {
            Some((_, tx)) => UtxoId::new(tx.id(&self.chain_id), i),
            None => UtxoId::new(h32("coin", t), i),
        }
    }

    /// script data: [asset(32) | address(32) | call structs (48 each) | descriptor tag]
    fn script(&self, d: &Value) -> (Vec<u8>, Vec<u8>) {
        let ops = arr(d, "ops");
        let mut data: Vec<u8> = vec![];
        data.extend_from_slice(AssetId::BASE.as_ref());
        let to = ops.iter().find(|o| s(o, "op") == "tro").map(|o| s(o, "to")).unwrap_or("o1".to_string());
        data.extend_from_slice(address(&to).as_ref());
        let mut code = vec![op::gtf_args(0x20, RegId::ZERO, GTFArgs::ScriptData)];
        for o in &ops {
            match s(o, "op").as_str() {
                "call" | "callrvrt" => {
                    let off = data.len() as u16;
                    let a = if s(o, "op") == "callrvrt" { 200 + u(o, "slot") } else { u(o, "slot") };
                    let cid = contract_id_of(&self.contract_code, &s(o, "c"));
                    data.extend_from_slice(&Call::new(cid, a, u(o, "val")).to_bytes());
                    code.push(op::addi(0x10, 0x20, off));
                    push_const(&mut code, 0x12, u(o, "fwd"));
                    code.push(op::call(0x10, 0x12, 0x20, RegId::CGAS));
                }
                "ctro" => {
                    let off = data.len() as u16;
                    let cid = contract_id_of(&self.contract_code, &s(o, "c"));
                    data.extend_from_slice(&Call::new(cid, 100 + u(o, "out"), u(o, "am")).to_bytes());
                    code.push(op::addi(0x10, 0x20, off));
                    code.push(op::call(0x10, RegId::ZERO, 0x20, RegId::CGAS));
                }
                "tro" => {
                    code.push(op::addi(0x10, 0x20, 32));
                    code.push(op::movi(0x11, u(o, "out") as u32));
                    push_const(&mut code, 0x12, u(o, "am"));
                    code.push(op::tro(0x10, 0x11, 0x12, 0x20));
                }
                "smo" => {
                    code.push(op::addi(0x10, 0x20, 32));
                    push_const(&mut code, 0x13, u(o, "am"));
                    code.push(op::smo(0x10, 0x20, RegId::ZERO, 0x13));
                }
                _ => {}
            }
        }
        match s(d, "end").as_str() {
            "rvrt" => code.push(op::rvrt(RegId::ONE)),
            "panic" => code.push(op::div(0x10, RegId::ONE, RegId::ZERO)),
            "burn" => {
                // spin until the gas limit is used up (OutOfGas panic with gas used = limit)
                code.push(op::noop());
                code.push(op::jmpb(RegId::ZERO, 0));
            }
            _ => code.push(op::ret(RegId::ONE)),
        }
        data.extend_from_slice(s(d, "id").as_bytes());
        (code.into_iter().collect(), data)
    }

    // -------------------------------------------------------------------- names
    fn tx_name(&mut self, id: &TxId, mint_hint: Option<u32>) -> String {
        if let Some(n) = self.tx_names.get(id) {
            return n.clone();
        }
        let n = match mint_hint {
            Some(h) => format!("mint{h}"),
            None => hex8(&id[..]),
        };
        self.tx_names.insert(*id, n.clone());
        n
    }
    fn coin_id(&self, utxo: &UtxoId) -> Value {
        let t = self
            .tx_names
            .get(utxo.tx_id())
            .or_else(|| self.coin_names.get(utxo.tx_id()))
            .cloned()
            .unwrap_or_else(|| hex8(&utxo.tx_id()[..]));
        json!({"t": t, "i": utxo.output_index()})
    }
    fn owner(&self, a: &Address) -> String {
        self.owner_names.get(a).cloned().unwrap_or_else(|| hex8(&a[..]))
    }
    fn asset_name(&self, a: &AssetId) -> String {
        if *a == AssetId::BASE { "A0".into() } else if *a == asset("A1") { "A1".into() } else { hex8(&a[..]) }
    }
    fn msg_name(&self, n: &Nonce) -> String {
        self.msg_names.get(n).cloned().unwrap_or_else(|| hex8(&n[..]))
    }
    fn contract_name(&self, c: &ContractId) -> String {
        if *c == ContractId::zeroed() {
            return "none".into();
        }
        self.contract_names.get(c).cloned().unwrap_or_else(|| hex8(&c[..]))
    }
    fn contract_id(&self, name: &str) -> ContractId {
        if name == "none" { ContractId::zeroed() } else { contract_id_of(&self.contract_code, name) }
    }

    // -------------------------------------------------------------------- projection of the tables
    pub fn state(&self) -> Value {
        let snap: MemStore = self.db.snapshot();
        let mut coins = vec![];
        for r in snap.iter_all::<Coins>(None) {
            let (k, c) = r.unwrap();
            coins.push(json!({"id": self.coin_id(&k), "o": self.owner(c.owner()), "am": c.amount(), "as": self.asset_name(c.asset_id())}));
        }
        let mut msgs = vec![];
        for r in snap.iter_all::<Messages>(None) {
            let (k, m) = r.unwrap();
            msgs.push(json!({"id": self.msg_name(&k), "o": self.owner(m.recipient()), "am": m.amount(), "da": m.da_height().0, "data": !m.data().is_empty()}));
        }
        let mut contracts: BTreeMap<String, (Value, Vec<Value>, Vec<Value>)> = BTreeMap::new();
        for r in snap.iter_all::<ContractsLatestUtxo>(None) {
            let (k, info) = r.unwrap();
            contracts.insert(self.contract_name(&k), (self.coin_id(info.utxo_id()), vec![], vec![]));
        }
        for r in snap.iter_all::<ContractsState>(None) {
            let (k, v) = r.unwrap();
            let key = k.state_key();
            let kk: i64 = if key[8..].iter().all(|b| *b == 0) { u64::from_be_bytes(key[..8].try_into().unwrap()) as i64 } else { -1 };
            let bytes: &[u8] = v.as_ref();
            let vv: i64 = if bytes.len() == 32 && bytes[8..].iter().all(|b| *b == 0) {
                u64::from_be_bytes(bytes[..8].try_into().unwrap()) as i64
            } else {
                -1
            };
            let e = contracts.entry(self.contract_name(k.contract_id())).or_insert((json!({"t": "?", "i": 0}), vec![], vec![]));
            e.1.push(json!({"k": kk, "v": vv}));
        }
        for r in snap.iter_all::<ContractsAssets>(None) {
            let (k, v) = r.unwrap();
            let e = contracts.entry(self.contract_name(k.contract_id())).or_insert((json!({"t": "?", "i": 0}), vec![], vec![]));
            e.2.push(json!({"as": self.asset_name(k.asset_id()), "am": v}));
        }
        let contracts: Vec<Value> =
            contracts.into_iter().map(|(id, (utxo, slots, bals))| json!({"id": id, "slots": slots, "bals": bals, "utxo": utxo})).collect();
        let mut processed = vec![];
        for r in snap.iter_all::<ProcessedTransactions>(None) {
            let (k, _) = r.unwrap();
            processed.push(self.tx_names.get(&k).cloned().unwrap_or_else(|| hex8(&k[..])));
        }
        let (mut h, mut da) = (0u32, 0u64);
        if let Some(Ok((k, b))) = snap.iter_all::<FuelBlocks>(Some(fuel_core_storage::iter::IterDirection::Reverse)).next() {
            h = *k;
            da = b.header().da_height().0;
        }
        json!({"coins": coins, "msgs": msgs, "contracts": contracts, "processed": processed, "h": h, "da": da})
    }

    pub fn log_setup(&mut self, t: &mut Trace) {
        let st = self.state();
        self.last_state = st.clone();
        t.event("Setup", json!({"cfg": self.cfg, "st": st}));
    }

    // -------------------------------------------------------------------- results -> abstract
    fn outs_of(&self, tx: &Transaction) -> Vec<Value> {
        let outs: Vec<Output> = match tx {
            Transaction::Script(t) => t.outputs().clone(),
            Transaction::Create(t) => t.outputs().clone(),
            _ => vec![],
        };
        outs.iter()
            .map(|o| match o {
                Output::Coin { to, amount, .. } | Output::Change { to, amount, .. } | Output::Variable { to, amount, .. } => {
                    json!({"am": amount, "to": if *amount == 0 && matches!(o, Output::Variable { .. }) { String::new() } else { self.owner(to) }})
                }
                _ => json!({"am": 0, "to": ""}),
            })
            .collect()
    }

    fn result_of(&self, tx: &Transaction, st: &TransactionExecutionStatus) -> Value {
        let (res, gas, fee, receipts) = match &st.result {
            TransactionExecutionResult::Success { total_gas, total_fee, receipts, .. } => ("Ok", *total_gas, *total_fee, receipts.clone()),
            TransactionExecutionResult::Failed { total_gas, total_fee, receipts, .. } => ("Revert", *total_gas, *total_fee, receipts.clone()),
        };
        let msgs = receipts.iter().filter(|r| matches!(r, Receipt::MessageOut { .. })).count();
        json!({"res": res, "reason": "", "maxGas": max_gas_of(tx, &self.params), "gas": gas, "fee": fee,
               "size": size_of(tx), "outs": self.outs_of(tx), "msgs": msgs})
    }

    fn skip_result(&self, tx: &Transaction, word: &str, reason: &str) -> Value {
        json!({"res": word, "reason": reason, "maxGas": max_gas_of(tx, &self.params), "gas": 0, "fee": 0,
               "size": size_of(tx), "outs": [], "msgs": 0})
    }

    fn events(&mut self, evs: &[ExecutorEvent]) -> Vec<Value> {
        evs.iter()
            .map(|e| match e {
                ExecutorEvent::CoinCreated(c) => {
                    json!({"k": "CC", "id": self.coin_id(&c.utxo_id), "o": self.owner(&c.owner), "am": c.amount, "as": self.asset_name(&c.asset_id)})
                }
                ExecutorEvent::CoinConsumed(c) => json!({"k": "CX", "id": self.coin_id(&c.utxo_id), "o": "", "am": 0, "as": ""}),
                ExecutorEvent::MessageImported(m) => {
                    json!({"k": "MI", "id": {"t": self.msg_name(m.nonce()), "i": 0}, "o": self.owner(m.recipient()), "am": m.amount(), "as": ""})
                }
                ExecutorEvent::MessageConsumed(m) => json!({"k": "MX", "id": {"t": self.msg_name(m.nonce()), "i": 0}, "o": "", "am": 0, "as": ""}),
                ExecutorEvent::ForcedTransactionFailed { id, .. } => {
                    let b = Bytes32::from(id.clone());
                    // DA-time failures carry the relayed id, execution-time failures the inner transaction id
                    let n = self.relayed_names.get(&b).or_else(|| self.tx_names.get(&b)).cloned().unwrap_or_else(|| hex8(&b[..]));
                    json!({"k": "FF", "id": {"t": n, "i": 0}, "o": "", "am": 0, "as": ""})
                }
            })
            .collect()
    }

    // -------------------------------------------------------------------- one block
    pub fn run_block(&mut self, plan: &BlockPlan, t: &mut Trace) {
        let h = self.height + 1;
        let da = plan.da.max(self.da);
        t.event("ProduceBegin", json!({"hd": {"h": h, "da": da, "gp": plan.gp, "cb": plan.cb}}));
        let mut header = PartialBlockHeader::default();
        header.consensus.height = h.into();
        header.application.da_height = da.into();
        let batches: VecDeque<Vec<Transaction>> = plan
            .batches
            .iter()
            .map(|b| b.iter().filter_map(|n| self.txs.get(n).map(|(_, t)| t.clone())).collect())
            .collect();
        let batch_names: Vec<Vec<String>> =
            plan.batches.iter().map(|b| b.iter().filter(|n| self.txs.contains_key(*n)).cloned().collect()).collect();
        let calls = Arc::new(Mutex::new(vec![]));
        let source = LoggingSource { batches: Mutex::new(batches.clone()), calls: calls.clone(), chain_id: self.chain_id };
        let components = Components {
            header_to_produce: header,
            transactions_source: source,
            coinbase_recipient: self.contract_id(&plan.cb),
            gas_price: plan.gp,
        };
        self.relayer.take_calls();
        let produced = guarded(|| self.executor.produce_without_commit_with_source_direct_resolve(components));
        let da_calls = self.relayer.take_calls();
        // the other strategy: same parent state, same header, same source batches
        let other_v = self.other.as_ref().map(|ex| {
            let source = LoggingSource { batches: Mutex::new(batches), calls: Arc::new(Mutex::new(vec![])), chain_id: self.chain_id };
            let components = Components {
                header_to_produce: header,
                transactions_source: source,
                coinbase_recipient: self.contract_id(&plan.cb),
                gas_price: plan.gp,
            };
            let r = guarded(|| ex.produce_without_commit_with_source_direct_resolve(components));
            self.relayer.take_calls();
            match r {
                Ok(Ok(u)) => {
                    let (res, ch) = u.into();
                    let skipped: Vec<String> = res.skipped_transactions.iter().map(|(id, e)| format!("{}:{}", hex8(&id[..]), classify(e))).collect();
                    json!({"strat": self.strat.1, "ok": true, "err": "", "bid": hex8(&res.block.id().as_slice()[..]),
                           "dg": digests(&ch, &res.tx_status, &res.events), "skipped": skipped})
                }
                Ok(Err(e)) => json!({"strat": self.strat.1, "ok": false, "err": classify(&e), "bid": "", "dg": {"ch": "", "st": "", "ev": ""}, "skipped": []}),
                Err(p) => json!({"strat": self.strat.1, "ok": false, "err": format!("panic:{p}"), "bid": "", "dg": {"ch": "", "st": "", "ev": ""}, "skipped": []}),
            }
        });
        let (result, changes) = match produced {
            Ok(Ok(u)) => u.into(),
            other => {
                let err = match other {
                    Ok(Err(e)) => classify(&e),
                    Err(p) => format!("panic:{p}"),
                    _ => unreachable!(),
                };
                for c in &da_calls {
                    t.event("ImportDa", json!({"h": c}));
                }
                let mut p = json!({"ok": false, "err": err, "txs": [], "kinds": [], "statuses": [], "sizes": [],
                    "events": [], "msgCount": 0, "inbox": "", "da": da, "h": h,
                    "mint": {"id": "", "idx": -1, "gp": 0, "amt": 0, "cb": "none"}, "dg": {"ch": "", "st": "", "ev": ""},
                    "strat": self.strat.0, "bid": "", "skippedIds": []});
                if let Some(o) = other_v {
                    p["other"] = o;
                }
                t.event("ProduceEnd", json!({"p": p}));
                t.event("Abort", json!({}));
                return;
            }
        };
        let ExecutionResult { block, skipped_transactions, tx_status, events } = result;
        let btxs: Vec<Transaction> = block.transactions().to_vec();
        let mut pos = 0usize;
        for c in &da_calls {
            t.event("ImportDa", json!({"h": c}));
        }
        // relayed transactions that passed the DA-time checks, in relayer order
        let rel = arr(&self.cfg, "relayer");
        for c in &da_calls {
            let evs = rel.get((*c as usize).wrapping_sub(1)).and_then(|v| v.as_array().cloned()).unwrap_or_default();
            for e in evs {
                if s(&e, "k") != "tx" || !e["valid"].as_bool().unwrap_or(false) {
                    continue;
                }
                let name = s(&e, "id");
                let Some((_, src)) = self.txs.get(&name).cloned() else { continue };
                let id = src.id(&self.chain_id);
                if pos < btxs.len() && btxs[pos].id(&self.chain_id) == id && !btxs[pos].is_mint() {
                    let r = self.result_of(&btxs[pos], &tx_status[pos]);
                    t.event("ForcedTx", json!({"id": name, "r": r}));
                    pos += 1;
                } else {
                    let mut reason = "Lost".to_string();
                    for ev in &events {
                        if let ExecutorEvent::ForcedTransactionFailed { id: rid, failure, .. } = ev {
                            let rb = Bytes32::from(rid.clone());
                            if self.relayed_names.get(&rb) == Some(&name) || rb == id {
                                reason = classify_str(failure);
                            }
                        }
                    }
                    t.event("ForcedTx", json!({"id": name, "r": self.skip_result(&src, "Fail", &reason)}));
                }
            }
        }
        // source batches
        let mut skipped = skipped_transactions.iter().peekable();
        let calls_v = calls.lock().unwrap().clone();
        for (ci, (gas, n, size, ids)) in calls_v.iter().enumerate() {
            t.event("Ask", json!({"q": {"gas": gas, "n": n, "size": size}}));
            let names = batch_names.get(ci).cloned().unwrap_or_default();
            for (k, id) in ids.iter().enumerate() {
                let name = names.get(k).cloned().unwrap_or_else(|| hex8(&id[..]));
                let src = self.txs.get(&name).map(|(_, t)| t.clone());
                let Some(src) = src else { continue };
                if pos < btxs.len() && btxs[pos].id(&self.chain_id) == *id && !btxs[pos].is_mint() {
                    let r = self.result_of(&btxs[pos], &tx_status[pos]);
                    t.event("TryTx", json!({"id": name, "r": r}));
                    pos += 1;
                } else if skipped.peek().map(|(sid, _)| sid == id).unwrap_or(false) {
                    let (_, err) = skipped.next().unwrap();
                    t.event("TryTx", json!({"id": name, "r": self.skip_result(&src, "Skip", &classify(err))}));
                } else {
                    t.event("TryTx", json!({"id": name, "r": self.skip_result(&src, "Lost", "")}));
                }
            }
        }
        // anything left before the mint was not offered by the source: log it as executed
        while pos + 1 < btxs.len() {
            let name = self.tx_name(&btxs[pos].id(&self.chain_id), None);
            let r = self.result_of(&btxs[pos], &tx_status[pos]);
            t.event("TryTx", json!({"id": name, "r": r}));
            pos += 1;
        }
        let mint_v = match btxs.last() {
            Some(Transaction::Mint(m)) => {
                let id = self.tx_name(&btxs[btxs.len() - 1].id(&self.chain_id), Some(h));
                let v = json!({"id": id, "idx": m.tx_pointer().tx_index(), "gp": m.gas_price(), "amt": m.mint_amount(),
                               "cb": self.contract_name(&m.input_contract().contract_id)});
                t.event("Mint", json!({"m": v}));
                v
            }
            _ => json!({"id": "", "idx": -1, "gp": 0, "amt": 0, "cb": "none"}),
        };
        let names: Vec<String> = btxs.iter().map(|x| self.tx_name(&x.id(&self.chain_id), None)).collect();
        let kinds: Vec<&str> = btxs
            .iter()
            .map(|x| match x {
                Transaction::Script(_) => "script",
                Transaction::Create(_) => "create",
                Transaction::Mint(_) => "mint",
                _ => "other",
            })
            .collect();
        let statuses: Vec<Value> = tx_status
            .iter()
            .map(|st| {
                let (res, gas, fee) = match &st.result {
                    TransactionExecutionResult::Success { total_gas, total_fee, .. } => ("Ok", *total_gas, *total_fee),
                    TransactionExecutionResult::Failed { total_gas, total_fee, .. } => ("Revert", *total_gas, *total_fee),
                };
                json!({"id": self.tx_name(&st.id, None), "res": res, "fee": fee, "gas": gas})
            })
            .collect();
        let sizes: Vec<u64> = btxs.iter().map(size_of).collect();
        let dg = digests(&changes, &tx_status, &events);
        let evs = self.events(&events);
        let skipped_ids: Vec<String> = skipped_transactions.iter().map(|(id, e)| format!("{}:{}", hex8(&id[..]), classify(e))).collect();
        let mut p = json!({"ok": true, "err": "", "txs": names, "kinds": kinds, "statuses": statuses, "sizes": sizes, "events": evs,
                "msgCount": block.header().message_receipt_count(), "inbox": hex8(&block.header().event_inbox_root()[..]),
                "da": block.header().da_height().0, "h": **block.header().height(), "mint": mint_v, "dg": dg,
                "strat": self.strat.0, "bid": hex8(&block.id().as_slice()[..]), "skippedIds": skipped_ids});
        if let Some(o) = other_v {
            p["other"] = o;
        }
        t.event("ProduceEnd", json!({"p": p}));
        // validate twice
        for _ in 0..2 {
            self.relayer.take_calls();
            let v = guarded(|| self.executor.validate(&block));
            let vcalls = self.relayer.take_calls();
            let other = self.other.as_ref().map(|ex| {
                let r = guarded(|| ex.validate(&block));
                self.relayer.take_calls();
                match r {
                    Ok(Ok(uv)) => {
                        let (vr, vch) = uv.into();
                        json!({"res": "Accept", "reason": "", "dg": digests(&vch, &vr.tx_status, &vr.events)})
                    }
                    Ok(Err(e)) => json!({"res": "Reject", "reason": classify(&e), "dg": {"ch": "", "st": "", "ev": ""}}),
                    Err(p) => json!({"res": "Reject", "reason": format!("panic:{p}"), "dg": {"ch": "", "st": "", "ev": ""}}),
                }
            });
            let mut ev = match v {
                Ok(Ok(uv)) => {
                    let (vr, vch) = uv.into();
                    json!({"res": "Accept", "reason": "", "dg": digests(&vch, &vr.tx_status, &vr.events), "daCalls": vcalls})
                }
                Ok(Err(e)) => json!({"res": "Reject", "reason": classify(&e), "dg": {"ch": "", "st": "", "ev": ""}, "daCalls": vcalls}),
                Err(p) => json!({"res": "Reject", "reason": format!("panic:{p}"), "dg": {"ch": "", "st": "", "ev": ""}, "daCalls": vcalls}),
            };
            if let Some(o) = other {
                ev["other"] = o;
            }
            t.event("Validate", json!({"v": ev}));
        }
        // tampered variants
        let msg_ids: Vec<MessageId> = tx_status
            .iter()
            .filter_map(|st| match &st.result {
                TransactionExecutionResult::Success { receipts, .. } => Some(receipts.iter().filter_map(|r| r.message_id()).collect::<Vec<_>>()),
                _ => None,
            })
            .flatten()
            .collect();
        for kind in &plan.tampers {
            if let Some(tb) = self.tamper(kind, &block, &msg_ids) {
                self.relayer.take_calls();
                let v = guarded(|| self.executor.validate(&tb));
                self.relayer.take_calls();
                let (res, reason) = match v {
                    Ok(Ok(_)) => ("Accept".to_string(), String::new()),
                    Ok(Err(e)) => ("Reject".to_string(), classify(&e)),
                    Err(p) => ("Reject".to_string(), format!("panic:{p}")),
                };
                let mut tv = json!({"kind": kind, "res": res, "reason": reason});
                if let Some(ex) = self.other.as_ref() {
                    let r = guarded(|| ex.validate(&tb));
                    self.relayer.take_calls();
                    let (res, reason) = match r {
                        Ok(Ok(_)) => ("Accept".to_string(), String::new()),
                        Ok(Err(e)) => ("Reject".to_string(), classify(&e)),
                        Err(p) => ("Reject".to_string(), format!("panic:{p}")),
                    };
                    tv["other"] = json!({"res": res, "reason": reason});
                }
                t.event("Tamper", json!({"t": tv}));
            }
        }
        // commit like the importer: executor changes + the block itself in one database commit
        let mut tx = self.db.snapshot().into_transaction().with_changes(changes);
        tx.storage_as_mut::<FuelBlocks>().insert(block.header().height(), &block.compress(&self.chain_id)).unwrap();
        for x in block.transactions() {
            tx.storage_as_mut::<Transactions>().insert(&x.id(&self.chain_id), x).unwrap();
        }
        let all = tx.into_changes();
        self.db.commit(all, h.into());
        self.height = h;
        self.da = da;
        for x in btxs.iter().filter(|x| !x.is_mint()) {
            self.executed_before.push(x.clone());
        }
        let st = self.state();
        self.last_state = st.clone();
        t.event("Commit", json!({"st": st}));
    }

    fn tamper(&self, kind: &str, block: &Block, msg_ids: &[MessageId]) -> Option<Block> {
        let mut txs: Vec<Transaction> = block.transactions().to_vec();
        let n = txs.len();
        let mint = match txs.last() {
            Some(Transaction::Mint(m)) => m.clone(),
            _ => return None,
        };
        let remint = |idx: u16, amt: u64, gp: u64, cid: Option<ContractId>| -> Transaction {
            let mut input = mint.input_contract().clone();
            if let Some(c) = cid {
                input.contract_id = c;
            }
            Transaction::mint(
                TxPointer::new(mint.tx_pointer().block_height(), idx),
                input,
                *mint.output_contract(),
                amt,
                *mint.mint_asset_id(),
                gp,
            )
            .into()
        };
        let (idx, amt, gp) = (mint.tx_pointer().tx_index(), *mint.mint_amount(), *mint.gas_price());
        match kind {
            "mintAmount" => txs[n - 1] = remint(idx, amt + 1, gp, None),
            "mintInflate" => {
                // more than the collected fees, with the contract input / output balance roots a producer
                // would have computed for that amount (the mint is self-consistent)
                let cid = mint.input_contract().contract_id;
                if cid == ContractId::zeroed() {
                    return None;
                }
                let inflated = amt + 1_000;
                let snap = self.db.snapshot();
                let old: Option<u64> = snap
                    .iter_all::<ContractsAssets>(None)
                    .filter_map(|r| r.ok())
                    .find(|(k, _)| *k.contract_id() == cid && *k.asset_id() == AssetId::BASE)
                    .map(|(_, v)| v);
                let root = |v: Option<u64>| {
                    let mut h = Hasher::default();
                    h.input(AssetId::BASE);
                    match v {
                        Some(x) => {
                            h.input([1u8]);
                            h.input(x.to_be_bytes());
                        }
                        None => h.input([0u8]),
                    }
                    h.digest()
                };
                let mut input = mint.input_contract().clone();
                input.balance_root = root(old);
                let mut output = *mint.output_contract();
                output.balance_root = root(Some(old.unwrap_or(0) + inflated));
                txs[n - 1] = Transaction::mint(
                    TxPointer::new(mint.tx_pointer().block_height(), idx),
                    input,
                    output,
                    inflated,
                    *mint.mint_asset_id(),
                    gp,
                )
                .into();
            }
            "mintGasPrice" => txs[n - 1] = remint(idx, amt, gp + 1, None),
            "mintIndex" => txs[n - 1] = remint(idx + 1, amt, gp, None),
            "noMint" => {
                txs.pop();
            }
            "mintNotLast" => {
                if n < 2 {
                    return None;
                }
                txs.swap(n - 1, n - 2);
            }
            "mintRecipient" => {
                let other = if mint.input_contract().contract_id == ContractId::zeroed() { self.contract_id("c1") } else { ContractId::zeroed() };
                txs[n - 1] = remint(idx, amt, gp, Some(other));
            }
            "dupTx" => {
                let old = self.executed_before.last()?.clone();
                txs.insert(n - 1, old);
                txs[n] = remint(idx + 1, amt, gp, None);
            }
            "dupInBlock" => {
                if n < 2 {
                    return None;
                }
                let d = txs[0].clone();
                txs.insert(1, d);
                txs[n] = remint(idx + 1, amt, gp, None);
            }
            "dropTx" => {
                if n < 2 {
                    return None;
                }
                txs.remove(0);
            }
            _ => return None,
        }
        if kind == "mintGasPrice" {
            // validation has no other source of the gas price than the mint: keep the produced header,
            // which commits to the original mint
            let mut b = block.clone();
            *b.transactions_mut() = txs;
            return Some(b);
        }
        let ph = PartialBlockHeader::from(block.header());
        PartialFuelBlock::new(ph, txs).generate(msg_ids, block.header().event_inbox_root()).ok()
    }

    // -------------------------------------------------------------------- seeded driver
    pub fn random_plan(&mut self, rng: &mut Rng) -> BlockPlan {
        let maxda = arr(&self.cfg, "relayer").len() as u64;
        let da = (self.da + [0, 0, 1, 1, 2, 3][rng.below(6) as usize]).min(maxda);
        let gp = [0, 0, 1, 1, 2][rng.below(5) as usize];
        let cb = ["none", "none", "none", "c1", "c1", "c1", "c1", "c1", "c1", "c1", "c2", "cX"][rng.below(12) as usize].to_string();
        let names: Vec<String> = self.txs.keys().cloned().collect();
        let forced: Vec<String> = arr(&self.cfg, "relayer")
            .iter()
            .flat_map(|v| v.as_array().cloned().unwrap_or_default())
            .filter(|e| s(e, "k") == "tx")
            .map(|e| s(&e, "id"))
            .collect();
        let st = self.last_state.clone();
        let processed: Vec<String> = arr(&st, "processed").iter().map(|v| v.as_str().unwrap_or("").to_string()).collect();
        let mut batches = vec![];
        let nb = [1, 1, 1, 2, 0][rng.below(5) as usize];
        for _ in 0..nb {
            let k = rng.below(6);
            let mut b = vec![];
            for _ in 0..k {
                // prefer transactions that were not executed yet; sometimes resubmit
                // mostly the newest descriptors (built over what is unspent now), sometimes any
                let recent: Vec<String> = names.iter().filter(|n| self.recent.contains(*n)).cloned().collect();
                let mut pick = if !recent.is_empty() && rng.chance(4, 5) { rng.pick(&recent).clone() } else { rng.pick(&names).clone() };
                for _ in 0..3 {
                    if (processed.contains(&pick) && !rng.chance(1, 4)) || (forced.contains(&pick) && !rng.chance(1, 6)) {
                        pick = rng.pick(&names).clone();
                    }
                }
                b.push(pick.clone());
                if rng.chance(1, 10) {
                    b.push(pick);
                }
            }
            // ids preserved by regenesis are offered again now and then
            let p0 = arr(&self.cfg, "processed0");
            if !p0.is_empty() && rng.chance(1, 4) {
                b.push(rng.pick(&p0).as_str().unwrap_or("").to_string());
            }
            batches.push(b);
        }
        if !self.pending.is_empty() {
            let mut b = std::mem::take(&mut self.pending);
            if let Some(first) = batches.first().cloned() {
                b.extend(first);
                batches[0] = b;
            } else {
                batches.push(b);
            }
        }
        let all = ["mintInflate", "mintInflate", "mintAmount", "mintGasPrice", "mintIndex", "noMint", "mintNotLast", "mintRecipient", "dupTx", "dupInBlock", "dropTx"];
        let mut tampers = vec![];
        for _ in 0..rng.below(3) {
            tampers.push(rng.pick(&all).to_string());
        }
        BlockPlan { da, gp, cb, batches, tampers }
    }

    /// New descriptors over the coins / messages that are unspent right now.
    pub fn add_late_txs(&mut self, rng: &mut Rng, t: &mut Trace) {
        let st = self.last_state.clone();
        if rng.chance(1, 4) {
            self.add_gas_stress(rng, t);
        }
        let n = 1 + rng.below(4);
        self.recent.clear();
        for _ in 0..n {
            let id = format!("t{}", self.next_tx);
            self.next_tx += 1;
            let d = gen_desc(rng, &id, &arr(&st, "coins"), &arr(&st, "msgs"), &self.deployed(&st), self.height);
            self.register_tx(&d);
            self.recent.push(id.clone());
            let mut txs = arr(&self.cfg, "txs");
            txs.push(d.clone());
            self.cfg["txs"] = Value::Array(txs);
            t.event("AddTx", json!({"tx": d}));
        }
    }
    /// Gas stress: a script that burns (almost) the whole block gas limit followed by ordinary ones.
    fn add_gas_stress(&mut self, rng: &mut Rng, t: &mut Trace) {
        let st = self.last_state.clone();
        let coins: Vec<Value> = arr(&st, "coins").into_iter().filter(|c| s(c, "as") == "A0" && u(c, "am") >= 3 * MF).collect();
        if coins.len() < 3 {
            return;
        }
        let first = rng.below(coins.len() as u64) as usize;
        for k in 0..3 {
            let id = format!("t{}", self.next_tx);
            self.next_tx += 1;
            let c = &coins[(first + k) % coins.len()];
            let d = json!({"id": id, "kind": "script", "ins": [coin_in(c)], "outs": [out("change", "o1", 0, 0)], "ops": [],
                           "end": if k == 0 { "burn" } else { "ret" }, "exp": -1, "c": "", "bad": "none", "mf": 1,
                           "gl": if k == 0 { "big" } else { "std" }});
            self.register_tx(&d);
            self.pending.push(id);
            let mut txs = arr(&self.cfg, "txs");
            txs.push(d.clone());
            self.cfg["txs"] = Value::Array(txs);
            t.event("AddTx", json!({"tx": d}));
        }
    }
    fn deployed(&self, st: &Value) -> Vec<String> {
        arr(st, "contracts").iter().map(|c| s(c, "id")).collect()
    }
}

enum IoItem {
    In(Value),
    Out(Value),
}

fn push_const(code: &mut Vec<fuel_core_types::fuel_asm::Instruction>, reg: u8, v: u64) {
    // movi takes 18 bits; larger constants: movi hi; slli; ori (values < 2^30)
    if v < (1 << 18) {
        code.push(op::movi(reg, v as u32));
    } else {
        code.push(op::movi(reg, (v >> 12) as u32));
        code.push(op::slli(reg, reg, 12));
        code.push(op::ori(reg, reg, (v & 0xfff) as u16));
    }
}

fn exec_config() -> ExecConfig {
    ExecConfig { forbid_fake_coins_default: true, allow_syscall: false, native_executor_version: None, allow_historical_execution: false }
}

fn max_gas_of(t: &Transaction, p: &ConsensusParameters) -> u64 {
    match t {
        Transaction::Script(x) => x.max_gas(p.gas_costs(), p.fee_params()),
        Transaction::Create(x) => x.max_gas(p.gas_costs(), p.fee_params()),
        _ => 0,
    }
}
fn size_of(t: &Transaction) -> u64 {
    match t {
        Transaction::Script(x) => x.metered_bytes_size() as u64,
        Transaction::Create(x) => x.metered_bytes_size() as u64,
        _ => 0,
    }
}

/// RFC 6962 binary Merkle root, written independently of fuel-merkle.
fn merkle_root(leaves: &[Bytes32]) -> Bytes32 {
    fn node(l: &Bytes32, r: &Bytes32) -> Bytes32 {
        let mut h = Hasher::default();
        h.input([1u8]);
        h.input(l);
        h.input(r);
        h.digest()
    }
    fn leaf(d: &Bytes32) -> Bytes32 {
        let mut h = Hasher::default();
        h.input([0u8]);
        h.input(d);
        h.digest()
    }
    fn rec(ls: &[Bytes32]) -> Bytes32 {
        match ls.len() {
            0 => Hasher::hash([]),
            1 => leaf(&ls[0]),
            n => {
                let mut k = 1;
                while k * 2 < n {
                    k *= 2;
                }
                node(&rec(&ls[..k]), &rec(&ls[k..]))
            }
        }
    }
    rec(leaves)
}

fn digests(changes: &Changes, st: &[TransactionExecutionStatus], ev: &[ExecutorEvent]) -> Value {
    let mut cols: Vec<_> = changes.iter().collect();
    cols.sort_by_key(|(c, _)| **c);
    let mut h = Hasher::default();
    for (c, m) in cols {
        h.input(c.to_be_bytes());
        for (k, op) in m.iter() {
            let kb: &[u8] = k.as_ref();
            h.input((kb.len() as u32).to_be_bytes());
            h.input(kb);
            match op {
                WriteOperation::Insert(v) => {
                    h.input([1u8]);
                    h.input((v.len() as u32).to_be_bytes());
                    h.input(v.as_ref());
                }
                WriteOperation::Remove => h.input([0u8]),
            }
        }
    }
    json!({"ch": hex8(&h.digest()[..]), "st": hex8(&Hasher::hash(format!("{st:?}").as_bytes())[..]),
           "ev": hex8(&Hasher::hash(format!("{ev:?}").as_bytes())[..])})
}

pub fn classify(e: &ExecutorError) -> String {
    use TransactionValidityError as V;
    match e {
        ExecutorError::TransactionIdCollision(_) => "TransactionIdCollision",
        ExecutorError::GasOverflow(..) => "GasOverflow",
        ExecutorError::MintMissing => "MintMissing",
        ExecutorError::MintHasUnexpectedIndex => "MintHasUnexpectedIndex",
        ExecutorError::MintIsNotLastTransaction => "MintIsNotLastTransaction",
        ExecutorError::MintMismatch => "MintMismatch",
        ExecutorError::CoinbaseAmountMismatch => "CoinbaseAmountMismatch",
        ExecutorError::CoinbaseGasPriceMismatch => "CoinbaseGasPriceMismatch",
        ExecutorError::TransactionValidity(v) => match v {
            V::CoinMismatch(_) => "CoinMismatch",
            V::CoinDoesNotExist(_) => "CoinDoesNotExist",
            V::MessageSpendTooEarly(_) => "MessageSpendTooEarly",
            V::MessageDoesNotExist(_) => "MessageDoesNotExist",
            V::MessageMismatch(_) => "MessageMismatch",
            V::ContractDoesNotExist(_) => "ContractDoesNotExist",
            V::Validation(_) => "InvalidTransaction",
            _ => "TransactionValidity",
        },
        ExecutorError::VmExecution { .. } => "VmExecution",
        ExecutorError::InvalidTransaction(CheckError::Validity(ValidityError::TransactionExpiration)) => "Expired",
        ExecutorError::TransactionExpired(..) => "Expired",
        ExecutorError::InvalidTransaction(_) => "InvalidTransaction",
        ExecutorError::InvalidTransactionOutcome { .. } => "InvalidTransactionOutcome",
        ExecutorError::BlockMismatch => "BlockMismatch",
        ExecutorError::MessageDoesNotExist(_) => "MessageDoesNotExist",
        ExecutorError::OutputAlreadyExists => "OutputAlreadyExists",
        ExecutorError::RelayerGivesIncorrectMessages => "RelayerGivesIncorrectMessages",
        ExecutorError::PreviousBlockIsNotFound => "PreviousBlockIsNotFound",
        _ => "Other",
    }
    .to_string()
}

pub fn classify_str(f: &str) -> String {
    let table = [
        ("was already used", "TransactionIdCollision"),
        ("doesn't match the coin", "CoinMismatch"),
        ("specified coin", "CoinDoesNotExist"),
        ("not yet spendable", "MessageSpendTooEarly"),
        ("specified message", "MessageDoesNotExist"),
        ("doesn't match the relayer message", "MessageMismatch"),
        ("specified contract", "ContractDoesNotExist"),
        ("TransactionExpiration", "Expired"),
        ("expiration block height", "Expired"),
        ("execution error", "VmExecution"),
        ("last transaction in the block is not", "MintIsNotLastTransaction"),
    ];
    for (pat, r) in table {
        if f.contains(pat) {
            return r.to_string();
        }
    }
    "InvalidTransaction".to_string()
}

// ------------------------------------------------------------------------------------------------
// configurations
// ------------------------------------------------------------------------------------------------
/// B2: the model's small numbers become real amounts; limits are chosen by the world.
pub fn scale_cfg(c: &Value) -> Value {
    fn walk(v: &Value, key: &str) -> Value {
        match v {
            Value::Object(m) => {
                let mut o = Map::new();
                for (k, x) in m {
                    o.insert(k.clone(), walk(x, k));
                }
                Value::Object(o)
            }
            Value::Array(a) => Value::Array(a.iter().map(|x| walk(x, key)).collect()),
            Value::Number(n) if matches!(key, "am" | "fwd") => json!(n.as_u64().unwrap_or(0) * SCALE),
            other => other.clone(),
        }
    }
    let mut c = walk(c, "");
    c["gasLimit"] = json!(0);
    c["sizeLimit"] = json!(0);
    c
}

fn coin_in(c: &Value) -> Value {
    json!({"k": "coin", "id": s(&c["id"], "t"), "i": u(&c["id"], "i"), "o": s(c, "o"), "am": u(c, "am"), "as": s(c, "as"), "data": false})
}
fn msg_in(m: &Value) -> Value {
    json!({"k": "msg", "id": s(m, "id"), "i": 0, "o": s(m, "o"), "am": u(m, "am"), "as": "A0", "data": m["data"].as_bool().unwrap_or(false)})
}
fn con_in(c: &str) -> Value {
    json!({"k": "contract", "id": c, "i": 0, "o": "", "am": 0, "as": "A0", "data": false})
}
fn out(k: &str, to: &str, am: u64, input: u64) -> Value {
    json!({"k": k, "to": to, "am": am, "as": "A0", "in": input})
}
fn opv(op: &str, c: &str, slot: u64, val: u64, fwd: u64, out: u64, am: u64, to: &str) -> Value {
    json!({"op": op, "c": c, "slot": slot, "val": val, "fwd": fwd, "out": out, "am": am, "to": to})
}

/// One random descriptor over the given unspent coins / messages / deployed contracts.
pub fn gen_desc(rng: &mut Rng, id: &str, coins: &[Value], msgs: &[Value], contracts: &[String], height: u32) -> Value {
    let owners = ["o1", "o2", "o3"];
    let base: Vec<&Value> = coins.iter().filter(|c| s(c, "as") == "A0" && u(c, "am") >= 3 * MF).collect();
    let mut d = json!({"id": id, "kind": "script", "ins": [], "outs": [], "ops": [], "end": "ret", "exp": -1, "c": "",
                       "bad": "none", "mf": 1, "gl": "std"});
    let mut ins: Vec<Value> = vec![];
    let mut outs: Vec<Value> = vec![];
    let mut ops: Vec<Value> = vec![];
    let flavor = rng.below(20);
    // fee payer
    if flavor != 7 || rng.chance(2, 3) {
        if base.is_empty() {
            ins.push(json!({"k": "coin", "id": "gNone", "i": 0, "o": "o1", "am": 5 * MF, "as": "A0", "data": false}));
        } else {
            ins.push(coin_in(*rng.pick(&base)));
            if rng.chance(1, 4) {
                let c2 = coin_in(*rng.pick(&base));
                if c2 != ins[0] {
                    ins.push(c2);
                }
            }
        }
    }
    let change_to = if rng.chance(1, 4) { "oP".to_string() } else { rng.pick(&owners).to_string() };
    let c_live: Vec<&String> = contracts.iter().filter(|c| c.starts_with('c')).collect();
    match flavor {
        0..=3 => {
            // plain transfer
            if rng.chance(1, 2) {
                outs.push(out("coin", *rng.pick(&owners), 1000 + rng.below(5000), 0));
            }
            outs.push(out("change", &change_to, 0, 0));
            if rng.chance(1, 3) {
                d["end"] = json!(*rng.pick(&["rvrt", "panic", "oog", "burn", "burn", "burn"]));
            }
        }
        4..=6 | 8..=11 => {
            // contract calls; 8..=11 revert / panic / revert inside the call
            let c = if c_live.is_empty() || rng.chance(1, 12) { "c3".to_string() } else { (*rng.pick(&c_live)).clone() };
            let ci = ins.len() as u64;
            ins.push(con_in(&c));
            if rng.chance(1, 3) {
                let ms: Vec<&Value> = msgs.iter().collect();
                if !ms.is_empty() {
                    ins.push(msg_in(*rng.pick(&ms)));
                }
            }
            outs.push(out("change", &change_to, 0, 0));
            outs.push(out("contract", "", 0, ci));
            let k = 1 + rng.below(3);
            for _ in 0..k {
                ops.push(opv("call", &c, rng.below(3), 1 + rng.below(9), [0, 0, 1000, 2500][rng.below(4) as usize], 0, 0, ""));
            }
            if rng.chance(1, 3) {
                ops.push(opv("smo", "", 0, 0, 0, 0, 700, ""));
            }
            if rng.chance(2, 5) {
                let oi = outs.len() as u64;
                outs.push(out("variable", "", 0, 0));
                ops.push(opv("tro", "", 0, 0, 0, oi, 900, *rng.pick(&owners)));
            }
            match flavor {
                8 | 9 => d["end"] = json!("rvrt"),
                10 => d["end"] = json!(*rng.pick(&["panic", "oog"])),
                11 => ops.push(opv("callrvrt", &c, rng.below(3), 77, 0, 0, 0, "")),
                _ => {}
            }
        }
        7 => {
            // only a retryable message, reverting, zero max fee: re-executable unless the id check stops it
            let ms: Vec<&Value> = msgs.iter().filter(|m| m["data"].as_bool().unwrap_or(false)).collect();
            if ms.is_empty() {
                ins.push(json!({"k": "msg", "id": "mNone", "i": 0, "o": "o1", "am": 1000, "as": "A0", "data": true}));
            } else {
                ins.push(msg_in(*rng.pick(&ms)));
            }
            d["end"] = json!(*rng.pick(&["rvrt", "rvrt", "panic", "ret"]));
            d["mf"] = json!(0);
        }
        12 => {
            // create a contract
            let c = ["c2", "c2", "c3", "c4"][rng.below(4) as usize];
            d["kind"] = json!("create");
            d["c"] = json!(c);
            outs.push(out("created", "", 0, 0));
            outs.push(out("change", &change_to, 0, 0));
        }
        13 => {
            // spends a message (possibly not yet spendable)
            let ms: Vec<&Value> = msgs.iter().collect();
            if !ms.is_empty() {
                ins.push(msg_in(*rng.pick(&ms)));
            }
            outs.push(out("change", &change_to, 0, 0));
        }
        14 => {
            ins[0]["am"] = json!(u(&ins[0], "am") + 1); // amount mismatch
            outs.push(out("change", &change_to, 0, 0));
        }
        15 => {
            let o = s(&ins[0], "o");
            ins[0]["o"] = json!(if o == "o1" { "o2" } else { "o1" }); // owner mismatch
            outs.push(out("change", &change_to, 0, 0));
        }
        16 => {
            ins[0]["id"] = json!(format!("gMissing{}", rng.below(3))); // missing coin
            outs.push(out("change", &change_to, 0, 0));
        }
        17 => {
            d["exp"] = json!(height as i64 + rng.range(0, 2)); // expires soon
            outs.push(out("change", &change_to, 0, 0));
        }
        18 if rng.chance(1, 2) => {
            d["bad"] = json!("basic"); // max fee above the inputs
            outs.push(out("change", &change_to, 0, 0));
        }
        _ => {
            d["gl"] = json!("big"); // large gas limit: gas overflow candidates
            outs.push(out("change", &change_to, 0, 0));
        }
    }
    if s(&d, "kind") == "script" && s(&d, "end") != "oog" && rng.chance(1, 5) {
        d["gl"] = json!("big");
    }
    d["ins"] = Value::Array(ins);
    d["outs"] = Value::Array(outs);
    d["ops"] = Value::Array(ops);
    d
}

pub fn random_cfg(rng: &mut Rng, small_size: bool) -> Value {
    let owners = ["o1", "o2", "o3"];
    let mut coins = vec![];
    for i in 1..=(5 + rng.below(3)) {
        coins.push(json!({"id": {"t": format!("g{i}"), "i": 0}, "o": if rng.chance(1, 3) { "oP" } else { *rng.pick(&owners) }, "am": 400_000 + rng.below(10) * 50_000, "as": "A0"}));
    }
    let da0 = rng.below(2);
    let mut msgs = vec![];
    for i in 1..=(2 + rng.below(2)) {
        msgs.push(json!({"id": format!("m{i}"), "o": if rng.chance(1, 2) { "oP" } else { *rng.pick(&owners) }, "am": 100_000 + rng.below(5) * 10_000,
                         "da": if rng.chance(1, 3) { da0 + 1 + rng.below(2) } else { da0 }, "data": rng.chance(1, 2)}));
    }
    let contracts = vec!["c1"];
    // initial descriptors
    let mut txs = vec![];
    let ntx = 6 + rng.below(5);
    for i in 1..=ntx {
        txs.push(gen_desc(rng, &format!("t{i}"), &coins, &msgs, &["c1".to_string()], 0));
    }
    // relayer: messages, valid and invalid forced transactions for DA heights da0+1 ..
    let mut relayer = vec![];
    for _ in 0..da0 {
        relayer.push(json!([]));
    }
    let mut k = 0;
    for _h in (da0 + 1)..=(da0 + 3) {
        let mut evs = vec![];
        for _ in 0..rng.below(4) {
            k += 1;
            match rng.below(5) {
                0 | 1 => {
                    let m = json!({"k": "msg", "id": format!("r{k}"), "o": if rng.chance(1, 2) { "oP" } else { *rng.pick(&owners) }, "am": 50_000 + rng.below(5) * 10_000,
                                   "data": rng.chance(1, 3), "valid": true, "why": ""});
                    evs.push(m);
                }
                2 | 3 => {
                    // a valid forced transaction: its own descriptor, not offered to the source by default
                    let id = format!("f{k}");
                    let mut d = gen_desc(rng, &id, &coins, &msgs, &["c1".to_string()], 0);
                    let mut tries = 0;
                    while (s(&d, "bad") != "none" || d["exp"].as_i64().unwrap_or(-1) >= 0 || u(&d, "mf") == 0) && tries < 20 {
                        d = gen_desc(rng, &id, &coins, &msgs, &["c1".to_string()], 0);
                        tries += 1;
                    }
                    if tries < 20 {
                        txs.push(d);
                        evs.push(json!({"k": "tx", "id": id, "o": "", "am": 0, "data": false, "valid": true, "why": ""}));
                    }
                }
                _ => {
                    let why = *rng.pick(&["junk", "mint", "lowgas"]);
                    let id = format!("b{k}");
                    if why == "lowgas" {
                        let mut d = gen_desc(rng, &id, &coins, &msgs, &["c1".to_string()], 0);
                        d["bad"] = json!("none");
                        txs.push(d);
                    }
                    evs.push(json!({"k": "tx", "id": id, "o": "", "am": 0, "data": false, "valid": false, "why": why}));
                }
            }
        }
        relayer.push(Value::Array(evs));
    }
    // now and then a block size limit that a source ignoring its `size` argument can exceed
    let size_limit = if small_size { 1_500 } else { 0 };
    let mut processed0 = vec![];
    if rng.chance(1, 2) {
        processed0.push(json!(format!("t{}", 1 + rng.below(ntx))));
    }
    json!({"coins": coins, "msgs": msgs, "contracts": contracts, "relayer": relayer, "txs": txs, "processed0": processed0,
           "gasLimit": 0, "sizeLimit": size_limit, "maxTx": 0, "roots": [], "da0": da0})
}

pub fn probe() {
    let mut rng = Rng::new(env_seed());
    let cfg = random_cfg(&mut rng, false);
    let mut w = World::new(cfg);
    eprintln!("gasLimit {} sizeLimit {}", u(&w.cfg, "gasLimit"), u(&w.cfg, "sizeLimit"));
    for (n, (d, t)) in &w.txs {
        eprintln!("{n} kind={} end={} max_gas={} size={}", s(d, "kind"), s(d, "end"), max_gas_of(t, &w.params), size_of(t));
    }
    let mut t = Trace::create("/dev/stdout");
    w.log_setup(&mut t);
    for _ in 0..3 {
        w.add_late_txs(&mut rng, &mut t);
        let plan = w.random_plan(&mut rng);
        w.run_block(&plan, &mut t);
    }
    t.finish();
}
