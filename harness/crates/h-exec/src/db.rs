//! A plain in-memory key-value store with the views the executor asks for.  It replaces
//! fuel-core's `Database<OnChain>` in this harness so that a change in the executor crates
//! rebuilds only those crates (the `fuel-core` crate depends on the executor and takes ten
//! minutes to rebuild).  The executor only sees `KeyValueInspect<Column = Column>`.
use fuel_core_storage::{
    Result as StorageResult,
    column::Column,
    iter::{BoxedIter, IntoBoxedIter, IterDirection, IterableStore},
    kv_store::{KVItem, KeyItem, KeyValueInspect, StorageColumn, Value, WriteOperation},
    transactional::{AtomicView, Changes, HistoricalView},
};
use fuel_core_types::fuel_types::BlockHeight;
use std::{
    collections::BTreeMap,
    sync::{Arc, RwLock},
};

#[derive(Clone, Default, Debug)]
pub struct MemStore {
    cols: BTreeMap<u32, BTreeMap<Vec<u8>, Value>>,
}

impl KeyValueInspect for MemStore {
    type Column = Column;
    fn get(&self, key: &[u8], column: Column) -> StorageResult<Option<Value>> {
        Ok(self.cols.get(&column.id()).and_then(|m| m.get(key)).cloned())
    }
}

impl MemStore {
    fn items(&self, column: Column, prefix: Option<&[u8]>, start: Option<&[u8]>, direction: IterDirection) -> Vec<(Vec<u8>, Value)> {
        let mut v: Vec<(Vec<u8>, Value)> = self
            .cols
            .get(&column.id())
            .map(|m| m.iter().map(|(k, v)| (k.clone(), v.clone())).collect())
            .unwrap_or_default();
        if let Some(p) = prefix {
            v.retain(|(k, _)| k.starts_with(p));
        }
        match direction {
            IterDirection::Forward => {
                if let Some(s) = start {
                    v.retain(|(k, _)| k.as_slice() >= s);
                }
            }
            IterDirection::Reverse => {
                if let Some(s) = start {
                    v.retain(|(k, _)| k.as_slice() <= s);
                }
                v.reverse();
            }
        }
        v
    }
}

impl IterableStore for MemStore {
    fn iter_store(&self, column: Column, prefix: Option<&[u8]>, start: Option<&[u8]>, direction: IterDirection) -> BoxedIter<'_, KVItem> {
        self.items(column, prefix, start, direction).into_iter().map(Ok).into_boxed()
    }
    fn iter_store_keys(&self, column: Column, prefix: Option<&[u8]>, start: Option<&[u8]>, direction: IterDirection) -> BoxedIter<'_, KeyItem> {
        self.items(column, prefix, start, direction).into_iter().map(|(k, _)| Ok(k)).into_boxed()
    }
}

/// Shared handle: the executor holds a clone and takes a snapshot per produce / validate call.
#[derive(Clone, Default)]
pub struct MemDb {
    inner: Arc<RwLock<(MemStore, Option<BlockHeight>)>>,
}

impl MemDb {
    pub fn snapshot(&self) -> MemStore {
        self.inner.read().unwrap().0.clone()
    }
    /// Apply a batch of changes atomically; `height` becomes the latest height.
    pub fn commit(&self, changes: Changes, height: BlockHeight) {
        let mut g = self.inner.write().unwrap();
        for (col, m) in changes {
            let c = g.0.cols.entry(col).or_default();
            for (k, op) in m {
                let key: Vec<u8> = AsRef::<[u8]>::as_ref(&k).to_vec();
                match op {
                    WriteOperation::Insert(v) => {
                        c.insert(key, v);
                    }
                    WriteOperation::Remove => {
                        c.remove(&key);
                    }
                }
            }
        }
        g.1 = Some(height);
    }
}

impl AtomicView for MemDb {
    type LatestView = MemStore;
    fn latest_view(&self) -> StorageResult<MemStore> {
        Ok(self.snapshot())
    }
}

impl HistoricalView for MemDb {
    type Height = BlockHeight;
    type ViewAtHeight = MemStore;
    fn latest_height(&self) -> Option<BlockHeight> {
        self.inner.read().unwrap().1
    }
    fn view_at(&self, height: &BlockHeight) -> StorageResult<MemStore> {
        let g = self.inner.read().unwrap();
        match g.1 {
            Some(h) if h != *height => Err(fuel_core_storage::Error::Other(anyhow::anyhow!(
                "no view at height {height}: the store is at {h}"
            ))),
            _ => Ok(g.0.clone()),
        }
    }
}
