//! Harness for C29 (relayer: every DA block's events recorded exactly once) and C30 (producer:
//! DA height selection).  Action interpreter + projector + logger only; TLC judges the traces.
mod daselect;
mod relayer;

use h_common::*;

fn main() {
    let args = Args::parse();
    match args.mode.as_str() {
        // C29
        "run" => relayer::run_walks(&args),
        "random" => relayer::random(&args),
        // C30
        "daselect" => daselect::enumerate(&args),
        "daselect-random" => daselect::random(&args),
        m => die(&format!("unknown mode {m}")),
    }
}
