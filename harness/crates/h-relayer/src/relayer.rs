//! C29: the real relayer service (`new_service_test` / `verif::new_service_retrying`) over
//!  * a scripted provider: the crate's `MockProvider` serves the DA logs and the finalized block; the
//!    wrapper decides per `get_logs` call whether it succeeds, carries extra (ignored-topic) logs,
//!    fails with a transport / non-transport error, or is overtaken by a stop signal;
//!  * an in-memory `EventsHistory` table (fuel-core-storage `InMemoryStorage`) behind the relayer's
//!    own `Transactional` port, so `storage.rs::insert_events` is the code that writes.
//! Every port call is logged in call order on the single runtime thread.
use alloy_primitives::{
    Address,
    B256,
    Bytes,
    IntoLogData,
    LogData,
    U256,
};
use alloy_provider::{
    EthGetBlock,
    Provider,
    ProviderCall,
    RootProvider,
    network::Ethereum,
    transport::{
        TransportError,
        TransportErrorKind,
        TransportResult,
    },
};
use alloy_rpc_client::NoParams;
use alloy_rpc_types_eth::{
    BlockId,
    Filter,
    Log,
    SyncStatus,
};
use async_trait::async_trait;
use fuel_core_provider::test_helpers::provider::MockProvider;
use fuel_core_relayer::{
    Config,
    bridge::{
        MessageSent,
        Transaction,
    },
    ports::Transactional,
    storage::{
        Column,
        EventsHistory,
    },
};
use fuel_core_services::{
    Service,
    State,
};
use fuel_core_storage::{
    Error as StorageError,
    Result as StorageResult,
    StorageAsRef,
    kv_store::{
        KeyValueInspect,
        StorageColumn,
        Value as KvValue,
    },
    structured_storage::test::InMemoryStorage,
    transactional::{
        Changes,
        Modifiable,
        ReadTransaction,
        StorageTransaction,
        WriteTransaction,
    },
};
use fuel_core_types::{
    blockchain::primitives::DaBlockHeight,
    services::relayer::Event,
};
use futures::FutureExt;
use h_common::*;
use serde_json::{
    Map,
    Value,
};
use std::{
    collections::VecDeque,
    sync::{
        Arc,
        Mutex,
    },
    time::Duration,
};

// ------------------------------------------------------------------------------------------ control

#[derive(Default)]
struct Ctl {
    events: Vec<Value>,
    script: VecDeque<(String, u64)>, // (outcome, junk)
    write_fail: Option<u64>,
    remote: u64,
    activity: u64,
    stop: Option<Arc<dyn Fn() + Send + Sync>>,
}
type Shared = Arc<Mutex<Ctl>>;

fn push(ctl: &Shared, ev: Value) {
    let mut c = ctl.lock().unwrap();
    c.events.push(ev);
    c.activity += 1;
}

// ------------------------------------------------------------------------------------------ provider

#[derive(Clone)]
struct Scripted {
    inner: MockProvider,
    ctl: Shared,
    gate: Arc<tokio::sync::Semaphore>,
    contract: Address,
}

fn junk_log(contract: Address, h: u64, i: u64) -> Log {
    Log {
        inner: alloy_primitives::Log {
            address: contract,
            data: LogData::new_unchecked(vec![B256::repeat_byte(0xAB)], Bytes::new()),
        },
        block_hash: None,
        block_number: Some(h),
        block_timestamp: None,
        transaction_hash: None,
        transaction_index: None,
        log_index: Some(1000 + i),
        removed: false,
    }
}

#[async_trait]
impl Provider for Scripted {
    fn root(&self) -> &RootProvider<Ethereum> {
        unreachable!()
    }

    fn get_block(
        &self,
        block: BlockId,
    ) -> EthGetBlock<<Ethereum as alloy_provider::Network>::BlockResponse> {
        let this = self.clone();
        EthGetBlock::new_provider(
            block,
            Box::new(move |_| {
                let this = this.clone();
                ProviderCall::BoxedFuture(Box::pin(async move {
                    // one sync attempt per permit: the harness decides when an attempt starts
                    let permit = this.gate.acquire().await.expect("gate closed");
                    permit.forget();
                    let remote = this.ctl.lock().unwrap().remote;
                    this.inner.update_data(|d| d.best_block.header.number = remote);
                    push(&this.ctl, json!({"ev": "BeginSync", "remote": remote}));
                    this.inner.get_block(block).await
                }))
            }),
        )
    }

    async fn get_logs(&self, filter: &Filter) -> TransportResult<Vec<Log>> {
        let lo = filter.get_from_block().unwrap_or(u64::MAX);
        let hi = filter.get_to_block().unwrap_or(u64::MAX);
        let (out, junk) = {
            let mut c = self.ctl.lock().unwrap();
            c.activity += 1;
            c.script.pop_front().unwrap_or(("ok".to_string(), 0))
        };
        match out.as_str() {
            "cancel" => {
                // the stop signal arrives while the call is in flight
                push(&self.ctl, json!({"ev": "Rpc", "lo": lo, "hi": hi, "out": "cancel", "junk": 0, "n": 0}));
                let stop = self.ctl.lock().unwrap().stop.clone();
                if let Some(stop) = stop {
                    stop();
                }
                self.inner.get_logs(filter).await
            }
            "resp" | "transport" => {
                push(&self.ctl, json!({"ev": "Rpc", "lo": lo, "hi": hi, "out": out, "junk": 0, "n": 0}));
                tokio::task::yield_now().await;
                if out == "resp" {
                    Err(TransportError::ErrorResp(alloy_json_rpc::ErrorPayload {
                        code: -32005,
                        message: "query returned more than 10000 results".into(),
                        data: None,
                    }))
                } else {
                    Err(TransportErrorKind::custom_str("scripted transport failure"))
                }
            }
            _ => {
                let mut logs = self.inner.get_logs(filter).await?;
                let junk = if out == "many" { junk } else { 0 };
                for i in 0..junk {
                    logs.push(junk_log(self.contract, lo, i));
                }
                let out = if out == "many" { "many" } else { "ok" };
                push(
                    &self.ctl,
                    json!({"ev": "Rpc", "lo": lo, "hi": hi, "out": out, "junk": junk, "n": logs.len()}),
                );
                Ok(logs)
            }
        }
    }

    fn syncing(&self) -> ProviderCall<NoParams, SyncStatus> {
        self.inner.syncing()
    }
}

// ------------------------------------------------------------------------------------------ database

/// In-memory relayer database: the real `EventsHistory` table over fuel-core-storage's in-memory
/// key-value store, reached by the relayer through its own `Transactional` port (so the blanket
/// `RelayerDb::insert_events` of storage.rs runs).  Commits are logged; a scripted commit fails.
#[derive(Clone)]
struct Db {
    store: Arc<Mutex<InMemoryStorage<Column>>>,
    ctl: Shared,
}

impl KeyValueInspect for Db {
    type Column = Column;
    fn get(&self, key: &[u8], column: Self::Column) -> StorageResult<Option<KvValue>> {
        self.store.lock().unwrap().get(key, column)
    }
}

fn history_heights(changes: &Changes) -> Vec<u64> {
    let mut hs = Vec::new();
    if let Some(col) = changes.get(&Column::History.id()) {
        for (k, _) in col.iter() {
            let b: &[u8] = k.as_ref();
            if b.len() == 8 {
                hs.push(u64::from_be_bytes(b.try_into().unwrap()));
            }
        }
    }
    hs
}

fn project_events(h: u64, evs: &[Event]) -> Vec<i64> {
    evs.iter()
        .map(|e| {
            let nonce = match e {
                Event::Message(m) => *m.nonce(),
                Event::Transaction(t) => t.nonce(),
            };
            let b: [u8; 32] = nonce.into();
            let id = u64::from_be_bytes(b[24..32].try_into().unwrap()) as i64;
            // an event filed under a foreign height is made visible
            if *e.da_height() == h { id } else { -id - 1 }
        })
        .collect()
}

impl Db {
    fn events_at(&self, h: u64) -> Option<Vec<i64>> {
        let tx = self.read_transaction();
        let v = tx
            .storage_as_ref::<EventsHistory>()
            .get(&DaBlockHeight(h))
            .unwrap_or_else(|e| die(&format!("db read: {e:?}")));
        v.map(|evs| project_events(h, &evs))
    }
    fn latest(&self) -> Option<u64> {
        let s = self.store.lock().unwrap();
        InMemoryStorage::<Column>::storage(&s)
            .keys()
            .filter(|(c, k)| *c == Column::History.id() && k.len() == 8)
            .map(|(_, k)| u64::from_be_bytes(k.as_slice().try_into().unwrap()))
            .max()
    }
}

impl Modifiable for Db {
    fn commit_changes(&mut self, changes: Changes) -> StorageResult<()> {
        let hs = history_heights(&changes);
        let fail = {
            let mut c = self.ctl.lock().unwrap();
            match c.write_fail {
                Some(f) if hs.contains(&f) => {
                    c.write_fail = None;
                    true
                }
                _ => false,
            }
        };
        if fail {
            for h in &hs {
                push(&self.ctl, json!({"ev": "Write", "h": h, "ids": [], "res": "fail"}));
            }
            return Err(StorageError::Other(anyhow::anyhow!("scripted storage failure")));
        }
        self.store.lock().unwrap().commit_changes(changes)?;
        for h in hs {
            let ids = self.events_at(h).unwrap_or_default();
            push(&self.ctl, json!({"ev": "Write", "h": h, "ids": ids, "res": "ok"}));
        }
        Ok(())
    }
}

impl Transactional for Db {
    type Transaction<'a>
        = StorageTransaction<&'a mut Db>
    where
        Self: 'a;

    fn transaction(&mut self) -> Self::Transaction<'_> {
        self.write_transaction()
    }

    fn latest_da_height(&self) -> Option<DaBlockHeight> {
        self.latest().map(DaBlockHeight)
    }
}

// ------------------------------------------------------------------------------------------ DA logs

fn da_log(contract: Address, h: u64, idx: u64, id: u64, k: &str) -> Log {
    let data = match k {
        "m" => MessageSent {
            sender: Default::default(),
            recipient: Default::default(),
            nonce: U256::from(id),
            amount: id,
            data: Default::default(),
        }
        .to_log_data(),
        "t" => Transaction {
            nonce: U256::from(id),
            max_gas: 10 + id,
            canonically_serialized_tx: Default::default(),
        }
        .to_log_data(),
        _ => LogData::new_unchecked(vec![B256::repeat_byte(0xCD)], Bytes::new()),
    };
    Log {
        inner: alloy_primitives::Log { address: contract, data },
        block_hash: None,
        block_number: Some(h),
        block_timestamp: None,
        transaction_hash: None,
        transaction_index: None,
        log_index: Some(idx),
        removed: false,
    }
}

fn da_to_logs(contract: Address, da: &Value) -> Vec<Log> {
    let mut out = Vec::new();
    for per_h in da.as_array().unwrap_or_else(|| die("da is not an array")) {
        for l in per_h.as_array().unwrap_or_else(|| die("da[h] is not an array")) {
            let g = |k: &str| l[k].as_u64().unwrap_or_else(|| die(&format!("log field {k}")));
            out.push(da_log(contract, g("h"), g("idx"), g("id"), l["k"].as_str().unwrap_or("i")));
        }
    }
    out
}

// ------------------------------------------------------------------------------------------ world

type Runner = Arc<dyn Service + Send + Sync>;

struct World {
    ctl: Shared,
    provider: Scripted,
    db: Db,
    config: Config,
    retry: bool,
    service: Runner,
    shared: fuel_core_relayer::SharedState,
}

const MIN_DURATION: Duration = Duration::from_secs(1);

fn make_service(provider: &Scripted, db: &Db, config: &Config, retry: bool) -> (Runner, fuel_core_relayer::SharedState) {
    if retry {
        let s = fuel_core_relayer::verif::new_service_retrying(provider.clone(), db.clone(), config.clone());
        let shared = s.shared.clone();
        (Arc::new(s), shared)
    } else {
        let s = fuel_core_relayer::new_service_test(provider.clone(), db.clone(), config.clone());
        let shared = s.shared.clone();
        (Arc::new(s), shared)
    }
}

/// Let every task run until nothing but timers (and the sync gate) is pending.
async fn settle(ctl: &Shared) {
    let mut quiet = 0;
    let mut last = ctl.lock().unwrap().activity;
    let mut total = 0u64;
    while quiet < 64 {
        tokio::task::yield_now().await;
        let now = ctl.lock().unwrap().activity;
        if now != last {
            last = now;
            quiet = 0;
        } else {
            quiet += 1;
        }
        total += 1;
        if total > 2_000_000 {
            die("relayer does not become quiescent");
        }
    }
}

fn flush(ctl: &Shared, t: &mut Trace) {
    let evs: Vec<Value> = std::mem::take(&mut ctl.lock().unwrap().events);
    for e in evs {
        let name = e["ev"].as_str().unwrap().to_string();
        let mut m = e.as_object().unwrap().clone();
        m.remove("ev");
        t.event(&name, Value::Object(m));
    }
}

impl World {
    async fn new(step: &Map<String, Value>, t: &mut Trace) -> World {
        let (deploy, psize, maxlogs, retry) =
            (step.int("deploy") as u64, step.int("psize") as u64, step.int("maxlogs") as u64, step.boolean("retry"));
        let da = step.get("da").cloned().unwrap_or_else(|| die("New without da"));
        let config = Config {
            da_deploy_height: DaBlockHeight(deploy),
            log_page_size: psize,
            max_logs_per_rpc: maxlogs,
            sync_minimum_duration: MIN_DURATION,
            ..Default::default()
        };
        let contract = config.eth_v2_listening_contracts[0];
        let ctl: Shared = Arc::new(Mutex::new(Ctl::default()));
        let inner = MockProvider::default();
        let logs = da_to_logs(contract, &da);
        inner.update_data(|d| {
            d.logs_batch = vec![logs];
            d.best_block.header.number = 0;
        });
        let provider = Scripted { inner, ctl: ctl.clone(), gate: Arc::new(tokio::sync::Semaphore::new(0)), contract };
        let db = Db { store: Arc::new(Mutex::new(InMemoryStorage::default())), ctl: ctl.clone() };
        let (service, shared) = make_service(&provider, &db, &config, retry);
        let mut w = World { ctl, provider, db, config, retry, service, shared };
        let h = w.shared.get_finalized_da_height().0;
        t.event(
            "New",
            json!({"deploy": deploy, "psize": psize, "maxlogs": maxlogs, "retry": retry, "da": da, "h": h}),
        );
        w.start().await;
        w
    }

    async fn start(&mut self) {
        let svc = self.service.clone();
        self.ctl.lock().unwrap().stop = Some(Arc::new(move || {
            svc.stop();
        }));
        self.service.start_and_await().await.unwrap_or_else(|e| die(&format!("start: {e}")));
        settle(&self.ctl).await;
    }

    fn alive(&self) -> bool {
        matches!(self.service.state(), State::Started)
    }

    /// One synchronization attempt: release the gate, run to quiescence, let the post-attempt sleep
    /// elapse (the task then either dies or waits at the gate again), observe the shared state.
    async fn sync(&mut self, remote: u64, script: Vec<(String, u64)>, write_fail: Option<u64>, t: &mut Trace) {
        if !self.alive() {
            // nothing can happen: no events
            return;
        }
        {
            let mut c = self.ctl.lock().unwrap();
            c.remote = remote;
            c.script = script.into();
            c.write_fail = write_fail;
        }
        self.provider.gate.add_permits(1);
        settle(&self.ctl).await;
        tokio::time::advance(MIN_DURATION * 2).await;
        settle(&self.ctl).await;
        flush(&self.ctl, t);
        let h = self.shared.get_finalized_da_height().0;
        let full = self.shared.await_synced().now_or_never().map(|r| r.is_ok()).unwrap_or(false);
        t.event("EndSync", json!({"h": h, "full": full, "alive": self.alive()}));
        let mut c = self.ctl.lock().unwrap();
        c.script.clear();
        c.write_fail = None;
    }

    async fn restart(&mut self, t: &mut Trace) {
        if self.alive() {
            let _ = self.service.stop_and_await().await;
        }
        settle(&self.ctl).await;
        flush(&self.ctl, t);
        // a fresh gate: a task of the old service may have died while holding nothing, but a stale
        // waiter must never consume the next permit
        self.provider.gate = Arc::new(tokio::sync::Semaphore::new(0));
        let (service, shared) = make_service(&self.provider, &self.db, &self.config, self.retry);
        self.service = service;
        self.shared = shared;
        let h = self.shared.get_finalized_da_height().0;
        t.event("Restart", json!({"h": h}));
        self.start().await;
    }
}

async fn run_walk(w: &Walk, t: &mut Trace) {
    t.reset(w.id, json!({}));
    let mut world: Option<World> = None;
    let mut i = 0;
    let steps = &w.steps;
    while i < steps.len() {
        let s = &steps[i];
        match s.name() {
            "New" => {
                world = Some(World::new(s, t).await);
                i += 1;
            }
            "BeginSync" => {
                let remote = s.int("remote") as u64;
                let mut script = Vec::new();
                let mut write_fail = None;
                i += 1;
                while i < steps.len() {
                    let q = &steps[i];
                    match q.name() {
                        "RpcOk" => script.push(("ok".to_string(), 0)),
                        "RpcTooMany" => script.push(("many".to_string(), q.int("junk") as u64)),
                        "RpcErr" => script.push((q.str_("kind").to_string(), 0)),
                        "RpcCancel" => script.push(("cancel".to_string(), 0)),
                        "WriteHeight" => {}
                        "WriteFail" => write_fail = Some(q.int("h") as u64),
                        "EndSync" => {
                            i += 1;
                            break;
                        }
                        _ => break,
                    }
                    i += 1;
                }
                let wd = world.as_mut().unwrap_or_else(|| die("BeginSync before New"));
                wd.sync(remote, script, write_fail, t).await;
            }
            "Restart" => {
                let wd = world.as_mut().unwrap_or_else(|| die("Restart before New"));
                let only_if_dead = s.get("ifdead").and_then(|v| v.as_bool()).unwrap_or(false);
                if !(only_if_dead && wd.alive()) {
                    wd.restart(t).await;
                }
                i += 1;
            }
            // steps of an attempt that has no BeginSync in this walk (cannot happen from Init)
            other => die(&format!("unexpected step {other} at {i}")),
        }
    }
    if let Some(wd) = world {
        if wd.alive() {
            let _ = wd.service.stop_and_await().await;
        }
    }
}

fn runtime() -> tokio::runtime::Runtime {
    tokio::runtime::Builder::new_current_thread()
        .enable_time()
        .start_paused(true)
        .build()
        .unwrap()
}

pub fn run_walks(args: &Args) {
    let walks = read_walks(args.req("walks"));
    let mut t = Trace::create(args.req("out"));
    for w in &walks {
        // a fresh runtime per walk: no task or timer of an earlier walk survives
        let rt = runtime();
        rt.block_on(run_walk(w, &mut t));
    }
    t.finish();
}

// ------------------------------------------------------------------------------------------ random driver

fn gen_da(rng: &mut Rng, max_h: u64, dense: bool) -> Value {
    let mut da = Vec::new();
    for h in 1..=max_h {
        let n = if dense { rng.below(4) } else if rng.chance(1, 3) { rng.below(3) } else { 0 };
        // distinct, shuffled log indexes
        let mut idxs: Vec<u64> = (0..n + 2).collect();
        for i in (1..idxs.len()).rev() {
            let j = rng.below(i as u64 + 1) as usize;
            idxs.swap(i, j);
        }
        let mut logs = Vec::new();
        for j in 0..n {
            let k = *rng.pick(&["m", "m", "t", "t", "i"]);
            logs.push(json!({"h": h, "idx": idxs[j as usize], "id": h * 10 + j, "k": k}));
        }
        da.push(Value::Array(logs));
    }
    Value::Array(da)
}

fn step(name: &str, fields: Value) -> Map<String, Value> {
    let mut m = Map::new();
    m.insert("a".into(), Value::String(name.into()));
    if let Value::Object(f) = fields {
        for (k, v) in f {
            m.insert(k, v);
        }
    }
    m
}

fn gen_walk(rng: &mut Rng, id: i64) -> Walk {
    let max_h = rng.range(3, 9) as u64;
    let maxlogs = *rng.pick(&[2u64, 4, 100]);
    let psize = if rng.chance(1, 8) { rng.range(6, 12) } else { rng.range(1, 5) } as u64;
    let deploy = rng.range(0, 3) as u64;
    let retry = rng.chance(1, 2);
    let dense = rng.chance(2, 3);
    let mut steps = vec![step(
        "New",
        json!({"deploy": deploy, "psize": psize, "maxlogs": maxlogs, "retry": retry, "da": gen_da(rng, max_h, dense)}),
    )];
    let rounds = rng.range(2, 6);
    let mut remote = 0u64;
    for _ in 0..rounds {
        if rng.chance(1, 7) {
            steps.push(step("Restart", json!({})));
        }
        remote = if rng.chance(1, 8) { rng.range(0, max_h as i64) as u64 } else { rng.range(remote as i64, max_h as i64) as u64 };
        steps.push(step("BeginSync", json!({"remote": remote})));
        let faulty = rng.chance(1, 2);
        for _ in 0..12 {
            let r = rng.below(100);
            let s = if !faulty || r < 62 {
                step("RpcOk", json!({}))
            } else if r < 78 {
                step("RpcTooMany", json!({"junk": maxlogs + 1}))
            } else if r < 88 {
                step("RpcErr", json!({"kind": "resp"}))
            } else if r < 95 {
                step("RpcErr", json!({"kind": "transport"}))
            } else {
                step("RpcCancel", json!({}))
            };
            steps.push(s);
        }
        if faulty && rng.chance(1, 5) {
            steps.push(step("WriteFail", json!({"h": rng.range(1, max_h as i64)})));
        }
        steps.push(step("EndSync", json!({})));
        // a dead task is always replaced (otherwise the rest of the walk is empty)
        steps.push(step("Restart", json!({"ifdead": true})));
    }
    Walk { id, steps }
}

/// A long history that reaches the sizer's growth (grow_threshold = 50 successful calls after a
/// shrink): page size 4, shrunk to 2 (or 1) by early faults, then > 100 successful pages.
fn gen_long_walk(rng: &mut Rng, id: i64) -> Walk {
    let max_h = rng.range(125, 140) as u64;
    let maxlogs = 4u64;
    let psize = rng.range(3, 5) as u64;
    let retry = true;
    let mut steps = vec![step(
        "New",
        json!({"deploy": rng.range(0, 2), "psize": psize, "maxlogs": maxlogs, "retry": retry, "da": gen_da(rng, max_h, false)}),
    )];
    steps.push(step("BeginSync", json!({"remote": max_h - 3})));
    match rng.below(3) {
        0 => steps.push(step("RpcTooMany", json!({"junk": maxlogs + 1}))),
        1 => {
            steps.push(step("RpcOk", json!({})));
            steps.push(step("RpcErr", json!({"kind": "resp"})));
            steps.push(step("EndSync", json!({})));
            steps.push(step("BeginSync", json!({"remote": max_h - 3})));
        }
        _ => {
            steps.push(step("RpcTooMany", json!({"junk": maxlogs + 1})));
            steps.push(step("RpcTooMany", json!({"junk": maxlogs + 1})));
        }
    }
    steps.push(step("EndSync", json!({})));
    steps.push(step("BeginSync", json!({"remote": max_h})));
    steps.push(step("EndSync", json!({})));
    Walk { id, steps }
}

pub fn random(args: &Args) {
    let n = args.num("walks", 100);
    let long = args.num("long", 1);
    let mut rng = Rng::new(env_seed() ^ 0xC29);
    let mut t = Trace::create(args.req("out"));
    for id in 0..n + long {
        let w = if id < n { gen_walk(&mut rng, id as i64) } else { gen_long_walk(&mut rng, id as i64) };
        let rt = runtime();
        rt.block_on(run_walk(&w, &mut t));
    }
    t.finish();
}
