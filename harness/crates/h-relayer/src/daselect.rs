//! C30: the producer's DA height selection, run through the real
//! `Producer::produce_and_execute_block_transactions` with logging ports.  One case = one `Call`
//! event (parameters), one `Step` event per `get_cost_and_transactions_number_for_block` call of the
//! real loop, one `Finish` event (the produced header's da_height or the error).
//!
//! Value map: the producer's transaction-count limit is the constant `u16::MAX - 1`; an abstract
//! count `t` under an abstract limit `tl` is served as `t * (65534 / tl)`, so that
//! `sum(t) <= tl  <=>  sum(t) * unit <= 65534` (exact for tl = 1, 2; unit * (tl + 1) > 65534 always).
use fuel_core_producer::{
    Config,
    Producer,
    block_producer::gas_price::{
        ChainStateInfoProvider,
        GasPriceProvider,
    },
    mocks::{
        MockDb,
        MockExecutorWithCapture,
        MockTxPool,
    },
    ports::{
        Relayer,
        RelayerBlockInfo,
    },
};
use fuel_core_types::{
    blockchain::{
        block::PartialFuelBlock,
        header::{
            ConsensusParametersVersion,
            PartialBlockHeader,
        },
        primitives::DaBlockHeight,
    },
    fuel_tx::ConsensusParameters,
    fuel_types::{
        BlockHeight,
        ChainId,
    },
    tai64::Tai64,
};
use h_common::*;
use serde_json::Value;
use std::{
    collections::HashMap,
    sync::{
        Arc,
        Mutex,
    },
};

const TX_LIMIT: u64 = (u16::MAX - 1) as u64;

struct LogRelayer {
    fin: u64,
    table: HashMap<u64, (u64, u64)>,
    unit: u64,
    ev: Arc<Mutex<Vec<Value>>>,
}

#[async_trait::async_trait]
impl Relayer for LogRelayer {
    async fn wait_for_at_least_height(&self, _height: &DaBlockHeight) -> anyhow::Result<DaBlockHeight> {
        Ok(DaBlockHeight(self.fin))
    }

    async fn get_cost_and_transactions_number_for_block(
        &self,
        height: &DaBlockHeight,
    ) -> anyhow::Result<RelayerBlockInfo> {
        let (c, t) = self.table.get(&height.0).cloned().unwrap_or_default();
        self.ev.lock().unwrap().push(json!({"ev": "Step", "h": height.0, "c": c, "t": t}));
        Ok(RelayerBlockInfo { gas_cost: c, tx_count: t.saturating_mul(self.unit) })
    }
}

struct Params(Arc<ConsensusParameters>);
impl ChainStateInfoProvider for Params {
    fn consensus_params_at_version(
        &self,
        _: &ConsensusParametersVersion,
    ) -> anyhow::Result<Arc<ConsensusParameters>> {
        Ok(self.0.clone())
    }
}

struct ZeroPrice;
impl GasPriceProvider for ZeroPrice {
    fn production_gas_price(&self) -> anyhow::Result<u64> {
        Ok(0)
    }
    fn dry_run_gas_price(&self) -> anyhow::Result<u64> {
        Ok(0)
    }
}

fn prev_block_db(prev: u64) -> MockDb {
    let mut header = PartialBlockHeader::default();
    header.application.da_height = DaBlockHeight(prev);
    header.consensus.height = BlockHeight::new(0);
    header.consensus.time = Tai64::UNIX_EPOCH;
    let block = PartialFuelBlock::new(header, vec![])
        .generate(&[], Default::default())
        .unwrap_or_else(|e| die(&format!("generate: {e:?}")))
        .compress(&ChainId::default());
    MockDb {
        blocks: Arc::new(Mutex::new(HashMap::from_iter(Some((BlockHeight::new(0), block))))),
        consensus_parameters_version: 0,
        state_transition_bytecode_version: 0,
    }
}

/// One case on the real producer.  `prof[i]` = (cost, tx count) of DA block prev + 1 + i.
fn one_case(rt: &tokio::runtime::Runtime, t: &mut Trace, prev: u64, fin: u64, gl: u64, tl: u64, prof: &[(u64, u64)]) {
    let unit = TX_LIMIT / tl.max(1);
    let ev = Arc::new(Mutex::new(Vec::new()));
    let table: HashMap<u64, (u64, u64)> =
        prof.iter().enumerate().map(|(i, p)| (prev + 1 + i as u64, *p)).collect();
    let mut params = ConsensusParameters::default();
    params.set_block_gas_limit(gl);
    let executor = MockExecutorWithCapture::default();
    let producer = Producer {
        config: Config::default(),
        view_provider: prev_block_db(prev),
        txpool: MockTxPool::default(),
        executor: Arc::new(executor),
        relayer: Box::new(LogRelayer { fin, table, unit, ev: ev.clone() }),
        lock: Default::default(),
        gas_price_provider: ZeroPrice,
        chain_state_info_provider: Params(Arc::new(params)),
    };
    let profj: Vec<Value> = prof.iter().map(|(c, x)| json!([c, x])).collect();
    t.event("Call", json!({"prev": prev, "fin": fin, "gl": gl, "tl": tl, "unit": unit, "prof": profj}));
    let r = guarded(|| {
        rt.block_on(producer.produce_and_execute_block_transactions(BlockHeight::new(1), Tai64::UNIX_EPOCH, vec![]))
    });
    for e in std::mem::take(&mut *ev.lock().unwrap()) {
        let mut m = e.as_object().unwrap().clone();
        m.remove("ev");
        t.event("Step", Value::Object(m));
    }
    let (res, da) = match r {
        Ok(Ok(res)) => ("Ok".to_string(), res.result().block.header().da_height().0 as i64),
        Ok(Err(e)) => {
            let s = e.to_string();
            let k = if s.contains("is behind previous block da_height") {
                "Err:Behind".to_string()
            } else if s.contains(fuel_core_producer::block_producer::NO_NEW_DA_HEIGHT_FOUND) {
                "Err:NoNew".to_string()
            } else {
                format!("Err:Other:{s}")
            };
            (k, -1)
        }
        Err(p) => (format!("Panic:{p}"), -1),
    };
    t.event("Finish", json!({"res": res, "da": da}));
}

fn list(args: &Args, k: &str, default: &str) -> Vec<u64> {
    args.get(k)
        .unwrap_or(default)
        .split(',')
        .filter(|s| !s.is_empty())
        .map(|s| s.parse().unwrap_or_else(|_| die(&format!("--{k}: bad number"))))
        .collect()
}

fn runtime() -> tokio::runtime::Runtime {
    tokio::runtime::Builder::new_current_thread().enable_time().build().unwrap()
}

/// Exhaustive domain: prev x gas limit x tx limit x (finalized behind | n = 0..maxn blocks ahead with
/// every (cost, tx) profile over costs 0..=maxc, tx counts 0..=maxt).
pub fn enumerate(args: &Args) {
    let maxn = args.num("maxn", 3);
    let (maxc, maxt) = (args.num("maxc", 3), args.num("maxt", 2));
    let prevs = list(args, "prevs", "0,2");
    let gls = list(args, "gls", "2,4");
    let tls = list(args, "tls", "2,3");
    let (part, parts) = (args.num("part", 0), args.num("parts", 1));
    let rt = runtime();
    let mut t = Trace::create(args.req("out"));
    t.reset(part as i64, json!({}));
    let base = (maxc + 1) * (maxt + 1);
    let mut idx = 0u64;
    for &prev in &prevs {
        for &gl in &gls {
            for &tl in &tls {
                for fin in 0..prev {
                    idx += 1;
                    if idx % parts == part {
                        one_case(&rt, &mut t, prev, fin, gl, tl, &[]);
                    }
                }
                for n in 0..=maxn {
                    let total = base.pow(n as u32);
                    for code in 0..total {
                        idx += 1;
                        if idx % parts != part {
                            continue;
                        }
                        let mut c = code;
                        let mut prof = Vec::new();
                        for _ in 0..n {
                            let d = c % base;
                            c /= base;
                            prof.push((d / (maxt + 1), d % (maxt + 1)));
                        }
                        one_case(&rt, &mut t, prev, prev + n, gl, tl, &prof);
                    }
                }
            }
        }
    }
    t.finish();
}

/// Seeded sampling outside the exhaustive domain (longer DA ranges, larger values, relayer tables that
/// also know blocks outside (prev, fin]).
pub fn random(args: &Args) {
    let n = args.num("cases", 500);
    let mut rng = Rng::new(env_seed() ^ 0xC30);
    let rt = runtime();
    let mut t = Trace::create(args.req("out"));
    t.reset(0, json!({}));
    for _ in 0..n {
        let prev = rng.range(0, 5) as u64;
        let fin = (prev as i64 + rng.range(-2, 8)).max(0) as u64;
        let gl = rng.range(0, 20) as u64;
        let tl = rng.range(1, 5) as u64;
        let len = if fin > prev { fin - prev } else { 0 };
        let sparse = rng.chance(1, 2);
        let prof: Vec<(u64, u64)> = (0..len)
            .map(|_| {
                if sparse && rng.chance(1, 2) { (0, 0) } else { (rng.range(0, 9) as u64, rng.range(0, 4) as u64) }
            })
            .collect();
        one_case(&rt, &mut t, prev, fin, gl, tl, &prof);
    }
    t.finish();
}
