//! Harness for fuel-core-tx-status-manager: C22 / C23 (status streams and cache) and C44
//! (preconfirmation gossip).  Action interpreter + state projector + logger only: nothing here judges a
//! property, TLC does (specs/TxStatusStream.tla, TxStatus.tla, Delegation.tla and their Trace_ modules).
//!
//! modes
//!   stream        --walks W --out T            B1: the private per-subscriber automaton `TxUpdateStream`
//!   stream-random --walks N --len L --out T    seeded random call sequences on the same object
//!   mgr           --walks W --out T --cap C --subttl S --cachettl K --ntx N
//!   mgr-random    --walks N --len L --out T  (same parameters)   the real TxStatusManager + UpdateSender
//!   deleg         --walks W --out T --ntx N    the real service (`new_service`) fed through a fake P2P port
//!   deleg-random  --walks N --len L --sleepers S --out T --ntx N
use fuel_core_services::{Service, stream::BoxStream};
use fuel_core_tx_status_manager::{
    TxStatusMessage, TxStatusStream,
    config::Config,
    new_service,
    ports::{P2PPreConfirmationGossipData, P2PPreConfirmationMessage, P2PSubscriptions},
    service::ProtocolPublicKey,
    verif::{Manager, TxUpdateStream},
};
use fuel_core_types::{
    ed25519_dalek::{Signer, SigningKey as DalekSigningKey},
    fuel_crypto::{Message, SecretKey, Signature},
    fuel_tx::{Address, Bytes32, Bytes64, Input, TxId},
    services::{
        p2p::{
            DelegatePreConfirmationKey, GossipData, GossipsubMessageAcceptance, GossipsubMessageInfo, PeerId,
            Sealed,
        },
        preconfirmation::{Preconfirmation, PreconfirmationStatus, Preconfirmations, SqueezedOut},
        transaction_status::{PreConfirmationStatus, TransactionStatus, statuses},
    },
    tai64::Tai64,
};
use futures::{FutureExt, StreamExt};
use h_common::*;
use serde_json::{Map, Value};
use std::{
    sync::{Arc, Mutex},
    time::Duration,
};
use tokio::sync::mpsc;
use tokio_stream::wrappers::ReceiverStream;

// ------------------------------------------------------------------------------------------------
// abstract status values  [k |-> kind, n |-> serial]  <->  real TransactionStatus
// kinds: Sub Succ PSucc Sq PSq Fail PFail ; "FS" is the FailedStatus message ; "none" = absent

const KINDS: [&str; 7] = ["Sub", "PSucc", "PFail", "Succ", "Fail", "Sq", "PSq"];

fn mk_status(k: &str, n: u64) -> TransactionStatus {
    match k {
        "Sub" => TransactionStatus::Submitted(Arc::new(statuses::Submitted { timestamp: Tai64(n) })),
        "Succ" => TransactionStatus::Success(Arc::new(statuses::Success { total_fee: n, ..Default::default() })),
        "PSucc" => TransactionStatus::PreConfirmationSuccess(Arc::new(statuses::PreConfirmationSuccess {
            total_fee: n,
            ..Default::default()
        })),
        "Sq" => TransactionStatus::squeezed_out(n.to_string(), TxId::zeroed()),
        "PSq" => TransactionStatus::preconfirmation_squeezed_out(n.to_string()),
        "Fail" => TransactionStatus::Failure(Arc::new(statuses::Failure { total_fee: n, ..Default::default() })),
        "PFail" => TransactionStatus::PreConfirmationFailure(Arc::new(statuses::PreConfirmationFailure {
            total_fee: n,
            ..Default::default()
        })),
        other => die(&format!("unknown status kind {other}")),
    }
}

fn lead_num(s: &str) -> i64 {
    s.split_whitespace().next().and_then(|x| x.parse().ok()).unwrap_or(-1)
}

fn kn(st: &TransactionStatus) -> Value {
    let (k, n): (&str, i64) = match st {
        TransactionStatus::Submitted(s) => ("Sub", s.timestamp.0 as i64),
        TransactionStatus::Success(s) => ("Succ", s.total_fee as i64),
        TransactionStatus::PreConfirmationSuccess(s) => ("PSucc", s.total_fee as i64),
        TransactionStatus::SqueezedOut(s) => ("Sq", lead_num(s.reason())),
        TransactionStatus::PreConfirmationSqueezedOut(s) => ("PSq", lead_num(&s.reason)),
        TransactionStatus::Failure(s) => ("Fail", s.total_fee as i64),
        TransactionStatus::PreConfirmationFailure(s) => ("PFail", s.total_fee as i64),
    };
    json!({"k": k, "n": n})
}

fn kn_opt(st: Option<&TransactionStatus>) -> Value {
    match st {
        Some(s) => kn(s),
        None => json!({"k": "none", "n": 0}),
    }
}

fn kn_msg(m: &TxStatusMessage) -> Value {
    match m {
        TxStatusMessage::Status(s) => kn(s),
        TxStatusMessage::FailedStatus => json!({"k": "FS", "n": 0}),
    }
}

fn mk_msg(k: &str, n: u64) -> TxStatusMessage {
    if k == "FS" { TxStatusMessage::FailedStatus } else { TxStatusMessage::Status(mk_status(k, n)) }
}

fn txid(i: i64) -> Bytes32 {
    Bytes32::from([i as u8; 32])
}

// ------------------------------------------------------------------------------------------------
// B1 / random: TxUpdateStream alone

fn stream_proj(s: &TxUpdateStream) -> Value {
    let (name, held) = s.verif_state();
    json!({"s": name, "h": held.iter().map(kn).collect::<Vec<_>>()})
}

fn stream_step(t: &mut Trace, x: &mut TxUpdateStream, s: &Map<String, Value>) {
    match s.name() {
        "AddMsg" => {
            let (k, n) = (s.str_("k").to_string(), s.int("n"));
            let r = guarded(|| x.add_msg(mk_msg(&k, n as u64)));
            t.event("AddMsg", json!({"k": k, "n": n, "res": res_unit(&r), "st": stream_proj(x), "closed": x.is_closed()}));
        }
        "AddFailure" => {
            let r = guarded(|| x.add_failure());
            t.event("AddFailure", json!({"res": res_unit(&r), "st": stream_proj(x), "closed": x.is_closed()}));
        }
        "CloseRecv" => {
            let r = guarded(|| x.close_recv());
            t.event("CloseRecv", json!({"res": res_unit(&r), "st": stream_proj(x), "closed": x.is_closed()}));
        }
        "TryNext" => {
            let r = guarded(|| x.try_next());
            let out = match &r {
                Ok(Some(m)) => kn_msg(m),
                Ok(None) => json!({"k": "none", "n": 0}),
                Err(p) => json!({"k": format!("panic: {p}"), "n": 0}),
            };
            t.event("TryNext", json!({"out": out, "st": stream_proj(x), "closed": x.is_closed()}));
        }
        other => die(&format!("unknown stream action {other}")),
    }
}

fn res_unit(r: &Result<(), String>) -> String {
    match r {
        Ok(()) => "ok".into(),
        Err(p) => format!("panic: {p}"),
    }
}

fn stream(args: &Args) {
    let walks = read_walks(args.req("walks"));
    let mut t = Trace::create(args.req("out"));
    for w in walks {
        t.reset(w.id, json!({}));
        let mut x = TxUpdateStream::new();
        for s in &w.steps {
            stream_step(&mut t, &mut x, s);
        }
    }
    t.finish();
}

fn step(v: Value) -> Map<String, Value> {
    v.as_object().cloned().unwrap()
}

fn stream_random(args: &Args) {
    let n = args.num("walks", 100);
    let len = args.num("len", 12);
    let tags = args.num("tags", 2) as i64;
    let mut rng = Rng::new(env_seed() ^ 0x22aa);
    let mut t = Trace::create(args.req("out"));
    for id in 0..n {
        t.reset(id as i64, json!({}));
        let mut x = TxUpdateStream::new();
        for _ in 0..len {
            let s = match rng.below(10) {
                0..=4 => {
                    let k = if rng.chance(1, 10) { "FS" } else { *rng.pick(&KINDS) };
                    let n = if k == "FS" { 0 } else { rng.range(1, tags) };
                    step(json!({"a": "AddMsg", "k": k, "n": n}))
                }
                5..=7 => step(json!({"a": "TryNext"})),
                8 => step(json!({"a": "AddFailure"})),
                _ => {
                    if rng.chance(1, 4) {
                        step(json!({"a": "CloseRecv"}))
                    } else {
                        step(json!({"a": "TryNext"}))
                    }
                }
            };
            stream_step(&mut t, &mut x, &s);
        }
    }
    t.finish();
}

// ------------------------------------------------------------------------------------------------
// C22 / C23: the real TxStatusManager (with its UpdateSender) on a paused tokio clock

struct MgrParams {
    cap: usize,
    subttl: u64,
    cachettl: u64,
    ntx: i64,
}

impl MgrParams {
    fn from(args: &Args) -> Self {
        MgrParams {
            cap: args.num("cap", 2) as usize,
            subttl: args.num("subttl", 3),
            cachettl: args.num("cachettl", 2),
            ntx: args.num("ntx", 2) as i64,
        }
    }
    fn json(&self) -> Value {
        json!({"cap": self.cap, "subttl": self.subttl, "cachettl": self.cachettl, "ntx": self.ntx})
    }
}

struct MgrWorld {
    m: Manager,
    start: tokio::time::Instant,
    /// receiver ends by subscriber id (1-based); None = dropped
    subs: Vec<Option<TxStatusStream>>,
    /// number of publications per transaction (1-based tx index)
    pubs: Vec<u64>,
    ntx: i64,
}

impl MgrWorld {
    fn new(p: &MgrParams) -> Self {
        MgrWorld {
            m: Manager::new(p.cap, Duration::from_secs(p.subttl), Duration::from_secs(p.cachettl)),
            start: tokio::time::Instant::now(),
            subs: Vec::new(),
            pubs: vec![0; p.ntx as usize + 1],
            ntx: p.ntx,
        }
    }

    fn clock_ms(&self) -> u64 {
        self.start.elapsed().as_millis() as u64
    }

    /// projection: clock (s), status() of every tx, cache collection sizes, senders per tx
    fn proj(&self) -> Value {
        let now_ms = self.clock_ms();
        let cache: Vec<Value> = (1..=self.ntx).map(|i| kn_opt(self.m.status(&txid(i)).as_ref())).collect();
        let sz = self.m.cache_sizes();
        let snd: Vec<Value> = (1..=self.ntx)
            .map(|i| {
                Value::Array(
                    self.m
                        .senders(&txid(i))
                        .iter()
                        .map(|v| {
                            let created_ms = now_ms.saturating_sub(v.age.as_millis() as u64);
                            json!({"s": v.state, "h": v.held.len(), "c": ms_to_s(created_ms)})
                        })
                        .collect(),
                )
            })
            .collect();
        json!({"clock": ms_to_s(now_ms), "cache": cache,
               "sizes": {"q": sz.pruning_queue, "p": sz.prunable, "np": sz.non_prunable},
               "snd": snd, "keys": self.m.sender_keys()})
    }
}

/// whole seconds are logged as integers; anything else (never produced by the drivers) as -1
fn ms_to_s(ms: u64) -> i64 {
    if ms % 1000 == 0 { (ms / 1000) as i64 } else { -1 }
}

fn with_state(mut fields: Value, st: Value) -> Value {
    if let (Value::Object(f), Value::Object(s)) = (&mut fields, st) {
        for (k, v) in s {
            f.insert(k, v);
        }
    }
    fields
}

async fn mgr_step(t: &mut Trace, w: &mut MgrWorld, s: &Map<String, Value>) -> String {
    let mut ret = String::new();
    match s.name() {
        "Publish" => {
            let (tx, k) = (s.int("tx"), s.str_("k").to_string());
            w.pubs[tx as usize] += 1;
            let n = w.pubs[tx as usize];
            let st = mk_status(&k, n);
            let r = guarded(|| w.m.status_update(txid(tx), st));
            t.event("Publish", with_state(json!({"tx": tx, "k": k, "n": n, "res": res_unit(&r)}), w.proj()));
        }
        "Subscribe" => {
            let tx = s.int("tx");
            let r = guarded(|| w.m.tx_update_subscribe(txid(tx)));
            let (res, sub) = match r {
                Ok(Ok(stream)) => {
                    w.subs.push(Some(stream));
                    ("ok".to_string(), w.subs.len() as i64)
                }
                Ok(Err(_)) => ("full".to_string(), 0),
                Err(p) => (format!("panic: {p}"), 0),
            };
            t.event("Subscribe", with_state(json!({"tx": tx, "res": res, "sub": sub}), w.proj()));
        }
        "Read" => {
            let sub = s.int("sub");
            let out = match w.subs.get_mut((sub - 1) as usize) {
                Some(Some(stream)) => match stream.next().now_or_never() {
                    Some(Some(m)) => kn_msg(&m),
                    Some(None) => json!({"k": "End", "n": 0}),
                    None => json!({"k": "Pending", "n": 0}),
                },
                _ => json!({"k": "NoSub", "n": 0}),
            };
            ret = out["k"].as_str().unwrap_or("").to_string();
            t.event("Read", with_state(json!({"sub": sub, "out": out}), w.proj()));
        }
        "DropSub" => {
            let sub = s.int("sub");
            let res = match w.subs.get_mut((sub - 1) as usize) {
                Some(x @ Some(_)) => {
                    *x = None;
                    "ok"
                }
                _ => "NoSub",
            };
            t.event("DropSub", with_state(json!({"sub": sub, "res": res}), w.proj()));
        }
        "Tick" => {
            let d = s.int("d");
            tokio::time::advance(Duration::from_secs(d as u64)).await;
            t.event("Tick", with_state(json!({"d": d}), w.proj()));
        }
        other => die(&format!("unknown manager action {other}")),
    }
    ret
}

fn paused_rt() -> tokio::runtime::Runtime {
    tokio::runtime::Builder::new_current_thread().enable_time().start_paused(true).build().unwrap()
}

fn mgr(args: &Args) {
    let walks = read_walks(args.req("walks"));
    let p = MgrParams::from(args);
    let mut t = Trace::create(args.req("out"));
    let rt = paused_rt();
    rt.block_on(async {
        for w in walks {
            t.reset(w.id, p.json());
            let mut world = MgrWorld::new(&p);
            for s in &w.steps {
                mgr_step(&mut t, &mut world, s).await;
            }
        }
    });
    t.finish();
}

/// Seeded random interleavings of publications, subscriptions, reads, drops and clock advances.
/// Three reader styles are mixed so that the property's corner cases are reached: draining readers
/// (read until Pending before anything else happens), lazy readers (buffers fill up: add_failure path)
/// and dropped receivers.
fn mgr_random(args: &Args) {
    let n = args.num("walks", 100);
    let len = args.num("len", 40);
    let p = MgrParams::from(args);
    let maxsubs = args.num("maxsubs", 6) as i64;
    // profile "cache": mostly publications and clock advances (C23); default: subscriber heavy (C22)
    let cache_profile = args.get("profile") == Some("cache");
    let mut rng = Rng::new(env_seed() ^ 0x7171);
    let mut t = Trace::create(args.req("out"));
    let rt = paused_rt();
    rt.block_on(async {
        for id in 0..n {
            t.reset(id as i64, p.json());
            let mut w = MgrWorld::new(&p);
            let style = if cache_profile { 2 } else { rng.below(3) }; // 0 draining, 1 lazy, 2 mixed
            let resubmit = rng.chance(1, 2);
            let mut i = 0;
            while i < len {
                i += 1;
                let nsubs = w.subs.len() as i64;
                // cumulative weights: publish, subscribe, read, drop, (rest) tick
                let (w_pub, w_sub, w_read, w_drop) = if cache_profile {
                    (55, 60, 64, 65)
                } else if style == 1 {
                    (60, 75, 90, 93)
                } else {
                    (40, 55, 80, 86)
                };
                let c = rng.below(100);
                if c < w_pub {
                    let tx = if style == 1 && rng.chance(3, 4) { 1 } else { rng.range(1, p.ntx) };
                    // life-cycle biased kinds: mostly non-final, sometimes final, sometimes anything
                    let k = match if style == 1 { rng.below(6) } else { rng.below(10) } {
                        0..=2 => "Sub",
                        3..=4 => "PSucc",
                        5 => "PFail",
                        6 => *rng.pick(&["Succ", "Fail", "Sq", "PSq"]),
                        _ => {
                            if resubmit {
                                *rng.pick(&KINDS)
                            } else {
                                *rng.pick(&["Sub", "PSucc", "PFail"])
                            }
                        }
                    };
                    mgr_step(&mut t, &mut w, &step(json!({"a": "Publish", "tx": tx, "k": k}))).await;
                    if style == 0 || (style == 2 && rng.chance(1, 2)) {
                        // drain every open subscriber
                        for sub in 1..=w.subs.len() as i64 {
                            if w.subs[(sub - 1) as usize].is_none() {
                                continue;
                            }
                            for _ in 0..5 {
                                let k = mgr_step(&mut t, &mut w, &step(json!({"a": "Read", "sub": sub}))).await;
                                if k == "Pending" || k == "End" || k == "NoSub" {
                                    break;
                                }
                            }
                        }
                    }
                } else if c < w_sub {
                    if nsubs < maxsubs {
                        let tx = rng.range(1, p.ntx);
                        mgr_step(&mut t, &mut w, &step(json!({"a": "Subscribe", "tx": tx}))).await;
                    }
                } else if c < w_read {
                    if nsubs > 0 {
                        let sub = rng.range(1, nsubs);
                        mgr_step(&mut t, &mut w, &step(json!({"a": "Read", "sub": sub}))).await;
                    }
                } else if c < w_drop {
                    if nsubs > 0 {
                        let sub = rng.range(1, nsubs);
                        mgr_step(&mut t, &mut w, &step(json!({"a": "DropSub", "sub": sub}))).await;
                    }
                } else {
                    let d = if cache_profile { rng.range(1, 3) } else if style == 1 { 1 } else { rng.range(1, 2) };
                    mgr_step(&mut t, &mut w, &step(json!({"a": "Tick", "d": d}))).await;
                }
            }
        }
    });
    t.finish();
}

// ------------------------------------------------------------------------------------------------
// C44: the real service behind a fake P2P port, real keys

type Note = (GossipsubMessageInfo, GossipsubMessageAcceptance);

struct FakeP2P {
    inbound: Mutex<Option<mpsc::Receiver<P2PPreConfirmationGossipData>>>,
    notes: mpsc::UnboundedSender<Note>,
}

impl P2PSubscriptions for FakeP2P {
    type GossipedStatuses = P2PPreConfirmationGossipData;

    fn gossiped_tx_statuses(&self) -> BoxStream<Self::GossipedStatuses> {
        let rx = self.inbound.lock().unwrap().take().unwrap_or_else(|| die("gossip stream taken twice"));
        Box::pin(ReceiverStream::new(rx))
    }

    fn notify_gossip_transaction_validity(
        &self,
        message_info: GossipsubMessageInfo,
        validity: GossipsubMessageAcceptance,
    ) -> anyhow::Result<()> {
        let _ = self.notes.send((message_info, validity));
        Ok(())
    }
}

/// "The current protocol key": rotated by the harness.
#[derive(Clone)]
struct ProtoKey(Arc<Mutex<Address>>);

impl ProtocolPublicKey for ProtoKey {
    fn latest_address(&self) -> Address {
        *self.0.lock().unwrap()
    }
}

fn protocol_secret(i: i64) -> SecretKey {
    // index 0 is an outsider's key, 1 and 2 are the protocol keys
    let mut b = [0u8; 32];
    b[31] = 7 + i as u8;
    b[0] = 1;
    SecretKey::try_from(&b[..]).unwrap_or_else(|_| die("bad secret key"))
}

fn delegate_secret(i: i64) -> DalekSigningKey {
    DalekSigningKey::from_bytes(&[40 + i as u8; 32])
}

fn tai(base: u64, off: i64) -> Tai64 {
    Tai64((base as i64 + off) as u64)
}

fn mk_preconf_status(k: &str, n: u64, tx: TxId) -> PreconfirmationStatus {
    match k {
        "PSucc" => PreconfirmationStatus::Success {
            tx_pointer: Default::default(),
            total_gas: 0,
            total_fee: n,
            receipts: Default::default(),
            outputs: vec![],
        },
        "PFail" => PreconfirmationStatus::Failure {
            tx_pointer: Default::default(),
            total_gas: 0,
            total_fee: n,
            receipts: Default::default(),
            outputs: vec![],
        },
        "PSq" => PreconfirmationStatus::SqueezedOut(SqueezedOut::new(n.to_string(), tx)),
        other => die(&format!("unknown preconfirmation kind {other}")),
    }
}

fn kn_pre(s: &PreConfirmationStatus) -> Value {
    match s {
        PreConfirmationStatus::Success(s) => json!({"k": "PSucc", "n": s.total_fee}),
        PreConfirmationStatus::Failure(s) => json!({"k": "PFail", "n": s.total_fee}),
        PreConfirmationStatus::SqueezedOut(s) => json!({"k": "PSq", "n": lead_num(&s.reason)}),
    }
}

struct DelegWorld {
    inbound: mpsc::Sender<P2PPreConfirmationGossipData>,
    notes: mpsc::UnboundedReceiver<Note>,
    shared: fuel_core_tx_status_manager::SharedData,
    updates: tokio::sync::broadcast::Receiver<(TxId, PreConfirmationStatus)>,
    key: ProtoKey,
    base: u64,
    ev: u64,
    ntx: i64,
    service: Box<dyn Service>,
}

impl DelegWorld {
    async fn new(ntx: i64) -> Self {
        let (inbound, rx) = mpsc::channel(16);
        let (ntx_, notes) = mpsc::unbounded_channel();
        let key = ProtoKey(Arc::new(Mutex::new(Input::owner(&protocol_secret(1).public_key()))));
        let p2p = FakeP2P { inbound: Mutex::new(Some(rx)), notes: ntx_ };
        let config = Config {
            max_tx_update_subscriptions: 64,
            subscription_ttl: Duration::from_secs(1_000_000),
            status_cache_ttl: Duration::from_secs(1_000_000),
            metrics: false,
        };
        let service = new_service(p2p, config, key.clone());
        let shared = service.shared.clone();
        let updates = shared.preconfirmations_update_listener();
        service.start_and_await().await.unwrap_or_else(|e| die(&format!("service start: {e}")));
        DelegWorld {
            inbound,
            notes,
            shared,
            updates,
            key,
            base: Tai64::now().0,
            ev: 0,
            ntx,
            service: Box::new(service),
        }
    }

    fn rel_now(&self) -> i64 {
        Tai64::now().0 as i64 - self.base as i64
    }

    /// send one gossip message, wait for the validity report, collect what changed
    async fn deliver(&mut self, msg: P2PPreConfirmationMessage, mid: u8) -> (i64, i64, String, bool, Value, Value) {
        let message_id = vec![mid, 0xAB];
        let peer_id: PeerId = vec![0x11, mid].into();
        let tb = self.rel_now();
        self.inbound
            .send(GossipData { data: Some(msg), peer_id: peer_id.clone(), message_id: message_id.clone() })
            .await
            .unwrap_or_else(|_| die("service dropped the gossip stream"));
        // paused tokio clock: the timeout fires only once the service task is idle without having reported
        let note = tokio::time::timeout(Duration::from_secs(5), self.notes.recv()).await;
        let t = self.rel_now();
        let (verdict, idok) = match note {
            Ok(Some((info, acc))) => (
                match acc {
                    GossipsubMessageAcceptance::Accept => "Accept",
                    GossipsubMessageAcceptance::Reject => "Reject",
                    GossipsubMessageAcceptance::Ignore => "Ignore",
                }
                .to_string(),
                info.message_id == message_id && info.peer_id == peer_id,
            ),
            _ => ("none".to_string(), true),
        };
        // a second report for the same message would be logged as well
        let extra = self.notes.try_recv().is_ok();
        let verdict = if extra { format!("{verdict}+more") } else { verdict };
        let mut upd = Vec::new();
        while let Ok((tx, s)) = self.updates.try_recv() {
            let mut o = kn_pre(&s);
            o["tx"] = json!(tx[0] as i64);
            upd.push(o);
        }
        let mut st = Vec::new();
        for i in 1..=self.ntx {
            let s = self.shared.get_status(txid(i)).await.unwrap_or(None);
            st.push(kn_opt(s.as_ref()));
        }
        (tb, t, verdict, idok, Value::Array(upd), Value::Array(st))
    }
}

fn flip_sig64(b: &mut [u8; 64]) {
    b[5] ^= 0x5a;
    b[40] ^= 0x01;
}

async fn deleg_step(t: &mut Trace, w: &mut DelegWorld, s: &Map<String, Value>) {
    match s.name() {
        "Delegate" => {
            let (pk, dk, exp, tamper) = (s.int("pk"), s.int("dk"), s.int("exp"), s.str_("tamper").to_string());
            w.ev += 1;
            let mut entity = DelegatePreConfirmationKey {
                public_key: delegate_secret(dk).verifying_key(),
                expiration: tai(w.base, exp),
            };
            let bytes = postcard::to_allocvec(&entity).unwrap();
            let mut signature = Signature::sign(&protocol_secret(pk), &Message::new(&bytes));
            match tamper.as_str() {
                "none" => {}
                // signed (dk, exp) but the sealed entity names another key / another expiration
                "key" => entity.public_key = delegate_secret(dk % 3 + 1).verifying_key(),
                "exp" => entity.expiration = tai(w.base, exp + 1),
                "sig" => {
                    let mut b: [u8; 64] = *signature;
                    flip_sig64(&mut b);
                    signature = Signature::from_bytes(b);
                }
                other => die(&format!("unknown tamper {other}")),
            }
            let msg = P2PPreConfirmationMessage::Delegate { seal: Sealed { entity, signature }, nonce: w.ev };
            let (tb, tt, verdict, idok, upd, st) = w.deliver(msg, w.ev as u8).await;
            t.event("Delegate", json!({"pk": pk, "dk": dk, "exp": exp, "tamper": tamper, "n": w.ev,
                "tb": tb, "t": tt, "verdict": verdict, "idok": idok, "upd": upd, "st": st}));
        }
        "Preconfs" => {
            let (dk, exp, tamper) = (s.int("dk"), s.int("exp"), s.str_("tamper").to_string());
            let txs = s.ints("txs");
            let kinds: Vec<String> = s
                .get("kinds")
                .and_then(|v| v.as_array())
                .map(|a| a.iter().map(|x| x.as_str().unwrap_or("PSucc").to_string()).collect())
                .unwrap_or_default();
            w.ev += 1;
            let n = w.ev;
            let mut list: Vec<Preconfirmation> = txs
                .iter()
                .enumerate()
                .map(|(i, tx)| {
                    let k = kinds.get(i).map(|s| s.as_str()).unwrap_or("PSucc");
                    Preconfirmation { tx_id: txid(*tx), status: mk_preconf_status(k, n, txid(*tx)) }
                })
                .collect();
            // "exp": the delegate signed the batch for another expiration than the one it arrives with
            let signed_exp = if tamper == "exp" { exp + 1 } else { exp };
            let mut entity = Preconfirmations { expiration: tai(w.base, signed_exp), preconfirmations: list.clone() };
            let bytes = postcard::to_allocvec(&entity).unwrap();
            let mut sig = delegate_secret(dk).sign(&bytes).to_bytes();
            match tamper.as_str() {
                "none" => {}
                "exp" => entity.expiration = tai(w.base, exp),
                // the list was changed after signing: every status now claims another kind
                "txs" => {
                    for (i, p) in list.iter_mut().enumerate() {
                        let k = kinds.get(i).map(|s| s.as_str()).unwrap_or("PSucc");
                        let other = if k == "PSucc" { "PFail" } else { "PSucc" };
                        p.status = mk_preconf_status(other, n, p.tx_id);
                    }
                    if list.is_empty() {
                        list.push(Preconfirmation { tx_id: txid(1), status: mk_preconf_status("PSucc", n, txid(1)) });
                    }
                    entity.preconfirmations = list.clone();
                }
                "sig" => flip_sig64(&mut sig),
                other => die(&format!("unknown tamper {other}")),
            }
            let msg = P2PPreConfirmationMessage::Preconfirmations(Sealed { entity, signature: Bytes64::new(sig) });
            let (tb, tt, verdict, idok, upd, st) = w.deliver(msg, w.ev as u8).await;
            t.event("Preconfs", json!({"dk": dk, "exp": exp, "tamper": tamper, "txs": txs, "kinds": kinds, "n": n,
                "tb": tb, "t": tt, "verdict": verdict, "idok": idok, "upd": upd, "st": st}));
        }
        "Rotate" => {
            let pk = s.int("pk");
            *w.key.0.lock().unwrap() = Input::owner(&protocol_secret(pk).public_key());
            t.event("Rotate", json!({"pk": pk}));
        }
        "Sleep" => {
            let ms = s.int("ms");
            let tb = w.rel_now();
            std::thread::sleep(Duration::from_millis(ms as u64));
            t.event("Sleep", json!({"ms": ms, "tb": tb, "t": w.rel_now()}));
        }
        other => die(&format!("unknown delegation action {other}")),
    }
}

async fn deleg_walk(t: &mut Trace, id: i64, steps: &[Map<String, Value>], ntx: i64) {
    t.reset(id, json!({"ntx": ntx}));
    let mut w = DelegWorld::new(ntx).await;
    for s in steps {
        deleg_step(t, &mut w, s).await;
    }
    let _ = w.service.stop_and_await().await;
}

fn deleg(args: &Args) {
    let walks = read_walks(args.req("walks"));
    let ntx = args.num("ntx", 2) as i64;
    let mut t = Trace::create(args.req("out"));
    let rt = paused_rt();
    rt.block_on(async {
        for w in walks {
            deleg_walk(&mut t, w.id, &w.steps, ntx).await;
        }
    });
    t.finish();
}

/// Seeded random gossip: valid chains (delegate then batches), wrong signers, overwritten delegations,
/// tampered entities, replays, rotations.  Expirations are far in the past / far in the future relative to
/// the wall clock the service reads; `--sleepers` walks additionally let a near expiration really pass.
fn deleg_random(args: &Args) {
    let n = args.num("walks", 50);
    let len = args.num("len", 14);
    let sleepers = args.num("sleepers", 2);
    let ntx = args.num("ntx", 2) as i64;
    let mut rng = Rng::new(env_seed() ^ 0x4444);
    let mut t = Trace::create(args.req("out"));
    let rt = paused_rt();
    let exps: [i64; 5] = [-2000, -1000, 1000, 2000, 3000];
    let kinds = ["PSucc", "PFail", "PSq"];
    rt.block_on(async {
        for id in 0..n {
            let sleeper = id < sleepers;
            let mut steps: Vec<Map<String, Value>> = Vec::new();
            let mut cur_pk = 1i64;
            let mut known: Vec<(i64, i64)> = Vec::new(); // (dk, exp) pairs delegated so far (any validity)
            let near = 2i64;
            let mut slept = false;
            for i in 0..len {
                if sleeper && !slept && i == len / 2 {
                    steps.push(step(json!({"a": "Sleep", "ms": 3100})));
                    slept = true;
                    continue;
                }
                let c = rng.below(100);
                if c < 28 || known.is_empty() {
                    let pk = if rng.chance(4, 5) { cur_pk } else { rng.range(0, 2) };
                    let dk = rng.range(1, 3);
                    let exp = if sleeper && !slept && rng.chance(2, 3) {
                        near
                    } else if rng.chance(3, 4) {
                        *rng.pick(&exps[2..])
                    } else {
                        *rng.pick(&exps)
                    };
                    let tamper = if rng.chance(1, 6) { *rng.pick(&["key", "exp", "sig"]) } else { "none" };
                    known.push((dk, exp));
                    steps.push(step(json!({"a": "Delegate", "pk": pk, "dk": dk, "exp": exp, "tamper": tamper})));
                } else if c < 93 {
                    // mostly the pair delegated last or an earlier one; sometimes an arbitrary signer/expiration
                    let (dk, exp) = match rng.below(8) {
                        0..=3 => *known.last().unwrap(),
                        4..=6 => *rng.pick(&known),
                        _ => (rng.range(1, 3), if sleeper { near } else { *rng.pick(&exps) }),
                    };
                    let tamper = if rng.chance(1, 7) { *rng.pick(&["exp", "txs", "sig"]) } else { "none" };
                    let cnt = if rng.chance(1, 8) { 0 } else { rng.range(1, 2) };
                    let mut txs = Vec::new();
                    let mut ks = Vec::new();
                    for _ in 0..cnt {
                        txs.push(rng.range(1, ntx));
                        ks.push(*rng.pick(&kinds));
                    }
                    steps.push(step(json!({"a": "Preconfs", "dk": dk, "exp": exp, "tamper": tamper, "txs": txs, "kinds": ks})));
                } else {
                    cur_pk = if cur_pk == 1 { 2 } else { 1 };
                    steps.push(step(json!({"a": "Rotate", "pk": cur_pk})));
                }
            }
            deleg_walk(&mut t, id as i64, &steps, ntx).await;
        }
    });
    t.finish();
}

fn main() {
    let args = Args::parse();
    match args.mode.as_str() {
        "stream" => stream(&args),
        "stream-random" => stream_random(&args),
        "mgr" => mgr(&args),
        "mgr-random" => mgr_random(&args),
        "deleg" => deleg(&args),
        "deleg-random" => deleg_random(&args),
        m => die(&format!("unknown mode {m}")),
    }
}
