//! C14 — action interpreter for sparse-merklized tables: the compression registry tables
//! `storage::Address` and `storage::AssetId` (`Merkleized<Table>`, `Sparse` blueprint).  Each
//! table is one primary key (its column id) of the shared `MerkleMetadata` table.
//! Projection: the root returned by `MerkleRootStorage::root(pk)` is mapped to the *entry set*
//! whose from-scratch root (`fuel_merkle::sparse::in_memory::MerkleTree::root_from_set` over the
//! encoded keys/values) it is; a root that matches no entry set is logged as all `-1`.

use fuel_core_compression_service::storage::{self as cs, column::CompressionColumn};
use fuel_core_storage::{
    codec::{postcard::Postcard, Encode, Encoder},
    kv_store::StorageColumn,
    merkle::{column::MerkleizedColumn, sparse::MerkleMetadata},
    structured_storage::{test::InMemoryStorage, TableWithBlueprint},
    transactional::{ConflictPolicy, StorageTransaction},
    MerkleRootStorage, StorageAsMut, StorageAsRef, StorageBatchMutate, StorageInspect,
};
use fuel_core_types::{
    fuel_compression::RegistryKey,
    fuel_merkle::sparse::{in_memory::MerkleTree, MerkleTreeKey},
    fuel_tx::{Address, AssetId},
};
use h_common::*;
use serde_json::Value as J;
use std::collections::HashMap;

type Col = MerkleizedColumn<CompressionColumn>;
type S0 = InMemoryStorage<Col>;
type Tx = StorageTransaction<S0>;

fn rkey(s: i64) -> RegistryKey {
    // sub-key ids 1..n -> spread registry keys (different tree paths)
    RegistryKey::try_from((s as u32) * 7 + 1).unwrap_or_else(|_| die("registry key out of range"))
}
fn vbytes(v: i64) -> [u8; 32] {
    let mut b = [0u8; 32];
    b[0] = v as u8;
    b[31] = 0x40 + v as u8;
    b
}
fn vid(b: &[u8]) -> i64 {
    for v in 1..=3 {
        if vbytes(v) == b {
            return v;
        }
    }
    99
}

struct Universe {
    npk: i64,
    nsub: i64,
    /// from-scratch root -> entry set (value id per sub-key, 0 = absent)
    roots: HashMap<[u8; 32], Vec<i64>>,
}

impl Universe {
    fn new(npk: i64, nsub: i64, nvals: i64) -> Self {
        let mut roots = HashMap::new();
        let total = (nvals + 1).pow(nsub as u32);
        for code in 0..total {
            let mut f = vec![];
            let mut c = code;
            for _ in 0..nsub {
                f.push(c % (nvals + 1));
                c /= nvals + 1;
            }
            let set: Vec<(MerkleTreeKey, [u8; 32])> = f
                .iter()
                .enumerate()
                .filter(|(_, v)| **v != 0)
                .map(|(i, v)| {
                    let k = rkey(i as i64 + 1);
                    let kb = <Postcard as Encode<RegistryKey>>::encode(&k).as_bytes().into_owned();
                    (MerkleTreeKey::new(kb), vbytes(*v))
                })
                .collect();
            let root: [u8; 32] = MerkleTree::root_from_set(set.into_iter());
            roots.insert(root, f);
        }
        Universe { npk, nsub, roots }
    }
    fn entries_of(&self, root: &[u8; 32]) -> Vec<i64> {
        self.roots.get(root).cloned().unwrap_or_else(|| vec![-1; self.nsub as usize])
    }
}

/// Dispatch on the primary key: 1 = Address table, 2 = AssetId table.
macro_rules! on_pk {
    ($pk:expr, |$T:ident, $mk:ident| $e:expr) => {
        match $pk {
            1 => {
                type $T = cs::Address;
                let $mk = |v: i64| Address::from(vbytes(v));
                $e
            }
            2 => {
                type $T = cs::AssetId;
                let $mk = |v: i64| AssetId::from(vbytes(v));
                $e
            }
            _ => die("primary key out of range"),
        }
    };
}

fn pk_id(pk: i64) -> u32 {
    on_pk!(pk, |T, _mk| <T as TableWithBlueprint>::column().id())
}

fn project(u: &Universe, tx: &Tx) -> J {
    let mut tab = vec![];
    let mut root = vec![];
    let mut meta = vec![];
    for pk in 1..=u.npk {
        let mut row = vec![];
        for s in 1..=u.nsub {
            let v: i64 = on_pk!(pk, |T, _mk| StorageInspect::<T>::get(tx, &rkey(s))
                .unwrap_or_else(|e| die(&format!("get: {e:?}")))
                .map(|v| vid(v.as_ref().as_ref()))
                .unwrap_or(0));
            row.push(v);
        }
        tab.push(row);
        let id = pk_id(pk);
        let r: [u8; 32] = on_pk!(pk, |T, _mk| MerkleRootStorage::<u32, T>::root(tx, &id))
            .unwrap_or_else(|e| die(&format!("root: {e:?}")));
        root.push(u.entries_of(&r));
        let has = tx
            .storage_as_ref::<MerkleMetadata<CompressionColumn>>()
            .contains_key(&id)
            .unwrap_or_else(|e| die(&format!("metadata contains_key: {e:?}")));
        meta.push(has);
    }
    json!({"tab": tab, "root": root, "meta": meta})
}

fn with_state(mut fields: J, st: J) -> J {
    if let (J::Object(f), J::Object(s)) = (&mut fields, st) {
        for (k, v) in s {
            f.insert(k, v);
        }
    }
    fields
}

struct World {
    tx: Option<Tx>,
}
fn fresh() -> World {
    World { tx: Some(StorageTransaction::transaction(S0::default(), ConflictPolicy::Overwrite, Default::default())) }
}

fn exec(w: &mut World, name: &str, s: &serde_json::Map<String, J>) -> J {
    let tx = w.tx.as_mut().unwrap_or_else(|| die("no transaction"));
    match name {
        "SInsert" | "SReplace" => {
            let (pk, sub, v) = (s.int("pk"), s.int("s"), s.int("v"));
            let res: i64 = on_pk!(pk, |T, mk| {
                if name == "SInsert" {
                    match tx.storage_as_mut::<T>().insert(&rkey(sub), &mk(v)) {
                        Ok(()) => 0,
                        Err(_) => -7,
                    }
                } else {
                    match tx.storage_as_mut::<T>().replace(&rkey(sub), &mk(v)) {
                        Ok(p) => p.map(|p| vid(p.as_ref())).unwrap_or(0),
                        Err(_) => -7,
                    }
                }
            });
            json!({"pk": pk, "s": sub, "v": v, "res": res})
        }
        "STake" | "SRemove" => {
            let (pk, sub) = (s.int("pk"), s.int("s"));
            let res: i64 = on_pk!(pk, |T, _mk| {
                if name == "STake" {
                    match tx.storage_as_mut::<T>().take(&rkey(sub)) {
                        Ok(p) => p.map(|p| vid(p.as_ref())).unwrap_or(0),
                        Err(_) => -7,
                    }
                } else {
                    match tx.storage_as_mut::<T>().remove(&rkey(sub)) {
                        Ok(()) => 0,
                        Err(_) => -7,
                    }
                }
            });
            json!({"pk": pk, "s": sub, "res": res})
        }
        "SBatchInit" | "SBatchInsert" => {
            let pk = s.int("pk");
            let f = s.ints("f");
            let keys: Vec<RegistryKey> =
                f.iter().enumerate().filter(|(_, v)| **v != 0).map(|(i, _)| rkey(i as i64 + 1)).collect();
            let ok = on_pk!(pk, |T, mk| {
                let vals: Vec<_> = f.iter().filter(|v| **v != 0).map(|v| mk(*v)).collect();
                let set = keys.iter().zip(vals.iter());
                if name == "SBatchInit" {
                    StorageBatchMutate::<T>::init_storage(tx, set).is_ok()
                } else {
                    StorageBatchMutate::<T>::insert_batch(tx, set).is_ok()
                }
            });
            json!({"pk": pk, "f": f, "res": if ok { "ok" } else { "err" }})
        }
        "SBatchRemove" => {
            let pk = s.int("pk");
            let ss = s.ints("ss");
            let keys: Vec<RegistryKey> = ss.iter().map(|x| rkey(*x)).collect();
            let ok = on_pk!(pk, |T, _mk| StorageBatchMutate::<T>::remove_batch(tx, keys.iter()).is_ok());
            json!({"pk": pk, "ss": ss, "res": if ok { "ok" } else { "err" }})
        }
        "SCommit" => {
            let t = w.tx.take().unwrap();
            let base = t.commit().unwrap_or_else(|e| die(&format!("commit into the base store failed: {e:?}")));
            w.tx = Some(StorageTransaction::transaction(base, ConflictPolicy::Overwrite, Default::default()));
            json!({})
        }
        other => die(&format!("unknown sparse action {other}")),
    }
}

/// A panic of the code under test is data: logged with `"panic": true`, the walk ends there.
fn panic_fields(name: &str, s: &serde_json::Map<String, J>) -> J {
    let mut m = serde_json::Map::new();
    for (k, v) in s {
        if k != "a" {
            m.insert(k.clone(), v.clone());
        }
    }
    let _ = name;
    let res = match name {
        "SBatchInit" | "SBatchInsert" | "SBatchRemove" => json!("panic"),
        _ => json!(-9),
    };
    if !name.ends_with("Commit") {
        m.insert("res".into(), res);
    }
    J::Object(m)
}

/// returns false when the walk has to stop (panic)
fn step(u: &Universe, t: &mut Trace, w: &mut World, name: &str, s: &serde_json::Map<String, J>) -> bool {
    let n = name.to_string();
    let (fields, panicked) = match guarded(|| exec(w, &n, s)) {
        Ok(f) => (f, false),
        Err(_) => (panic_fields(name, s), true),
    };
    let st = match w.tx.as_ref() {
        Some(tx) => project(u, tx),
        None => die("transaction lost"),
    };
    let mut f = with_state(fields, st);
    f["panic"] = json!(panicked);
    t.event(name, f);
    !panicked
}

pub fn run(args: &Args) {
    let u = Universe::new(args.num("npk", 2) as i64, args.num("nsub", 3) as i64, args.num("nvals", 2) as i64);
    let walks = read_walks(args.req("walks"));
    let mut t = Trace::create(args.req("out"));
    for wk in walks {
        t.reset(wk.id, json!({}));
        let mut w = fresh();
        for s in &wk.steps {
            if !step(&u, &mut t, &mut w, s.name(), s) {
                break;
            }
        }
    }
    t.finish();
}

/// Seeded random driver over both primary keys: single and batched operations in every order.
pub fn random(args: &Args) {
    let n = args.num("walks", 100);
    let len = args.num("len", 30);
    let (npk, nsub, nvals) = (args.num("npk", 2) as i64, args.num("nsub", 3) as i64, args.num("nvals", 2) as i64);
    let u = Universe::new(npk, nsub, nvals);
    let mut rng = Rng::new(env_seed() ^ 0x5a);
    let mut t = Trace::create(args.req("out"));
    for id in 0..n {
        t.reset(id as i64, json!({}));
        let mut w = fresh();
        for _ in 0..len {
            let mut m = serde_json::Map::new();
            m.insert("pk".into(), json!(rng.range(1, npk)));
            m.insert("s".into(), json!(rng.range(1, nsub)));
            m.insert("v".into(), json!(rng.range(1, nvals)));
            let r = rng.below(100);
            let name = if r < 20 {
                "SInsert"
            } else if r < 35 {
                "SReplace"
            } else if r < 47 {
                "STake"
            } else if r < 60 {
                "SRemove"
            } else if r < 82 {
                let f: Vec<i64> = (0..nsub).map(|_| if rng.chance(1, 2) { rng.range(1, nvals) } else { 0 }).collect();
                m.insert("f".into(), json!(f));
                if rng.chance(1, 2) { "SBatchInit" } else { "SBatchInsert" }
            } else if r < 94 {
                let ss: Vec<i64> = (1..=nsub).filter(|_| rng.chance(1, 2)).collect();
                m.insert("ss".into(), json!(ss));
                "SBatchRemove"
            } else {
                "SCommit"
            };
            if !step(&u, &mut t, &mut w, name, &m) {
                break;
            }
        }
    }
    t.finish();
}
