//! C10 — action interpreter for nested `StorageTransaction`s over an `InMemoryStorage`.
//!
//! The nesting is by ownership (`StorageTransaction<StorageTransaction<..InMemoryStorage>>`),
//! so the stack is an enum over the (bounded) depths.  A finished sibling is the `Changes`
//! value obtained from `into_inner()`; it is merged later with `Modifiable::commit_changes`.
//! After every action the harness logs: depth, the top transaction's `Changes`, what `get`
//! returns for every cell of the 2 x 2 grid at the top, and the detached change sets.

use fuel_core_storage::{
    column::Column,
    kv_store::{KeyValueInspect, KeyValueMutate, Value, WriteOperation},
    structured_storage::test::InMemoryStorage,
    transactional::{Changes, ConflictPolicy, Modifiable, StorageTransaction},
};
use h_common::*;
use serde_json::Value as J;

type S0 = InMemoryStorage<Column>;
type T1 = StorageTransaction<S0>;
type T2 = StorageTransaction<T1>;
type T3 = StorageTransaction<T2>;

pub const MAX_DEPTH: usize = 3;

enum Stack {
    D0(S0),
    D1(T1),
    D2(T2),
    D3(T3),
    Gone,
}

fn column(c: i64) -> Column {
    match c {
        1 => Column::Metadata,
        2 => Column::Coins,
        _ => die("column id out of range"),
    }
}
fn key_bytes(k: i64) -> Vec<u8> {
    vec![0xA0 + k as u8]
}
/// value id -> bytes; the same table as `Bytes(v)` in specs/KV.tla
fn val_bytes(v: i64) -> Vec<u8> {
    match v {
        1 => vec![17],
        2 => vec![49, 50, 51],
        3 => vec![33],
        _ => die("value id out of range"),
    }
}
fn val_id(b: &[u8]) -> i64 {
    for v in 1..=3 {
        if val_bytes(v) == b {
            return v;
        }
    }
    99
}
fn opt_id(v: Option<Value>) -> i64 {
    v.map(|b| val_id(&b)).unwrap_or(0)
}
const CELLS: [(i64, i64); 4] = [(1, 1), (1, 2), (2, 1), (2, 2)];

fn project_changes(ch: &Changes) -> J {
    let codes: Vec<i64> = CELLS
        .iter()
        .map(|(c, k)| {
            match ch.get(&(column(*c) as u32)).and_then(|m| m.get(key_bytes(*k).as_slice())) {
                None => -1,
                Some(WriteOperation::Remove) => 0,
                Some(WriteOperation::Insert(v)) => val_id(v),
            }
        })
        .collect();
    json!(codes)
}

macro_rules! on_tx {
    ($s:expr, |$t:ident| $e:expr) => {
        match $s {
            Stack::D1($t) => $e,
            Stack::D2($t) => $e,
            Stack::D3($t) => $e,
            _ => die("operation needs an open transaction"),
        }
    };
}
macro_rules! on_any {
    ($s:expr, |$t:ident| $e:expr) => {
        match $s {
            Stack::D0($t) => $e,
            Stack::D1($t) => $e,
            Stack::D2($t) => $e,
            Stack::D3($t) => $e,
            Stack::Gone => die("stack is gone"),
        }
    };
}

struct World {
    stack: Stack,
    pols: Vec<ConflictPolicy>,
    det: Vec<Changes>,
}

fn pol(p: &str) -> ConflictPolicy {
    match p {
        "F" => ConflictPolicy::Fail,
        "O" => ConflictPolicy::Overwrite,
        _ => die("policy must be F or O"),
    }
}

impl World {
    fn new() -> Self {
        World { stack: Stack::D0(S0::default()), pols: vec![], det: vec![] }
    }
    fn depth(&self) -> usize {
        self.pols.len()
    }
    fn begin(&mut self, p: ConflictPolicy) {
        let s = std::mem::replace(&mut self.stack, Stack::Gone);
        self.stack = match s {
            Stack::D0(s) => Stack::D1(StorageTransaction::transaction(s, p, Default::default())),
            Stack::D1(s) => Stack::D2(StorageTransaction::transaction(s, p, Default::default())),
            Stack::D2(s) => Stack::D3(StorageTransaction::transaction(s, p, Default::default())),
            _ => die("Begin beyond the supported depth"),
        };
        self.pols.push(p);
    }
    /// `into_inner()`: gives the parent back together with the transaction's changes
    fn pop(&mut self) -> Changes {
        let s = std::mem::replace(&mut self.stack, Stack::Gone);
        self.pols.pop();
        let (st, ch) = match s {
            Stack::D1(t) => {
                let (p, c) = t.into_inner();
                (Stack::D0(p), c)
            }
            Stack::D2(t) => {
                let (p, c) = t.into_inner();
                (Stack::D1(p), c)
            }
            Stack::D3(t) => {
                let (p, c) = t.into_inner();
                (Stack::D2(p), c)
            }
            _ => die("no transaction to pop"),
        };
        self.stack = st;
        ch
    }
    /// The real `StorageTransaction::commit()`, run on a transaction that borrows its parent
    /// mutably (the `write_transaction()` shape) so that the parent survives a rejected commit.
    fn commit(&mut self) -> Result<(), String> {
        let p = *self.pols.last().unwrap_or_else(|| die("Commit without transaction"));
        let s = std::mem::replace(&mut self.stack, Stack::Gone);
        self.pols.pop();
        macro_rules! go {
            ($t:expr, $wrap:path) => {{
                let (mut parent, changes) = $t.into_inner();
                let r = StorageTransaction::transaction(&mut parent, p, changes)
                    .commit()
                    .map(|_| ())
                    .map_err(|e| format!("{e:?}"));
                ($wrap(parent), r)
            }};
        }
        let (st, r) = match s {
            Stack::D1(t) => go!(t, Stack::D0),
            Stack::D2(t) => go!(t, Stack::D1),
            Stack::D3(t) => go!(t, Stack::D2),
            _ => die("no transaction to commit"),
        };
        self.stack = st;
        r
    }
    fn merge(&mut self, j: usize) -> Result<(), String> {
        if j == 0 || j > self.det.len() {
            die("Merge index out of range");
        }
        let ch = self.det.remove(j - 1);
        on_any!(&mut self.stack, |t| t.commit_changes(ch)).map_err(|e| format!("{e:?}"))
    }
    fn state(&self) -> J {
        let view: Vec<i64> = CELLS
            .iter()
            .map(|(c, k)| {
                on_any!(&self.stack, |t| t.get(&key_bytes(*k), column(*c)))
                    .map(opt_id)
                    .unwrap_or(-7)
            })
            .collect();
        let ch = match &self.stack {
            Stack::D0(_) => json!([-1, -1, -1, -1]),
            Stack::D1(t) => project_changes(t.changes()),
            Stack::D2(t) => project_changes(t.changes()),
            Stack::D3(t) => project_changes(t.changes()),
            Stack::Gone => die("stack is gone"),
        };
        let det: Vec<J> = self.det.iter().map(project_changes).collect();
        json!({"d": self.depth(), "ch": ch, "view": view, "det": det})
    }
}

fn with_state(mut fields: J, st: J) -> J {
    if let (J::Object(f), J::Object(s)) = (&mut fields, st) {
        for (k, v) in s {
            f.insert(k, v);
        }
    }
    fields
}

fn read_res(r: fuel_core_storage::Result<Result<usize, fuel_core_storage::StorageReadError>>, buf: &[u8]) -> J {
    match r {
        Ok(Ok(n)) => json!({"k": "ok", "n": n, "buf": buf.to_vec()}),
        Ok(Err(fuel_core_storage::StorageReadError::KeyNotFound)) => json!({"k": "nf", "n": 0, "buf": []}),
        Ok(Err(fuel_core_storage::StorageReadError::OutOfBounds)) => json!({"k": "oob", "n": 0, "buf": []}),
        Err(_) => json!({"k": "Err", "n": 0, "buf": []}),
    }
}

/// Executes one step; returns the event name and its fields (arguments + result).
fn exec(w: &mut World, name: &str, s: &serde_json::Map<String, J>) -> J {
    let cell = |s: &serde_json::Map<String, J>| (s.int("col"), s.int("key"));
    match name {
        "Begin" => {
            let p = s.str_("pol").to_string();
            w.begin(pol(&p));
            json!({"pol": p})
        }
        "Put" | "Write" | "Replace" => {
            let (c, k) = cell(s);
            let v = s.int("v");
            let (kb, col, val) = (key_bytes(k), column(c), val_bytes(v));
            let res: i64 = match name {
                "Put" => on_tx!(&mut w.stack, |t| t.put(&kb, col, Value::from(val))).map(|_| 0).unwrap_or(-7),
                "Write" => on_tx!(&mut w.stack, |t| t.write(&kb, col, &val)).map(|n| n as i64).unwrap_or(-7),
                _ => on_tx!(&mut w.stack, |t| t.replace(&kb, col, Value::from(val))).map(opt_id).unwrap_or(-7),
            };
            json!({"col": c, "key": k, "v": v, "res": res})
        }
        "Take" | "Delete" => {
            let (c, k) = cell(s);
            let (kb, col) = (key_bytes(k), column(c));
            let res: i64 = if name == "Take" {
                on_tx!(&mut w.stack, |t| t.take(&kb, col)).map(opt_id).unwrap_or(-7)
            } else {
                on_tx!(&mut w.stack, |t| t.delete(&kb, col)).map(|_| 0).unwrap_or(-7)
            };
            json!({"col": c, "key": k, "res": res})
        }
        "Get" => {
            let (c, k) = cell(s);
            let r = on_any!(&w.stack, |t| t.get(&key_bytes(k), column(c))).map(opt_id).unwrap_or(-7);
            json!({"col": c, "key": k, "res": r})
        }
        "Exists" => {
            let (c, k) = cell(s);
            let r = on_any!(&w.stack, |t| t.exists(&key_bytes(k), column(c)))
                .unwrap_or_else(|_| die("exists returned a storage error"));
            json!({"col": c, "key": k, "res": r})
        }
        "Size" => {
            let (c, k) = cell(s);
            let r = on_any!(&w.stack, |t| t.size_of_value(&key_bytes(k), column(c)))
                .map(|o| o.map(|n| n as i64).unwrap_or(-1))
                .unwrap_or(-7);
            json!({"col": c, "key": k, "res": r})
        }
        "ReadExact" | "ReadZero" => {
            let (c, k) = cell(s);
            let (off, n) = (s.int("off"), s.int("n"));
            let mut buf = vec![0xEEu8; n as usize];
            let (kb, col) = (key_bytes(k), column(c));
            let r = if name == "ReadExact" {
                on_any!(&w.stack, |t| t.read_exact(&kb, col, off as usize, &mut buf))
            } else {
                on_any!(&w.stack, |t| t.read_zerofill(&kb, col, off as usize, &mut buf))
            };
            json!({"col": c, "key": k, "off": off, "n": n, "res": read_res(r, &buf)})
        }
        "Drop" => {
            let _ = w.pop();
            json!({})
        }
        "Detach" => {
            let ch = w.pop();
            w.det.push(ch);
            json!({})
        }
        "Commit" => {
            let r = w.commit();
            json!({"res": if r.is_ok() { "ok" } else { "err" }})
        }
        "Merge" => {
            let j = s.int("j");
            let r = w.merge(j as usize);
            json!({"j": j, "res": if r.is_ok() { "ok" } else { "err" }})
        }
        "DropDet" => {
            let j = s.int("j");
            if j < 1 || j as usize > w.det.len() {
                die("DropDet index out of range");
            }
            w.det.remove(j as usize - 1);
            json!({"j": j})
        }
        other => die(&format!("unknown KV action {other}")),
    }
}

/// A panic of the code under test is data: the event is logged with `"panic": true` and a dummy
/// result of the right type, and the walk ends there (the object may be half-updated).
fn panic_fields(name: &str, s: &serde_json::Map<String, J>) -> J {
    let mut m = serde_json::Map::new();
    for (k, v) in s {
        if k != "a" {
            m.insert(k.clone(), v.clone());
        }
    }
    let res = match name {
        "ReadExact" | "ReadZero" => json!({"k": "panic", "n": 0, "buf": []}),
        "Commit" | "Merge" => json!("panic"),
        "Exists" => json!(false),
        "Begin" | "Drop" | "Detach" | "DropDet" => J::Null,
        _ => json!(-9),
    };
    if !res.is_null() {
        m.insert("res".into(), res);
    }
    J::Object(m)
}

/// returns false when the walk has to stop (panic)
fn step(t: &mut Trace, w: &mut World, name: &str, s: &serde_json::Map<String, J>) -> bool {
    let name_owned = name.to_string();
    let r = guarded(|| exec(w, &name_owned, s));
    match r {
        Ok(fields) => {
            let mut f = with_state(fields, w.state());
            f["panic"] = json!(false);
            t.event(name, f);
            true
        }
        Err(_) => {
            let st = guarded(|| w.state()).unwrap_or_else(|_| json!({"d": 0, "ch": [-1, -1, -1, -1], "view": [0, 0, 0, 0], "det": []}));
            let mut f = with_state(panic_fields(name, s), st);
            f["panic"] = json!(true);
            t.event(name, f);
            false
        }
    }
}

pub fn run(args: &Args) {
    let walks = read_walks(args.req("walks"));
    let mut t = Trace::create(args.req("out"));
    for w in walks {
        t.reset(w.id, json!({}));
        let mut world = World::new();
        for s in &w.steps {
            if !step(&mut t, &mut world, s.name(), s) {
                break;
            }
        }
    }
    t.finish();
}

/// Seeded random driver: nested transactions up to depth 3, both policies, sibling change sets
/// (up to `maxdet` detached at once) merged into fail-on-conflict parents, reads with offsets
/// around the value lengths.
pub fn random(args: &Args) {
    let n = args.num("walks", 100);
    let len = args.num("len", 60);
    let maxdet = args.num("maxdet", 2) as usize;
    let nvals = args.num("nvals", 3) as i64;
    let mut rng = Rng::new(env_seed() ^ 0x4b56);
    let mut t = Trace::create(args.req("out"));
    for id in 0..n {
        t.reset(id as i64, json!({}));
        let mut w = World::new();
        // a bias per walk: how much the walk likes the Fail policy and few distinct cells
        let fail_bias = rng.below(4);
        let ncells = 2 + rng.below(3) as usize;
        for _ in 0..len {
            let d = w.depth();
            let (c, k) = CELLS[rng.below(ncells as u64) as usize];
            let mut m = serde_json::Map::new();
            m.insert("col".into(), json!(c));
            m.insert("key".into(), json!(k));
            let r = rng.below(100);
            let name: &str = if d == 0 && r < 55 {
                m.insert("pol".into(), json!(if rng.below(4) < fail_bias { "F" } else { "O" }));
                "Begin"
            } else if r < 8 && d < MAX_DEPTH {
                m.insert("pol".into(), json!(if rng.below(4) < fail_bias { "F" } else { "O" }));
                "Begin"
            } else if r < 16 && d >= 1 {
                "Commit"
            } else if r < 20 && d >= 1 {
                "Drop"
            } else if r < 30 && d >= 1 && w.det.len() < maxdet {
                "Detach"
            } else if r < 40 && !w.det.is_empty() {
                m.insert("j".into(), json!(1 + rng.below(w.det.len() as u64)));
                "Merge"
            } else if r < 42 && !w.det.is_empty() {
                m.insert("j".into(), json!(1 + rng.below(w.det.len() as u64)));
                "DropDet"
            } else if r < 75 && d >= 1 {
                m.insert("v".into(), json!(rng.range(1, nvals)));
                *rng.pick(&["Put", "Write", "Replace", "Replace", "Take", "Take", "Delete"])
            } else {
                m.insert("off".into(), json!(rng.range(0, 4)));
                m.insert("n".into(), json!(rng.range(0, 4)));
                *rng.pick(&["Get", "Exists", "Size", "ReadExact", "ReadZero", "ReadExact", "ReadZero"])
            };
            if !step(&mut t, &mut w, name, &m) {
                break;
            }
        }
    }
    t.finish();
}
