//! C13 — action interpreter for the merklized block table (`FuelBlocks`, `Merklized` blueprint).
//!
//! All operations go through the public table API (`StorageMutate`, `StorageBatchMutate`,
//! `MerkleRootStorage`) of a long-lived `StorageTransaction` over an `InMemoryStorage`;
//! `DCommit` flushes it into the base store and opens a new one.
//! Projection: every recorded 32-byte root is mapped to the *sequence of leaves* whose reference
//! root it is.  The reference is an independent RFC-6962 routine (below) over the block
//! encodings (block ids); a root that matches no sequence is logged as `[-1]`.

use fuel_core_storage::{
    column::Column,
    structured_storage::test::InMemoryStorage,
    tables::{
        merkle::{DenseMetadataKey, FuelBlockMerkleMetadata},
        FuelBlocks,
    },
    transactional::StorageTransaction,
    MerkleRootStorage, StorageAsMut, StorageAsRef, StorageBatchMutate, StorageInspect,
};
use fuel_core_types::{
    blockchain::block::{Block, CompressedBlock},
    fuel_types::{BlockHeight, ChainId},
};
use h_common::*;
use serde_json::Value as J;
use sha2::{Digest, Sha256};
use std::collections::HashMap;

type S0 = InMemoryStorage<Column>;
type Tx = StorageTransaction<S0>;

/// RFC 6962 Merkle tree hash: MTH({}) = SHA256(""), leaf = SHA256(0x00 || d),
/// node = SHA256(0x01 || MTH(D[0:k]) || MTH(D[k:n])), k = largest power of two < n.
fn mth(leaves: &[[u8; 32]]) -> [u8; 32] {
    match leaves.len() {
        0 => Sha256::digest([]).into(),
        1 => {
            let mut h = Sha256::new();
            h.update([0u8]);
            h.update(leaves[0]);
            h.finalize().into()
        }
        n => {
            let mut k = 1;
            while k * 2 < n {
                k *= 2;
            }
            let mut h = Sha256::new();
            h.update([1u8]);
            h.update(mth(&leaves[..k]));
            h.update(mth(&leaves[k..]));
            h.finalize().into()
        }
    }
}

struct Universe {
    nkeys: i64,
    nvals: i64,
    /// leaf id (key*10+variant) -> block
    blocks: HashMap<i64, CompressedBlock>,
    /// block id bytes -> leaf id
    by_id: HashMap<[u8; 32], i64>,
    /// reference root -> leaf sequence
    roots: HashMap<[u8; 32], Vec<i64>>,
}

fn make_block(k: i64, v: i64) -> CompressedBlock {
    let mut b = Block::default();
    b.header_mut().set_block_height((k as u32).into());
    b.header_mut().set_da_height((v as u64).into());
    b.header_mut().recalculate_metadata();
    b.compress(&ChainId::default())
}

impl Universe {
    fn new(nkeys: i64, nvals: i64, maxlen: usize) -> Self {
        let mut blocks = HashMap::new();
        let mut by_id = HashMap::new();
        let mut ids: Vec<(i64, [u8; 32])> = vec![];
        for k in 0..nkeys {
            for v in 1..=nvals {
                let b = make_block(k, v);
                let idb: [u8; 32] = fuel_core_types::fuel_types::Bytes32::from(b.id()).into();
                by_id.insert(idb, k * 10 + v);
                ids.push((k * 10 + v, idb));
                blocks.insert(k * 10 + v, b);
            }
        }
        // every leaf sequence up to maxlen
        let mut roots = HashMap::new();
        let mut frontier: Vec<(Vec<i64>, Vec<[u8; 32]>)> = vec![(vec![], vec![])];
        roots.insert(mth(&[]), vec![]);
        for _ in 0..maxlen {
            let mut next = vec![];
            for (seq, data) in &frontier {
                for (leaf, idb) in &ids {
                    let mut s = seq.clone();
                    s.push(*leaf);
                    let mut d = data.clone();
                    d.push(*idb);
                    roots.insert(mth(&d), s.clone());
                    next.push((s, d));
                }
            }
            frontier = next;
        }
        Universe { nkeys, nvals, blocks, by_id, roots }
    }
    fn block(&self, leaf: i64) -> &CompressedBlock {
        self.blocks.get(&leaf).unwrap_or_else(|| die("leaf id outside the universe"))
    }
    fn leaf_of(&self, b: &CompressedBlock) -> i64 {
        let idb: [u8; 32] = fuel_core_types::fuel_types::Bytes32::from(b.id()).into();
        self.by_id.get(&idb).copied().unwrap_or(-1)
    }
    fn seq_of(&self, root: &[u8; 32]) -> Vec<i64> {
        self.roots.get(root).cloned().unwrap_or_else(|| vec![-1])
    }
}

fn height(k: i64) -> BlockHeight {
    (k as u32).into()
}

fn project(u: &Universe, tx: &Tx) -> J {
    let mut tab = vec![];
    let mut meta = vec![];
    for k in 0..u.nkeys {
        let b = StorageInspect::<FuelBlocks>::get(tx, &height(k)).unwrap_or_else(|e| die(&format!("get: {e:?}")));
        tab.push(b.map(|b| u.leaf_of(&b)).unwrap_or(0));
        // the recorded root through MerkleRootStorage::root, the version through the metadata table
        let root = MerkleRootStorage::<BlockHeight, FuelBlocks>::root(tx, &height(k));
        let md = tx
            .storage_as_ref::<FuelBlockMerkleMetadata>()
            .get(&DenseMetadataKey::Primary(height(k)))
            .unwrap_or_else(|e| die(&format!("metadata get: {e:?}")));
        match (root, md) {
            (Ok(r), Some(md)) => {
                let same = md.root() == &r;
                let seq = if same { u.seq_of(&r) } else { vec![-1] };
                let ver_ok = md.version() as usize == seq.len();
                meta.push(json!({"has": true, "seq": if ver_ok { seq } else { vec![-1] }}));
            }
            (Err(_), None) => meta.push(json!({"has": false, "seq": []})),
            // root() and the metadata table disagree about presence
            _ => meta.push(json!({"has": true, "seq": [-1]})),
        }
    }
    let latest = tx
        .storage_as_ref::<FuelBlockMerkleMetadata>()
        .get(&DenseMetadataKey::Latest)
        .unwrap_or_else(|e| die(&format!("latest get: {e:?}")));
    let latest = match latest {
        Some(md) => {
            let seq = u.seq_of(md.root());
            let ver_ok = md.version() as usize == seq.len();
            json!({"has": true, "seq": if ver_ok { seq } else { vec![-1] }})
        }
        None => json!({"has": false, "seq": []}),
    };
    json!({"tab": tab, "meta": meta, "latest": latest})
}

fn with_state(mut fields: J, st: J) -> J {
    if let (J::Object(f), J::Object(s)) = (&mut fields, st) {
        for (k, v) in s {
            f.insert(k, v);
        }
    }
    fields
}

fn okerr<T>(r: &Result<T, fuel_core_storage::Error>) -> &'static str {
    if r.is_ok() { "ok" } else { "err" }
}
fn opt3<T>(r: &Result<Option<T>, fuel_core_storage::Error>) -> &'static str {
    match r {
        Ok(None) => "none",
        Ok(Some(_)) => "some",
        Err(_) => "err",
    }
}

struct World {
    tx: Option<Tx>,
}

fn exec(u: &Universe, w: &mut World, name: &str, s: &serde_json::Map<String, J>) -> J {
    let tx = w.tx.as_mut().unwrap_or_else(|| die("no transaction"));
    match name {
        "DInsert" => {
            let (k, v) = (s.int("k"), s.int("v"));
            let r = tx.storage_as_mut::<FuelBlocks>().insert(&height(k), u.block(k * 10 + v));
            json!({"k": k, "v": v, "res": okerr(&r)})
        }
        "DReplace" => {
            let (k, v) = (s.int("k"), s.int("v"));
            let r = tx.storage_as_mut::<FuelBlocks>().replace(&height(k), u.block(k * 10 + v));
            json!({"k": k, "v": v, "res": opt3(&r)})
        }
        "DTake" => {
            let k = s.int("k");
            let r = tx.storage_as_mut::<FuelBlocks>().take(&height(k));
            json!({"k": k, "res": opt3(&r)})
        }
        "DRemove" => {
            let k = s.int("k");
            let r = tx.storage_as_mut::<FuelBlocks>().remove(&height(k));
            json!({"k": k, "res": okerr(&r)})
        }
        "DBatchInit" | "DBatchInsert" => {
            let items = s.ints("items");
            let keys: Vec<BlockHeight> = items.iter().map(|x| height(x / 10)).collect();
            let set = keys.iter().zip(items.iter().map(|x| u.block(*x)));
            let r = if name == "DBatchInit" {
                StorageBatchMutate::<FuelBlocks>::init_storage(tx, set)
            } else {
                StorageBatchMutate::<FuelBlocks>::insert_batch(tx, set)
            };
            json!({"items": items, "res": okerr(&r)})
        }
        "DBatchRemove" => {
            let ks = s.ints("ks");
            let keys: Vec<BlockHeight> = ks.iter().map(|k| height(*k)).collect();
            let r = StorageBatchMutate::<FuelBlocks>::remove_batch(tx, keys.iter());
            json!({"ks": ks, "res": okerr(&r)})
        }
        "DCommit" => {
            let t = w.tx.take().unwrap();
            let base = t.commit().unwrap_or_else(|e| die(&format!("commit into the base store failed: {e:?}")));
            w.tx = Some(StorageTransaction::transaction(
                base,
                fuel_core_storage::transactional::ConflictPolicy::Overwrite,
                Default::default(),
            ));
            json!({})
        }
        other => die(&format!("unknown dense action {other}")),
    }
}

/// A panic of the code under test is data: logged with `"panic": true`, the walk ends there.
fn panic_fields(name: &str, s: &serde_json::Map<String, J>) -> J {
    let mut m = serde_json::Map::new();
    for (k, v) in s {
        if k != "a" {
            m.insert(k.clone(), v.clone());
        }
    }
    let _ = name;
    let res = json!("panic");
    if !name.ends_with("Commit") {
        m.insert("res".into(), res);
    }
    J::Object(m)
}

/// returns false when the walk has to stop (panic)
fn step(u: &Universe, t: &mut Trace, w: &mut World, name: &str, s: &serde_json::Map<String, J>) -> bool {
    let n = name.to_string();
    let (fields, panicked) = match guarded(|| exec(u, w, &n, s)) {
        Ok(f) => (f, false),
        Err(_) => (panic_fields(name, s), true),
    };
    let st = match w.tx.as_ref() {
        Some(tx) => project(u, tx),
        None => die("transaction lost"),
    };
    let mut f = with_state(fields, st);
    f["panic"] = json!(panicked);
    t.event(name, f);
    !panicked
}

fn fresh() -> World {
    World {
        tx: Some(StorageTransaction::transaction(
            S0::default(),
            fuel_core_storage::transactional::ConflictPolicy::Overwrite,
            Default::default(),
        )),
    }
}

pub fn run(args: &Args) {
    let u = Universe::new(args.num("nkeys", 3) as i64, args.num("nvals", 2) as i64, args.num("maxlen", 5) as usize);
    let walks = read_walks(args.req("walks"));
    let mut t = Trace::create(args.req("out"));
    for wk in walks {
        t.reset(wk.id, json!({}));
        let mut w = fresh();
        for s in &wk.steps {
            if !step(&u, &mut t, &mut w, s.name(), s) {
                break;
            }
        }
    }
    t.finish();
}

/// Seeded random driver: inserts (also on stored heights), replaces, takes, removes, batches that
/// mix fresh and stored heights, commits in between.
pub fn random(args: &Args) {
    let n = args.num("walks", 100);
    let len = args.num("len", 14);
    let maxlen = args.num("maxlen", 5) as usize;
    let u = Universe::new(args.num("nkeys", 3) as i64, args.num("nvals", 2) as i64, maxlen);
    let mut rng = Rng::new(env_seed() ^ 0xd3);
    let mut t = Trace::create(args.req("out"));
    for id in 0..n {
        t.reset(id as i64, json!({}));
        let mut w = fresh();
        // upper bound on leaves appended so far, so that every root stays inside the reference table
        let mut budget = maxlen as i64;
        for _ in 0..len {
            let mut m = serde_json::Map::new();
            let k = rng.range(0, u.nkeys - 1);
            let v = rng.range(1, u.nvals);
            m.insert("k".into(), json!(k));
            m.insert("v".into(), json!(v));
            let r = rng.below(100);
            let name = if r < 30 && budget >= 1 {
                budget -= 1;
                "DInsert"
            } else if r < 45 && budget >= 1 {
                budget -= 1;
                "DReplace"
            } else if r < 55 {
                "DTake"
            } else if r < 65 {
                "DRemove"
            } else if r < 80 && budget >= 2 {
                let cnt = rng.range(1, 2);
                let items: Vec<i64> =
                    (0..cnt).map(|_| rng.range(0, u.nkeys - 1) * 10 + rng.range(1, u.nvals)).collect();
                budget -= cnt;
                m.insert("items".into(), json!(items));
                if rng.chance(1, 2) { "DBatchInit" } else { "DBatchInsert" }
            } else if r < 90 {
                let cnt = rng.range(0, 2);
                let ks: Vec<i64> = (0..cnt).map(|_| rng.range(0, u.nkeys - 1)).collect();
                m.insert("ks".into(), json!(ks));
                "DBatchRemove"
            } else {
                "DCommit"
            };
            if !step(&u, &mut t, &mut w, name, &m) {
                break;
            }
        }
    }
    t.finish();
}
