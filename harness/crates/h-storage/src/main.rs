//! Harness for fuel-core-storage: C10 (storage transactions), C13 (dense block Merkle
//! accumulator), C14 (sparse Merkle roots).  Action interpreter + state projector + logger only;
//! TLC judges the traces (specs/Trace_KV.tla, specs/Trace_Merkle.tla).
mod dense;
mod kv;
mod sparse;

use h_common::*;

fn main() {
    let args = Args::parse();
    match args.mode.as_str() {
        "kv" => kv::run(&args),
        "kv-random" => kv::random(&args),
        "dense" => dense::run(&args),
        "dense-random" => dense::random(&args),
        "sparse" => sparse::run(&args),
        "sparse-random" => sparse::random(&args),
        m => die(&format!("unknown mode {m}")),
    }
}
