//! h-exec built with the wasm strategy of the upgradable executor (C07): every block is produced and
//! validated by BOTH `Executor::native` and `Executor::wasm` on the same parent state and inputs.
//! `--primary native|wasm` chooses whose results are logged as the block's events and committed; the
//! other strategy's digests go to the `other` fields.  Same sources as h-exec.
#[path = "../../h-exec/src/db.rs"]
mod db;
#[path = "../../h-exec/src/driver.rs"]
mod driver;
#[path = "../../h-exec/src/world.rs"]
mod world;

fn main() {
    driver::main()
}
