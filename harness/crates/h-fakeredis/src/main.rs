//! `h-fakeredis selftest --scripts <dir>`: checks the RESP server, the data commands and the mini
//! Lua interpreter against the documented behaviour of the six leader-lease scripts (the real
//! files of the repository).  Exit 0 = all passed, 2 = a check failed (tool error).

use h_fakeredis::{ClientId, Cluster, ExecInfo, Fate, Mode, Projector, Resp, Store, lua};
use serde_json::{Value, json};
use std::{
    io::{Read, Write},
    net::TcpStream,
    sync::Arc,
    time::Duration,
};

struct NullProj;
impl Projector for NullProj {
    fn rpc(&self, i: &ExecInfo) -> Value {
        json!({"n": i.node, "k": i.call.name, "f": i.fate.name(), "late": i.late})
    }
    fn node_state(&self, _n: usize, _s: &Store) -> Value {
        json!({})
    }
}

fn b(s: &str) -> Vec<u8> {
    s.as_bytes().to_vec()
}

struct T {
    failed: u32,
    n: u32,
}
impl T {
    fn check(&mut self, what: &str, ok: bool) {
        self.n += 1;
        if !ok {
            self.failed += 1;
            eprintln!("selftest FAILED: {what}");
        }
    }
}

fn run(store: &mut Store, text: &[u8], keys: &[&str], args: &[&[u8]]) -> Result<Resp, lua::LuaError> {
    let s = lua::Script::parse(text)?;
    let keys: Vec<Vec<u8>> = keys.iter().map(|k| b(k)).collect();
    let args: Vec<Vec<u8>> = args.iter().map(|a| a.to_vec()).collect();
    let mut redis = |c: &[Vec<u8>]| store.command(c);
    s.run(&keys, &args, &mut redis)
}

fn is_err_with(r: &Result<Resp, lua::LuaError>, needle: &str) -> bool {
    matches!(r, Ok(Resp::Error(m)) if m.contains(needle))
}

fn cmd(parts: &[&[u8]]) -> Vec<u8> {
    let mut out = format!("*{}\r\n", parts.len()).into_bytes();
    for p in parts {
        out.extend_from_slice(format!("${}\r\n", p.len()).as_bytes());
        out.extend_from_slice(p);
        out.extend_from_slice(b"\r\n");
    }
    out
}
fn read_some(s: &mut TcpStream) -> String {
    let mut buf = [0u8; 4096];
    let n = s.read(&mut buf).unwrap_or(0);
    String::from_utf8_lossy(&buf[..n]).into_owned()
}

fn main() {
    let argv: Vec<String> = std::env::args().collect();
    if argv.len() < 4 || argv[1] != "selftest" || argv[2] != "--scripts" {
        eprintln!("usage: h-fakeredis selftest --scripts <dir>");
        std::process::exit(3);
    }
    let dir = &argv[3];
    let load = |n: &str| std::fs::read(format!("{dir}/{n}.lua")).unwrap_or_else(|e| {
        eprintln!("cannot read {dir}/{n}.lua: {e}");
        std::process::exit(2)
    });
    let (check, release, promote, write, entries, latest) = (
        load("check_lease_owner"),
        load("release_lock"),
        load("promote_leader"),
        load("write_block"),
        load("read_stream_entries"),
        load("read_latest_stream_entry"),
    );
    let mut t = T { failed: 0, n: 0 };
    let (lk, ek, sk) = ("L", "L:epoch:token", "L:block:stream");

    // ---- promote / check / release -------------------------------------------------------
    let mut st = Store { now_ms: 5_000, ..Default::default() };
    let r = run(&mut st, &promote, &[lk, ek], &[b"A", b"2000"]);
    t.check("promote on a free node returns the incremented epoch", matches!(r, Ok(Resp::Int(1))));
    t.check("promote sets the lock", st.strings.get(&b(lk)).map(|v| v.val.clone()) == Some(b("A")));
    t.check("promote records the TTL", st.strings.get(&b(lk)).and_then(|v| v.expires_at_ms) == Some(7_000));
    let r = run(&mut st, &promote, &[lk, ek], &[b"B", b"2000"]);
    t.check("promote on a held node is LOCK_HELD", is_err_with(&r, "LOCK_HELD:"));
    let r = run(&mut st, &promote, &[lk, ek], &[b"A", b"2000"]);
    t.check("promote by the holder itself is LOCK_HELD", is_err_with(&r, "LOCK_HELD:"));
    t.check("epoch untouched by failed promotions", st.strings.get(&b(ek)).map(|v| v.val.clone()) == Some(b("1")));
    t.check("check owner = 1", matches!(run(&mut st, &check, &[lk], &[b"A"]), Ok(Resp::Int(1))));
    t.check("check non-owner = 0", matches!(run(&mut st, &check, &[lk], &[b"B"]), Ok(Resp::Int(0))));
    t.check("release by non-owner = 0", matches!(run(&mut st, &release, &[lk], &[b"B"]), Ok(Resp::Int(0))));
    t.check("release by owner = 1", matches!(run(&mut st, &release, &[lk], &[b"A"]), Ok(Resp::Int(1))));
    t.check("lock gone after release", !st.strings.contains_key(&b(lk)));
    t.check("check on a free node = 0", matches!(run(&mut st, &check, &[lk], &[b"A"]), Ok(Resp::Int(0))));
    let r = run(&mut st, &promote, &[lk, ek], &[b"B", b"2000"]);
    t.check("second promotion returns epoch 2", matches!(r, Ok(Resp::Int(2))));

    // ---- write_block ---------------------------------------------------------------------
    let w = |st: &mut Store, ep: &str, owner: &str, h: &str, data: &[u8]| {
        run(st, &write, &[sk, ek, lk], &[ep.as_bytes(), owner.as_bytes(), h.as_bytes(), data, b"2000", b"1000"])
    };
    t.check("write by a non-owner is fenced", is_err_with(&w(&mut st, "2", "A", "1", b"x"), "FENCING_ERROR:"));
    t.check("write with a stale token is fenced", is_err_with(&w(&mut st, "1", "B", "1", b"x"), "FENCING_ERROR:"));
    t.check("fenced writes append nothing", st.streams.get(&b(sk)).map(|s| s.entries.len()).unwrap_or(0) == 0);
    let r = w(&mut st, "5", "B", "1", b"\x00\xffbin");
    t.check("write returns the stream id", matches!(&r, Ok(Resp::Bulk(id)) if id.contains(&b'-')));
    t.check("write heals the node epoch", st.strings.get(&b(ek)).map(|v| v.val.clone()) == Some(b("5")));
    {
        let s = st.streams.get(&b(sk)).unwrap();
        let f = &s.entries[0].fields;
        t.check(
            "XADD stored height/data/epoch/timestamp",
            f.len() == 4 && f[0] == (b("height"), b("1")) && f[1] == (b("data"), b"\x00\xffbin".to_vec()) && f[2] == (b("epoch"), b("5")) && f[3].0 == b("timestamp"),
        );
    }
    t.check("same height again is HEIGHT_EXISTS", is_err_with(&w(&mut st, "5", "B", "1", b"y"), "HEIGHT_EXISTS:"));
    t.check("next height is written", matches!(w(&mut st, "5", "B", "2", b"z"), Ok(Resp::Bulk(_))));
    t.check("earlier height in a monotone stream is HEIGHT_EXISTS", is_err_with(&w(&mut st, "5", "B", "1", b"y"), "HEIGHT_EXISTS:"));
    t.check("stream has two entries", st.streams.get(&b(sk)).unwrap().entries.len() == 2);
    t.check("PEXPIRE renewed the lease", st.strings.get(&b(lk)).and_then(|v| v.expires_at_ms) == Some(7_000));

    // ---- read scripts ----------------------------------------------------------------------
    let r = run(&mut st, &latest, &[sk], &[]);
    t.check(
        "read_latest returns {height, id} of the last appended entry",
        matches!(&r, Ok(Resp::Array(a)) if a.len() == 2 && a[0] == Resp::Bulk(b("2"))),
    );
    let mut empty = Store::default();
    t.check("read_latest on an empty stream is {}", matches!(run(&mut empty, &latest, &[sk], &[]), Ok(Resp::Array(a)) if a.is_empty()));
    let r = run(&mut st, &entries, &[sk], &[b"2", b"1000"]);
    t.check(
        "read_stream_entries filters by minimum height and returns {h, epoch, data, id}",
        matches!(&r, Ok(Resp::Array(a)) if a.len() == 1 && matches!(&a[0], Resp::Array(e) if e.len() == 4 && e[0] == Resp::Int(2) && e[1] == Resp::Int(5) && e[2] == Resp::Bulk(b("z")))),
    );
    let r = run(&mut st, &entries, &[sk], &[b"1", b"1"]);
    t.check("read_stream_entries honours the count", matches!(&r, Ok(Resp::Array(a)) if a.len() == 1));
    let r = run(&mut st, &entries, &[sk], &[b"x", b"10"]);
    t.check("read_stream_entries with a bad height is {}", matches!(&r, Ok(Resp::Array(a)) if a.is_empty()));

    // ---- interpreter corner cases ----------------------------------------------------------
    let r = run(&mut st, b"local t = {} for i = 1, 3 do table.insert(t, i * 2) end return {#t, t[3], 'a' .. 1 .. 'b', tostring(1.5), 7 % 3}", &[], &[]);
    t.check(
        "tables / numeric for / concat / tostring / %",
        matches!(&r, Ok(Resp::Array(a)) if a.len() == 5 && a[0] == Resp::Int(3) && a[1] == Resp::Int(6) && a[2] == Resp::Bulk(b("a1b")) && a[3] == Resp::Bulk(b("1.5")) && a[4] == Resp::Int(1)),
    );
    let r = run(&mut st, b"local x = nil if not x and (1 < 2) and ('a' ~= 'b') then return redis.status_reply('FINE') end return 0", &[], &[]);
    t.check("nil / not / and / status_reply", matches!(&r, Ok(Resp::Simple(s)) if s == "FINE"));
    let r = run(&mut st, b"return redis.call('GET', 'nokey') or 'dflt'", &[], &[]);
    t.check("GET of a missing key is false in Lua", matches!(&r, Ok(Resp::Bulk(v)) if v == b"dflt"));
    let r = run(&mut st, b"local a = {1, 2, nil, 4} return a", &[], &[]);
    t.check("array reply stops at the first nil", matches!(&r, Ok(Resp::Array(a)) if a.len() == 2));
    let r = run(&mut st, b"return nosuchglobal + 1", &[], &[]);
    t.check("runtime errors become error replies", matches!(&r, Ok(Resp::Error(_))));
    let r = run(&mut st, b"local f = function() return 1 end return f()", &[], &[]);
    t.check("constructs outside the subset are reported as unsupported", matches!(&r, Err(lua::LuaError::Unsupported(_))));
    let r = run(&mut st, b"return redis.call('HGETALL', 'k')", &[], &[]);
    t.check("commands outside the subset are reported as unsupported", matches!(&r, Err(lua::LuaError::Unsupported(_))));

    // ---- RESP server, fates, gating ----------------------------------------------------------
    let cl: Arc<Cluster> = Cluster::new(2, Box::new(NullProj));
    cl.register_script("check_lease_owner", &check);
    cl.set_mode(Mode::Auto);
    let me = ClientId { r: "T".into(), i: 0 };
    let port = cl.listen(0, me.clone());
    let mut s = TcpStream::connect(("127.0.0.1", port)).expect("connect");
    s.set_read_timeout(Some(Duration::from_secs(5))).unwrap();
    s.write_all(&cmd(&[b"CLIENT", b"SETINFO", b"LIB-NAME", b"x"])).unwrap();
    t.check("CLIENT SETINFO -> OK", read_some(&mut s) == "+OK\r\n");
    let sha = h_fakeredis::sha1_hex(&check);
    s.write_all(&cmd(&[b"EVALSHA", sha.as_bytes(), b"1", b"L", b"A"])).unwrap();
    t.check("EVALSHA of an unknown script -> NOSCRIPT", read_some(&mut s).starts_with("-NOSCRIPT"));
    s.write_all(&cmd(&[b"SCRIPT", b"LOAD", &check])).unwrap();
    t.check("SCRIPT LOAD returns the sha1", read_some(&mut s).contains(&sha));
    s.write_all(&cmd(&[b"SET", b"L", b"A", b"PX", b"100", b"NX"])).unwrap();
    t.check("SET PX NX -> OK", read_some(&mut s) == "+OK\r\n");
    s.write_all(&cmd(&[b"EVALSHA", sha.as_bytes(), b"1", b"L", b"A"])).unwrap();
    t.check("EVALSHA runs the script", read_some(&mut s) == ":1\r\n");
    cl.push_switch(&me, 0, Fate::Drop);
    s.write_all(&cmd(&[b"EVALSHA", sha.as_bytes(), b"1", b"L", b"A"])).unwrap();
    t.check("a dropped request is answered with an error", read_some(&mut s).starts_with("-FAULT"));
    cl.set_mode(Mode::Gated);
    s.write_all(&cmd(&[b"EVALSHA", sha.as_bytes(), b"1", b"L", b"B"])).unwrap();
    let arrived = cl.wait_until(Duration::from_secs(5), || cl.pending().len() == 1);
    t.check("a gated request waits for the driver", arrived);
    if arrived {
        let p = cl.pending().remove(0);
        t.check("the gated request is classified by script name", p.call.name == "check_lease_owner" && p.client == me);
        cl.resolve(p.node, p.id, Fate::Ok);
        t.check("resolution delivers the reply", read_some(&mut s) == ":0\r\n");
    }
    t.check("the lease key does not expire by itself", cl.with_store(0, |st| st.strings.contains_key(&b("L"))));
    t.check("Expire(n) removes it", cl.expire(0, b"L") && !cl.with_store(0, |st| st.strings.contains_key(&b("L"))));
    let log = cl.take_log();
    let seqs: Vec<u64> = log.iter().map(|e| e["seq"].as_u64().unwrap()).collect();
    t.check("the event log is ordered by the global sequence number", seqs.windows(2).all(|w| w[0] < w[1]) && log.len() == 4);
    t.check("no tool errors were recorded", cl.tool_errors().is_empty());
    cl.shutdown();

    if t.failed > 0 {
        eprintln!("h-fakeredis selftest: {} of {} checks failed", t.failed, t.n);
        std::process::exit(2);
    }
    println!("h-fakeredis selftest: {} checks passed", t.n);
}
