//! A small Lua interpreter for the subset of Lua 5.1 that Redis scripts of the leader-lease
//! adapter use: locals, assignment, if/elseif/else, numeric and generic `for` (ipairs/pairs),
//! while, do-blocks, break, return, table constructors, indexing, calls, the usual operators,
//! and the builtins tonumber/tostring/type/ipairs/pairs/table.insert/#/redis.call/
//! redis.pcall/redis.error_reply/redis.status_reply.
//!
//! Anything outside the subset is reported as `LuaError::Unsupported` - callers turn that into
//! a TOOL error, never into a property violation.

use crate::store::Resp;
use std::{cell::RefCell, collections::HashMap, rc::Rc};

#[derive(Debug, Clone)]
pub enum LuaError {
    /// construct outside the interpreter's subset (tool error)
    Unsupported(String),
    /// runtime error of the script itself (becomes an error reply, as in Redis)
    Runtime(String),
}
type LResult<T> = Result<T, LuaError>;
fn unsup<T>(s: impl Into<String>) -> LResult<T> {
    Err(LuaError::Unsupported(s.into()))
}
fn rt<T>(s: impl Into<String>) -> LResult<T> {
    Err(LuaError::Runtime(s.into()))
}

// ------------------------------------------------------------------ values
#[derive(Clone, Debug)]
pub enum Value {
    Nil,
    Bool(bool),
    Num(f64),
    Str(Rc<Vec<u8>>),
    Table(Rc<RefCell<Table>>),
    Builtin(&'static str),
}

#[derive(Debug, Default)]
pub struct Table {
    pub arr: Vec<Value>,
    pub map: HashMap<Vec<u8>, Value>,
    pub nmap: HashMap<i64, Value>,
}

impl Value {
    pub fn str(s: &[u8]) -> Value {
        Value::Str(Rc::new(s.to_vec()))
    }
    fn truthy(&self) -> bool {
        !matches!(self, Value::Nil | Value::Bool(false))
    }
    fn type_name(&self) -> &'static str {
        match self {
            Value::Nil => "nil",
            Value::Bool(_) => "boolean",
            Value::Num(_) => "number",
            Value::Str(_) => "string",
            Value::Table(_) => "table",
            Value::Builtin(_) => "function",
        }
    }
    fn new_table() -> Value {
        Value::Table(Rc::new(RefCell::new(Table::default())))
    }
}

pub fn fmt_num(n: f64) -> String {
    if n.is_finite() && n == n.trunc() && n.abs() < 1e15 {
        format!("{}", n as i64)
    } else {
        format!("{n}")
    }
}
fn parse_num(s: &[u8]) -> Option<f64> {
    let t = std::str::from_utf8(s).ok()?.trim();
    if t.is_empty() {
        return None;
    }
    if let Some(h) = t.strip_prefix("0x").or_else(|| t.strip_prefix("0X")) {
        return i64::from_str_radix(h, 16).ok().map(|v| v as f64);
    }
    // Lua accepts decimal floats/ints with optional exponent; reject things like "inf"/"nan"
    if !t.bytes().all(|c| c.is_ascii_digit() || matches!(c, b'.' | b'e' | b'E' | b'+' | b'-')) {
        return None;
    }
    t.parse::<f64>().ok()
}
fn tonumber(v: &Value) -> Option<f64> {
    match v {
        Value::Num(n) => Some(*n),
        Value::Str(s) => parse_num(s),
        _ => None,
    }
}
fn tostr_bytes(v: &Value) -> LResult<Vec<u8>> {
    match v {
        Value::Str(s) => Ok((**s).clone()),
        Value::Num(n) => Ok(fmt_num(*n).into_bytes()),
        _ => rt(format!("attempt to concatenate a {} value", v.type_name())),
    }
}
fn values_eq(a: &Value, b: &Value) -> bool {
    match (a, b) {
        (Value::Nil, Value::Nil) => true,
        (Value::Bool(x), Value::Bool(y)) => x == y,
        (Value::Num(x), Value::Num(y)) => x == y,
        (Value::Str(x), Value::Str(y)) => x == y,
        (Value::Table(x), Value::Table(y)) => Rc::ptr_eq(x, y),
        (Value::Builtin(x), Value::Builtin(y)) => x == y,
        _ => false,
    }
}

fn table_get(t: &Table, k: &Value) -> Value {
    match k {
        Value::Num(n) if *n == n.trunc() => {
            let i = *n as i64;
            if i >= 1 && (i as usize) <= t.arr.len() {
                t.arr[i as usize - 1].clone()
            } else {
                t.nmap.get(&i).cloned().unwrap_or(Value::Nil)
            }
        }
        Value::Str(s) => t.map.get(&**s).cloned().unwrap_or(Value::Nil),
        _ => Value::Nil,
    }
}
fn table_set(t: &mut Table, k: &Value, v: Value) -> LResult<()> {
    match k {
        Value::Num(n) if *n == n.trunc() => {
            let i = *n as i64;
            if i >= 1 && (i as usize) <= t.arr.len() {
                t.arr[i as usize - 1] = v;
                // keep the array part free of trailing nils
                while matches!(t.arr.last(), Some(Value::Nil)) {
                    t.arr.pop();
                }
            } else if i >= 1 && (i as usize) == t.arr.len() + 1 {
                if !matches!(v, Value::Nil) {
                    t.arr.push(v);
                    // migrate following integer keys
                    loop {
                        let next = t.arr.len() as i64 + 1;
                        match t.nmap.remove(&next) {
                            Some(x) => t.arr.push(x),
                            None => break,
                        }
                    }
                }
            } else if matches!(v, Value::Nil) {
                t.nmap.remove(&i);
            } else {
                t.nmap.insert(i, v);
            }
            Ok(())
        }
        Value::Str(s) => {
            if matches!(v, Value::Nil) {
                t.map.remove(&**s);
            } else {
                t.map.insert((**s).clone(), v);
            }
            Ok(())
        }
        Value::Nil => rt("table index is nil"),
        _ => unsup(format!("table key of type {}", k.type_name())),
    }
}

// ------------------------------------------------------------------ lexer
#[derive(Clone, Debug, PartialEq)]
enum Tok {
    Name(String),
    Num(f64),
    Str(Vec<u8>),
    Kw(&'static str),
    Op(&'static str),
    Eof,
}
const KEYWORDS: &[&str] = &[
    "and", "break", "do", "else", "elseif", "end", "false", "for", "function", "if", "in", "local", "nil", "not",
    "or", "repeat", "return", "then", "true", "until", "while", "goto",
];
const OPS: &[&str] = &[
    "...", "..", "==", "~=", "<=", ">=", "+", "-", "*", "/", "%", "^", "#", "<", ">", "=", "(", ")", "{", "}", "[",
    "]", ";", ":", ",", ".",
];

fn lex(src: &[u8]) -> LResult<Vec<Tok>> {
    let mut i = 0;
    let mut out = Vec::new();
    while i < src.len() {
        let c = src[i];
        if c.is_ascii_whitespace() {
            i += 1;
            continue;
        }
        if c == b'-' && src.get(i + 1) == Some(&b'-') {
            // comment (long comments are outside the subset unless trivially delimited)
            if src[i + 2..].starts_with(b"[[") {
                match find(&src[i + 4..], b"]]") {
                    Some(p) => {
                        i = i + 4 + p + 2;
                        continue;
                    }
                    None => return unsup("unterminated long comment"),
                }
            }
            while i < src.len() && src[i] != b'\n' {
                i += 1;
            }
            continue;
        }
        if c.is_ascii_alphabetic() || c == b'_' {
            let s = i;
            while i < src.len() && (src[i].is_ascii_alphanumeric() || src[i] == b'_') {
                i += 1;
            }
            let w = std::str::from_utf8(&src[s..i]).unwrap().to_string();
            if let Some(k) = KEYWORDS.iter().find(|k| **k == w) {
                out.push(Tok::Kw(k));
            } else {
                out.push(Tok::Name(w));
            }
            continue;
        }
        if c.is_ascii_digit() || (c == b'.' && src.get(i + 1).is_some_and(|d| d.is_ascii_digit())) {
            let s = i;
            if c == b'0' && matches!(src.get(i + 1), Some(b'x') | Some(b'X')) {
                i += 2;
                while i < src.len() && src[i].is_ascii_hexdigit() {
                    i += 1;
                }
            } else {
                while i < src.len()
                    && (src[i].is_ascii_digit()
                        || src[i] == b'.'
                        || ((src[i] == b'e' || src[i] == b'E')
                            && src.get(i + 1).is_some_and(|d| d.is_ascii_digit() || *d == b'-' || *d == b'+')))
                {
                    if src[i] == b'e' || src[i] == b'E' {
                        i += 1;
                    }
                    i += 1;
                }
            }
            match parse_num(&src[s..i]) {
                Some(n) => out.push(Tok::Num(n)),
                None => return unsup(format!("malformed number {:?}", String::from_utf8_lossy(&src[s..i]))),
            }
            continue;
        }
        if c == b'"' || c == b'\'' {
            let q = c;
            i += 1;
            let mut s = Vec::new();
            loop {
                if i >= src.len() {
                    return unsup("unterminated string");
                }
                let d = src[i];
                if d == q {
                    i += 1;
                    break;
                }
                if d == b'\n' {
                    return unsup("newline in string literal");
                }
                if d == b'\\' {
                    i += 1;
                    let e = *src.get(i).ok_or_else(|| LuaError::Unsupported("bad escape".into()))?;
                    i += 1;
                    match e {
                        b'n' => s.push(b'\n'),
                        b't' => s.push(b'\t'),
                        b'r' => s.push(b'\r'),
                        b'0' => s.push(0),
                        b'\\' => s.push(b'\\'),
                        b'"' => s.push(b'"'),
                        b'\'' => s.push(b'\''),
                        b'\n' => s.push(b'\n'),
                        _ => return unsup(format!("string escape \\{}", e as char)),
                    }
                    continue;
                }
                s.push(d);
                i += 1;
            }
            out.push(Tok::Str(s));
            continue;
        }
        if c == b'[' && matches!(src.get(i + 1), Some(b'[') | Some(b'=')) {
            return unsup("long bracket strings");
        }
        let mut matched = false;
        for op in OPS {
            if src[i..].starts_with(op.as_bytes()) {
                out.push(Tok::Op(op));
                i += op.len();
                matched = true;
                break;
            }
        }
        if !matched {
            return unsup(format!("unexpected character {:?}", c as char));
        }
    }
    out.push(Tok::Eof);
    Ok(out)
}
fn find(h: &[u8], n: &[u8]) -> Option<usize> {
    h.windows(n.len()).position(|w| w == n)
}

// ------------------------------------------------------------------ AST
#[derive(Debug, Clone)]
enum Expr {
    Nil,
    True,
    False,
    Num(f64),
    Str(Vec<u8>),
    Name(String),
    Index(Box<Expr>, Box<Expr>),
    Call(Box<Expr>, Vec<Expr>),
    Bin(&'static str, Box<Expr>, Box<Expr>),
    Un(&'static str, Box<Expr>),
    Table(Vec<(Option<Expr>, Expr)>),
}
#[derive(Debug, Clone)]
enum Stmt {
    Local(Vec<String>, Vec<Expr>),
    Assign(Vec<Expr>, Vec<Expr>),
    Call(Expr),
    If(Vec<(Expr, Vec<Stmt>)>, Option<Vec<Stmt>>),
    NumFor(String, Expr, Expr, Option<Expr>, Vec<Stmt>),
    GenFor(Vec<String>, Vec<Expr>, Vec<Stmt>),
    While(Expr, Vec<Stmt>),
    Do(Vec<Stmt>),
    Return(Vec<Expr>),
    Break,
}

struct Parser {
    t: Vec<Tok>,
    p: usize,
}
impl Parser {
    fn peek(&self) -> &Tok {
        &self.t[self.p]
    }
    fn next(&mut self) -> Tok {
        let t = self.t[self.p].clone();
        if self.p + 1 < self.t.len() {
            self.p += 1;
        }
        t
    }
    fn is_op(&self, o: &str) -> bool {
        matches!(self.peek(), Tok::Op(x) if *x == o)
    }
    fn is_kw(&self, k: &str) -> bool {
        matches!(self.peek(), Tok::Kw(x) if *x == k)
    }
    fn eat_op(&mut self, o: &str) -> bool {
        if self.is_op(o) {
            self.next();
            true
        } else {
            false
        }
    }
    fn eat_kw(&mut self, k: &str) -> bool {
        if self.is_kw(k) {
            self.next();
            true
        } else {
            false
        }
    }
    fn expect_op(&mut self, o: &str) -> LResult<()> {
        if self.eat_op(o) { Ok(()) } else { unsup(format!("parse: expected '{o}', found {:?}", self.peek())) }
    }
    fn expect_kw(&mut self, k: &str) -> LResult<()> {
        if self.eat_kw(k) { Ok(()) } else { unsup(format!("parse: expected '{k}', found {:?}", self.peek())) }
    }
    fn name(&mut self) -> LResult<String> {
        match self.next() {
            Tok::Name(n) => Ok(n),
            t => unsup(format!("parse: expected a name, found {t:?}")),
        }
    }
    fn block_end(&self) -> bool {
        matches!(self.peek(), Tok::Eof) || ["end", "else", "elseif", "until"].iter().any(|k| self.is_kw(k))
    }
    fn block(&mut self) -> LResult<Vec<Stmt>> {
        let mut out = Vec::new();
        while !self.block_end() {
            if self.eat_op(";") {
                continue;
            }
            let s = self.stmt()?;
            let last = matches!(s, Stmt::Return(_) | Stmt::Break);
            out.push(s);
            if last {
                self.eat_op(";");
                if !self.block_end() {
                    return unsup("parse: statement after return/break");
                }
            }
        }
        Ok(out)
    }
    fn exprlist(&mut self) -> LResult<Vec<Expr>> {
        let mut v = vec![self.expr(0)?];
        while self.eat_op(",") {
            v.push(self.expr(0)?);
        }
        Ok(v)
    }
    fn stmt(&mut self) -> LResult<Stmt> {
        if self.eat_kw("local") {
            if self.is_kw("function") {
                return unsup("local function definitions");
            }
            let mut names = vec![self.name()?];
            while self.eat_op(",") {
                names.push(self.name()?);
            }
            let exprs = if self.eat_op("=") { self.exprlist()? } else { Vec::new() };
            return Ok(Stmt::Local(names, exprs));
        }
        if self.eat_kw("if") {
            let mut arms = Vec::new();
            let c = self.expr(0)?;
            self.expect_kw("then")?;
            arms.push((c, self.block()?));
            let mut els = None;
            loop {
                if self.eat_kw("elseif") {
                    let c = self.expr(0)?;
                    self.expect_kw("then")?;
                    arms.push((c, self.block()?));
                } else if self.eat_kw("else") {
                    els = Some(self.block()?);
                    self.expect_kw("end")?;
                    break;
                } else {
                    self.expect_kw("end")?;
                    break;
                }
            }
            return Ok(Stmt::If(arms, els));
        }
        if self.eat_kw("for") {
            let n1 = self.name()?;
            if self.eat_op("=") {
                let a = self.expr(0)?;
                self.expect_op(",")?;
                let b = self.expr(0)?;
                let c = if self.eat_op(",") { Some(self.expr(0)?) } else { None };
                self.expect_kw("do")?;
                let body = self.block()?;
                self.expect_kw("end")?;
                return Ok(Stmt::NumFor(n1, a, b, c, body));
            }
            let mut names = vec![n1];
            while self.eat_op(",") {
                names.push(self.name()?);
            }
            self.expect_kw("in")?;
            let ex = self.exprlist()?;
            self.expect_kw("do")?;
            let body = self.block()?;
            self.expect_kw("end")?;
            return Ok(Stmt::GenFor(names, ex, body));
        }
        if self.eat_kw("while") {
            let c = self.expr(0)?;
            self.expect_kw("do")?;
            let b = self.block()?;
            self.expect_kw("end")?;
            return Ok(Stmt::While(c, b));
        }
        if self.eat_kw("do") {
            let b = self.block()?;
            self.expect_kw("end")?;
            return Ok(Stmt::Do(b));
        }
        if self.eat_kw("return") {
            let ex = if self.block_end() || self.is_op(";") { Vec::new() } else { self.exprlist()? };
            return Ok(Stmt::Return(ex));
        }
        if self.eat_kw("break") {
            return Ok(Stmt::Break);
        }
        for k in ["function", "repeat", "goto"] {
            if self.is_kw(k) {
                return unsup(format!("'{k}' statements"));
            }
        }
        // assignment or call
        let e = self.suffixed()?;
        if self.is_op("=") || self.is_op(",") {
            let mut targets = vec![e];
            while self.eat_op(",") {
                targets.push(self.suffixed()?);
            }
            self.expect_op("=")?;
            let ex = self.exprlist()?;
            for t in &targets {
                if !matches!(t, Expr::Name(_) | Expr::Index(_, _)) {
                    return unsup("parse: cannot assign to this expression");
                }
            }
            return Ok(Stmt::Assign(targets, ex));
        }
        match e {
            Expr::Call(_, _) => Ok(Stmt::Call(e)),
            _ => unsup(format!("parse: unexpected expression statement near {:?}", self.peek())),
        }
    }
    fn primary(&mut self) -> LResult<Expr> {
        match self.next() {
            Tok::Name(n) => Ok(Expr::Name(n)),
            Tok::Op("(") => {
                let e = self.expr(0)?;
                self.expect_op(")")?;
                Ok(e)
            }
            t => unsup(format!("parse: unexpected token {t:?}")),
        }
    }
    fn suffixed(&mut self) -> LResult<Expr> {
        let mut e = self.primary()?;
        loop {
            if self.eat_op(".") {
                let n = self.name()?;
                e = Expr::Index(Box::new(e), Box::new(Expr::Str(n.into_bytes())));
            } else if self.eat_op("[") {
                let k = self.expr(0)?;
                self.expect_op("]")?;
                e = Expr::Index(Box::new(e), Box::new(k));
            } else if self.eat_op("(") {
                let args = if self.is_op(")") { Vec::new() } else { self.exprlist()? };
                self.expect_op(")")?;
                e = Expr::Call(Box::new(e), args);
            } else if self.is_op(":") {
                return unsup("method calls (a:b())");
            } else if matches!(self.peek(), Tok::Str(_)) || self.is_op("{") {
                return unsup("call without parentheses");
            } else {
                return Ok(e);
            }
        }
    }
    fn simple(&mut self) -> LResult<Expr> {
        match self.peek().clone() {
            Tok::Num(n) => {
                self.next();
                Ok(Expr::Num(n))
            }
            Tok::Str(s) => {
                self.next();
                Ok(Expr::Str(s))
            }
            Tok::Kw("nil") => {
                self.next();
                Ok(Expr::Nil)
            }
            Tok::Kw("true") => {
                self.next();
                Ok(Expr::True)
            }
            Tok::Kw("false") => {
                self.next();
                Ok(Expr::False)
            }
            Tok::Kw("function") => unsup("function expressions"),
            Tok::Op("...") => unsup("varargs"),
            Tok::Op("{") => {
                self.next();
                let mut items = Vec::new();
                while !self.is_op("}") {
                    if self.is_op("[") {
                        self.next();
                        let k = self.expr(0)?;
                        self.expect_op("]")?;
                        self.expect_op("=")?;
                        items.push((Some(k), self.expr(0)?));
                    } else if matches!(self.peek(), Tok::Name(_)) && matches!(self.t.get(self.p + 1), Some(Tok::Op("="))) {
                        let n = self.name()?;
                        self.next();
                        items.push((Some(Expr::Str(n.into_bytes())), self.expr(0)?));
                    } else {
                        items.push((None, self.expr(0)?));
                    }
                    if !(self.eat_op(",") || self.eat_op(";")) {
                        break;
                    }
                }
                self.expect_op("}")?;
                Ok(Expr::Table(items))
            }
            _ => self.suffixed(),
        }
    }
    /// precedence climbing; returns left/right binding powers
    fn binop(&self) -> Option<(&'static str, u8, u8)> {
        let op: &'static str = match self.peek() {
            Tok::Kw("or") => "or",
            Tok::Kw("and") => "and",
            Tok::Op(o) => o,
            _ => return None,
        };
        Some(match op {
            "or" => (op, 1, 1),
            "and" => (op, 2, 2),
            "<" | ">" | "<=" | ">=" | "~=" | "==" => (op, 3, 3),
            ".." => (op, 5, 4),
            "+" | "-" => (op, 6, 6),
            "*" | "/" | "%" => (op, 7, 7),
            "^" => (op, 10, 9),
            _ => return None,
        })
    }
    fn expr(&mut self, limit: u8) -> LResult<Expr> {
        let mut left = if self.is_kw("not") || self.is_op("-") || self.is_op("#") {
            let op: &'static str = match self.next() {
                Tok::Kw(_) => "not",
                Tok::Op(o) => o,
                _ => unreachable!(),
            };
            let e = self.expr(8)?;
            Expr::Un(op, Box::new(e))
        } else {
            self.simple()?
        };
        while let Some((op, l, r)) = self.binop() {
            if l <= limit {
                break;
            }
            self.next();
            let right = self.expr(r)?;
            left = Expr::Bin(op, Box::new(left), Box::new(right));
        }
        Ok(left)
    }
}

// ------------------------------------------------------------------ interpreter
enum Flow {
    Normal,
    Break,
    Return(Vec<Value>),
}

pub struct Script {
    body: Vec<Stmt>,
}

impl Script {
    pub fn parse(src: &[u8]) -> LResult<Script> {
        let toks = lex(src)?;
        let mut p = Parser { t: toks, p: 0 };
        let body = p.block()?;
        if !matches!(p.peek(), Tok::Eof) {
            return unsup(format!("parse: trailing tokens near {:?}", p.peek()));
        }
        Ok(Script { body })
    }

    /// Run with KEYS/ARGV; `redis` executes one Redis command.  Returns the reply.
    pub fn run(
        &self,
        keys: &[Vec<u8>],
        argv: &[Vec<u8>],
        redis: &mut dyn FnMut(&[Vec<u8>]) -> Resp,
    ) -> Result<Resp, LuaError> {
        let mut it = Interp { scopes: vec![HashMap::new()], globals: HashMap::new(), redis, steps: 0 };
        let mk = |xs: &[Vec<u8>]| {
            let t = Value::new_table();
            if let Value::Table(tt) = &t {
                tt.borrow_mut().arr = xs.iter().map(|x| Value::str(x)).collect();
            }
            t
        };
        it.globals.insert("KEYS".into(), mk(keys));
        it.globals.insert("ARGV".into(), mk(argv));
        match it.exec_block(&self.body) {
            Ok(Flow::Return(vs)) => lua_to_resp(vs.into_iter().next().unwrap_or(Value::Nil)),
            Ok(_) => Ok(Resp::Nil),
            Err(LuaError::Runtime(m)) => Ok(Resp::Error(format!("ERR user_script: {m}"))),
            Err(e) => Err(e),
        }
    }
}

struct Interp<'a> {
    scopes: Vec<HashMap<String, Value>>,
    globals: HashMap<String, Value>,
    redis: &'a mut dyn FnMut(&[Vec<u8>]) -> Resp,
    steps: u64,
}

fn resp_to_lua(r: Resp) -> Value {
    match r {
        Resp::Int(i) => Value::Num(i as f64),
        Resp::Bulk(b) => Value::Str(Rc::new(b)),
        Resp::Nil => Value::Bool(false),
        Resp::Simple(s) => {
            let t = Value::new_table();
            if let Value::Table(tt) = &t {
                tt.borrow_mut().map.insert(b"ok".to_vec(), Value::str(s.as_bytes()));
            }
            t
        }
        Resp::Error(s) => {
            let t = Value::new_table();
            if let Value::Table(tt) = &t {
                tt.borrow_mut().map.insert(b"err".to_vec(), Value::str(s.as_bytes()));
            }
            t
        }
        Resp::Array(a) => {
            let t = Value::new_table();
            if let Value::Table(tt) = &t {
                tt.borrow_mut().arr = a.into_iter().map(resp_to_lua).collect();
            }
            t
        }
    }
}

pub fn lua_to_resp(v: Value) -> Result<Resp, LuaError> {
    Ok(match v {
        Value::Nil | Value::Bool(false) => Resp::Nil,
        Value::Bool(true) => Resp::Int(1),
        Value::Num(n) => Resp::Int(n as i64),
        Value::Str(s) => Resp::Bulk((*s).clone()),
        Value::Builtin(_) => Resp::Nil,
        Value::Table(t) => {
            let t = t.borrow();
            if let Some(Value::Str(e)) = t.map.get(&b"err"[..]) {
                return Ok(Resp::Error(String::from_utf8_lossy(e).into_owned()));
            }
            if let Some(Value::Str(e)) = t.map.get(&b"ok"[..]) {
                return Ok(Resp::Simple(String::from_utf8_lossy(e).into_owned()));
            }
            let mut out = Vec::new();
            for x in &t.arr {
                if matches!(x, Value::Nil) {
                    break;
                }
                out.push(lua_to_resp(x.clone())?);
            }
            Resp::Array(out)
        }
    })
}

impl<'a> Interp<'a> {
    fn tick(&mut self) -> LResult<()> {
        self.steps += 1;
        if self.steps > 50_000_000 {
            return unsup("script exceeded the interpreter's step budget");
        }
        Ok(())
    }
    fn lookup(&self, n: &str) -> Value {
        for s in self.scopes.iter().rev() {
            if let Some(v) = s.get(n) {
                return v.clone();
            }
        }
        if let Some(v) = self.globals.get(n) {
            return v.clone();
        }
        match n {
            "tonumber" | "tostring" | "type" | "ipairs" | "pairs" | "redis" | "table" | "string" | "math" | "unpack"
            | "error" | "assert" | "next" | "select" | "pcall" => Value::Builtin(match n {
                "tonumber" => "tonumber",
                "tostring" => "tostring",
                "type" => "type",
                "ipairs" => "ipairs",
                "pairs" => "pairs",
                "redis" => "redis",
                "table" => "table",
                "string" => "string",
                "math" => "math",
                "unpack" => "unpack",
                "error" => "error",
                "assert" => "assert",
                "next" => "next",
                "select" => "select",
                _ => "pcall",
            }),
            _ => Value::Nil,
        }
    }
    fn set_var(&mut self, n: &str, v: Value) -> LResult<()> {
        for s in self.scopes.iter_mut().rev() {
            if let Some(slot) = s.get_mut(n) {
                *slot = v;
                return Ok(());
            }
        }
        // Redis forbids creating globals from scripts
        if matches!(n, "KEYS" | "ARGV") {
            self.globals.insert(n.to_string(), v);
            return Ok(());
        }
        rt(format!("Script attempted to access nonexistent global variable '{n}'"))
    }
    fn exec_block(&mut self, b: &[Stmt]) -> LResult<Flow> {
        self.scopes.push(HashMap::new());
        let r = self.exec_stmts(b);
        self.scopes.pop();
        r
    }
    fn exec_stmts(&mut self, b: &[Stmt]) -> LResult<Flow> {
        for s in b {
            self.tick()?;
            match self.exec(s)? {
                Flow::Normal => {}
                f => return Ok(f),
            }
        }
        Ok(Flow::Normal)
    }
    fn eval_list(&mut self, ex: &[Expr], want: usize) -> LResult<Vec<Value>> {
        let mut vs = Vec::new();
        for e in ex {
            vs.push(self.eval(e)?);
        }
        while vs.len() < want {
            vs.push(Value::Nil);
        }
        Ok(vs)
    }
    fn exec(&mut self, s: &Stmt) -> LResult<Flow> {
        match s {
            Stmt::Local(names, ex) => {
                let vs = self.eval_list(ex, names.len())?;
                for (n, v) in names.iter().zip(vs) {
                    self.scopes.last_mut().unwrap().insert(n.clone(), v);
                }
                Ok(Flow::Normal)
            }
            Stmt::Assign(targets, ex) => {
                let vs = self.eval_list(ex, targets.len())?;
                for (t, v) in targets.iter().zip(vs) {
                    match t {
                        Expr::Name(n) => self.set_var(n, v)?,
                        Expr::Index(o, k) => {
                            let o = self.eval(o)?;
                            let k = self.eval(k)?;
                            match o {
                                Value::Table(t) => table_set(&mut t.borrow_mut(), &k, v)?,
                                other => return rt(format!("attempt to index a {} value", other.type_name())),
                            }
                        }
                        _ => unreachable!(),
                    }
                }
                Ok(Flow::Normal)
            }
            Stmt::Call(e) => {
                self.eval(e)?;
                Ok(Flow::Normal)
            }
            Stmt::If(arms, els) => {
                for (c, b) in arms {
                    if self.eval(c)?.truthy() {
                        return self.exec_block(b);
                    }
                }
                match els {
                    Some(b) => self.exec_block(b),
                    None => Ok(Flow::Normal),
                }
            }
            Stmt::NumFor(n, a, b, c, body) => {
                let num = |v: Value, what: &str| -> LResult<f64> {
                    tonumber(&v).ok_or_else(|| LuaError::Runtime(format!("'for' {what} must be a number")))
                };
                let a = num(self.eval(a)?, "initial value")?;
                let b = num(self.eval(b)?, "limit")?;
                let c = match c {
                    Some(c) => num(self.eval(c)?, "step")?,
                    None => 1.0,
                };
                if c == 0.0 {
                    return rt("'for' step is zero");
                }
                let mut i = a;
                while (c > 0.0 && i <= b) || (c < 0.0 && i >= b) {
                    self.tick()?;
                    self.scopes.push(HashMap::from([(n.clone(), Value::Num(i))]));
                    let f = self.exec_stmts(body);
                    self.scopes.pop();
                    match f? {
                        Flow::Break => break,
                        Flow::Return(v) => return Ok(Flow::Return(v)),
                        Flow::Normal => {}
                    }
                    i += c;
                }
                Ok(Flow::Normal)
            }
            Stmt::GenFor(names, ex, body) => {
                // only `ipairs(t)` / `pairs(t)` iterator expressions are in the subset
                let (kind, arg) = match ex.as_slice() {
                    [Expr::Call(f, args)] if args.len() == 1 => match &**f {
                        Expr::Name(n) if n == "ipairs" || n == "pairs" => (n.clone(), &args[0]),
                        _ => return unsup("generic for over something other than ipairs()/pairs()"),
                    },
                    _ => return unsup("generic for over something other than ipairs()/pairs()"),
                };
                let t = match self.eval(arg)? {
                    Value::Table(t) => t,
                    other => return rt(format!("bad argument #1 to '{kind}' (table expected, got {})", other.type_name())),
                };
                // snapshot of the key/value pairs (scripts in the subset do not mutate while iterating)
                let mut pairs: Vec<(Value, Value)> = Vec::new();
                {
                    let tb = t.borrow();
                    for (i, v) in tb.arr.iter().enumerate() {
                        if matches!(v, Value::Nil) {
                            break;
                        }
                        pairs.push((Value::Num((i + 1) as f64), v.clone()));
                    }
                    if kind == "pairs" {
                        let mut ks: Vec<_> = tb.nmap.keys().copied().collect();
                        ks.sort();
                        for k in ks {
                            pairs.push((Value::Num(k as f64), tb.nmap[&k].clone()));
                        }
                        let mut ks: Vec<_> = tb.map.keys().cloned().collect();
                        ks.sort();
                        for k in ks {
                            pairs.push((Value::str(&k), tb.map[&k].clone()));
                        }
                    }
                }
                for (k, v) in pairs {
                    self.tick()?;
                    let mut sc = HashMap::new();
                    let vals = [k, v];
                    for (i, n) in names.iter().enumerate() {
                        sc.insert(n.clone(), vals.get(i).cloned().unwrap_or(Value::Nil));
                    }
                    self.scopes.push(sc);
                    let f = self.exec_stmts(body);
                    self.scopes.pop();
                    match f? {
                        Flow::Break => break,
                        Flow::Return(v) => return Ok(Flow::Return(v)),
                        Flow::Normal => {}
                    }
                }
                Ok(Flow::Normal)
            }
            Stmt::While(c, body) => {
                while self.eval(c)?.truthy() {
                    self.tick()?;
                    match self.exec_block(body)? {
                        Flow::Break => break,
                        Flow::Return(v) => return Ok(Flow::Return(v)),
                        Flow::Normal => {}
                    }
                }
                Ok(Flow::Normal)
            }
            Stmt::Do(b) => self.exec_block(b),
            Stmt::Return(ex) => {
                let vs = self.eval_list(ex, 0)?;
                Ok(Flow::Return(vs))
            }
            Stmt::Break => Ok(Flow::Break),
        }
    }

    fn eval(&mut self, e: &Expr) -> LResult<Value> {
        self.tick()?;
        Ok(match e {
            Expr::Nil => Value::Nil,
            Expr::True => Value::Bool(true),
            Expr::False => Value::Bool(false),
            Expr::Num(n) => Value::Num(*n),
            Expr::Str(s) => Value::str(s),
            Expr::Name(n) => self.lookup(n),
            Expr::Table(items) => {
                let t = Value::new_table();
                if let Value::Table(tt) = &t {
                    let mut pos = 1.0;
                    for (k, v) in items {
                        let v = self.eval(v)?;
                        match k {
                            Some(k) => {
                                let k = self.eval(k)?;
                                table_set(&mut tt.borrow_mut(), &k, v)?;
                            }
                            None => {
                                table_set(&mut tt.borrow_mut(), &Value::Num(pos), v)?;
                                pos += 1.0;
                            }
                        }
                    }
                }
                t
            }
            Expr::Index(o, k) => {
                let o = self.eval(o)?;
                let k = self.eval(k)?;
                match (&o, &k) {
                    (Value::Table(t), _) => table_get(&t.borrow(), &k),
                    (Value::Builtin(ns), Value::Str(s)) => {
                        let name = String::from_utf8_lossy(s).into_owned();
                        match (*ns, name.as_str()) {
                            ("redis", "call") => Value::Builtin("redis.call"),
                            ("redis", "pcall") => Value::Builtin("redis.pcall"),
                            ("redis", "error_reply") => Value::Builtin("redis.error_reply"),
                            ("redis", "status_reply") => Value::Builtin("redis.status_reply"),
                            ("redis", "log") => Value::Builtin("redis.log"),
                            ("redis", "LOG_WARNING") | ("redis", "LOG_NOTICE") | ("redis", "LOG_DEBUG")
                            | ("redis", "LOG_VERBOSE") => Value::Num(0.0),
                            ("table", "insert") => Value::Builtin("table.insert"),
                            ("table", "getn") => Value::Builtin("table.getn"),
                            ("math", "max") => Value::Builtin("math.max"),
                            ("math", "min") => Value::Builtin("math.min"),
                            ("math", "floor") => Value::Builtin("math.floor"),
                            ("string", "len") => Value::Builtin("string.len"),
                            ("string", "sub") => Value::Builtin("string.sub"),
                            _ => return unsup(format!("library function {ns}.{name}")),
                        }
                    }
                    (Value::Str(_), _) => return unsup("indexing a string (string methods)"),
                    _ => return rt(format!("attempt to index a {} value", o.type_name())),
                }
            }
            Expr::Call(f, args) => {
                let fv = self.eval(f)?;
                let mut vs = Vec::new();
                for a in args {
                    vs.push(self.eval(a)?);
                }
                match fv {
                    Value::Builtin(name) => self.builtin(name, vs)?,
                    Value::Nil => return rt("attempt to call a nil value"),
                    other => return rt(format!("attempt to call a {} value", other.type_name())),
                }
            }
            Expr::Un(op, x) => {
                let v = self.eval(x)?;
                match *op {
                    "not" => Value::Bool(!v.truthy()),
                    "-" => match tonumber(&v) {
                        Some(n) => Value::Num(-n),
                        None => return rt(format!("attempt to perform arithmetic on a {} value", v.type_name())),
                    },
                    "#" => match &v {
                        Value::Str(s) => Value::Num(s.len() as f64),
                        Value::Table(t) => Value::Num(t.borrow().arr.iter().take_while(|x| !matches!(x, Value::Nil)).count() as f64),
                        _ => return rt(format!("attempt to get length of a {} value", v.type_name())),
                    },
                    _ => unreachable!(),
                }
            }
            Expr::Bin(op, a, b) => {
                if *op == "and" {
                    let l = self.eval(a)?;
                    return if l.truthy() { self.eval(b) } else { Ok(l) };
                }
                if *op == "or" {
                    let l = self.eval(a)?;
                    return if l.truthy() { Ok(l) } else { self.eval(b) };
                }
                let l = self.eval(a)?;
                let r = self.eval(b)?;
                match *op {
                    "==" => Value::Bool(values_eq(&l, &r)),
                    "~=" => Value::Bool(!values_eq(&l, &r)),
                    "<" | "<=" | ">" | ">=" => {
                        let ord = match (&l, &r) {
                            (Value::Num(x), Value::Num(y)) => x.partial_cmp(y),
                            (Value::Str(x), Value::Str(y)) => Some(x.cmp(y)),
                            _ => {
                                return rt(format!("attempt to compare {} with {}", l.type_name(), r.type_name()));
                            }
                        };
                        let Some(ord) = ord else { return Ok(Value::Bool(false)) };
                        Value::Bool(match *op {
                            "<" => ord.is_lt(),
                            "<=" => ord.is_le(),
                            ">" => ord.is_gt(),
                            _ => ord.is_ge(),
                        })
                    }
                    ".." => {
                        let mut s = tostr_bytes(&l)?;
                        s.extend(tostr_bytes(&r)?);
                        Value::Str(Rc::new(s))
                    }
                    "+" | "-" | "*" | "/" | "%" | "^" => {
                        let (Some(x), Some(y)) = (tonumber(&l), tonumber(&r)) else {
                            let bad = if tonumber(&l).is_none() { &l } else { &r };
                            return rt(format!("attempt to perform arithmetic on a {} value", bad.type_name()));
                        };
                        Value::Num(match *op {
                            "+" => x + y,
                            "-" => x - y,
                            "*" => x * y,
                            "/" => x / y,
                            "%" => x - (x / y).floor() * y,
                            _ => x.powf(y),
                        })
                    }
                    _ => return unsup(format!("operator {op}")),
                }
            }
        })
    }

    fn builtin(&mut self, name: &str, a: Vec<Value>) -> LResult<Value> {
        let arg = |i: usize| a.get(i).cloned().unwrap_or(Value::Nil);
        Ok(match name {
            "tonumber" => {
                if a.len() > 1 && !matches!(arg(1), Value::Nil) {
                    return unsup("tonumber with a base");
                }
                tonumber(&arg(0)).map(Value::Num).unwrap_or(Value::Nil)
            }
            "tostring" => match arg(0) {
                Value::Nil => Value::str(b"nil"),
                Value::Bool(b) => Value::str(if b { b"true" } else { b"false" }),
                Value::Num(n) => Value::str(fmt_num(n).as_bytes()),
                Value::Str(s) => Value::Str(s),
                _ => return unsup("tostring of a table/function"),
            },
            "type" => Value::str(arg(0).type_name().as_bytes()),
            "error" => {
                let m = match arg(0) {
                    Value::Str(s) => String::from_utf8_lossy(&s).into_owned(),
                    Value::Table(t) => match t.borrow().map.get(&b"err"[..]) {
                        Some(Value::Str(s)) => String::from_utf8_lossy(s).into_owned(),
                        _ => "error".into(),
                    },
                    other => format!("{other:?}"),
                };
                return rt(m);
            }
            "assert" => {
                if arg(0).truthy() {
                    arg(0)
                } else {
                    return rt("assertion failed!");
                }
            }
            "table.insert" => {
                let Value::Table(t) = arg(0) else { return rt("bad argument #1 to 'insert' (table expected)") };
                if a.len() == 2 {
                    let n = t.borrow().arr.len() as f64 + 1.0;
                    table_set(&mut t.borrow_mut(), &Value::Num(n), arg(1))?;
                } else {
                    return unsup("table.insert with a position");
                }
                Value::Nil
            }
            "table.getn" => match arg(0) {
                Value::Table(t) => Value::Num(t.borrow().arr.len() as f64),
                _ => return rt("bad argument #1 to 'getn' (table expected)"),
            },
            "string.len" => match arg(0) {
                Value::Str(s) => Value::Num(s.len() as f64),
                _ => return rt("bad argument #1 to 'len' (string expected)"),
            },
            "string.sub" => {
                let Value::Str(s) = arg(0) else { return rt("bad argument #1 to 'sub' (string expected)") };
                let len = s.len() as i64;
                let norm = |i: i64| if i < 0 { (len + i + 1).max(1) } else { i };
                let i = norm(tonumber(&arg(1)).unwrap_or(1.0) as i64).max(1);
                let j = match arg(2) {
                    Value::Nil => len,
                    v => {
                        let j = tonumber(&v).unwrap_or(-1.0) as i64;
                        if j < 0 { len + j + 1 } else { j.min(len) }
                    }
                };
                if i > j { Value::str(b"") } else { Value::str(&s[(i - 1) as usize..j as usize]) }
            }
            "math.max" | "math.min" => {
                let mut best: Option<f64> = None;
                for v in &a {
                    let Some(n) = tonumber(v) else { return rt("bad argument to 'max/min' (number expected)") };
                    best = Some(match best {
                        None => n,
                        Some(b) => if name == "math.max" { b.max(n) } else { b.min(n) },
                    });
                }
                match best {
                    Some(b) => Value::Num(b),
                    None => return rt("bad argument #1 to 'max/min' (number expected, got no value)"),
                }
            }
            "math.floor" => match tonumber(&arg(0)) {
                Some(n) => Value::Num(n.floor()),
                None => return rt("bad argument #1 to 'floor' (number expected)"),
            },
            "redis.error_reply" | "redis.status_reply" => {
                let Value::Str(s) = arg(0) else { return rt("wrong number or type of arguments") };
                let t = Value::new_table();
                if let Value::Table(tt) = &t {
                    let key: &[u8] = if name == "redis.error_reply" { b"err" } else { b"ok" };
                    tt.borrow_mut().map.insert(key.to_vec(), Value::Str(s));
                }
                t
            }
            "redis.log" => Value::Nil,
            "redis.call" | "redis.pcall" => {
                if a.is_empty() {
                    return rt("Please specify at least one argument for this redis lib call");
                }
                let mut cmd = Vec::new();
                for v in &a {
                    match v {
                        Value::Str(s) => cmd.push((**s).clone()),
                        Value::Num(n) => cmd.push(fmt_num(*n).into_bytes()),
                        _ => return rt("Lua redis lib command arguments must be strings or integers"),
                    }
                }
                let reply = (self.redis)(&cmd);
                if let Resp::Error(m) = &reply {
                    if m.starts_with("ERR unknown command") {
                        return unsup(format!("redis command in script: {m}"));
                    }
                    if name == "redis.call" {
                        return rt(m.clone());
                    }
                }
                resp_to_lua(reply)
            }
            "ipairs" | "pairs" | "next" | "select" | "unpack" | "pcall" => {
                return unsup(format!("'{name}' used outside a generic for / not in the subset"));
            }
            other => return unsup(format!("builtin {other}")),
        })
    }
}
