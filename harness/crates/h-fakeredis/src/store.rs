//! Data model of one fake Redis node: string keys (with a *virtual* TTL), streams, and the
//! commands the leader-lease scripts call.  Time never moves by itself: `now_ms` is a virtual
//! clock and keys expire only when the scenario calls `Store::expire_key`.

use std::collections::BTreeMap;

#[derive(Clone, Debug, PartialEq)]
pub enum Resp {
    Simple(String),
    Error(String),
    Int(i64),
    Bulk(Vec<u8>),
    Nil,
    Array(Vec<Resp>),
}

impl Resp {
    pub fn ok() -> Resp {
        Resp::Simple("OK".into())
    }
    pub fn err(s: &str) -> Resp {
        Resp::Error(s.to_string())
    }
    pub fn encode(&self, out: &mut Vec<u8>) {
        match self {
            Resp::Simple(s) => {
                out.extend_from_slice(b"+");
                out.extend_from_slice(s.as_bytes());
                out.extend_from_slice(b"\r\n");
            }
            Resp::Error(s) => {
                out.extend_from_slice(b"-");
                out.extend_from_slice(s.as_bytes());
                out.extend_from_slice(b"\r\n");
            }
            Resp::Int(i) => out.extend_from_slice(format!(":{i}\r\n").as_bytes()),
            Resp::Bulk(b) => {
                out.extend_from_slice(format!("${}\r\n", b.len()).as_bytes());
                out.extend_from_slice(b);
                out.extend_from_slice(b"\r\n");
            }
            Resp::Nil => out.extend_from_slice(b"$-1\r\n"),
            Resp::Array(a) => {
                out.extend_from_slice(format!("*{}\r\n", a.len()).as_bytes());
                for x in a {
                    x.encode(out);
                }
            }
        }
    }
}

#[derive(Clone, Debug)]
pub struct StrVal {
    pub val: Vec<u8>,
    /// virtual expiry instant (informational only; nothing expires by itself)
    pub expires_at_ms: Option<u64>,
}

#[derive(Clone, Debug)]
pub struct StreamEntry {
    pub id: (u64, u64),
    pub fields: Vec<(Vec<u8>, Vec<u8>)>,
}

#[derive(Clone, Debug, Default)]
pub struct Stream {
    pub entries: Vec<StreamEntry>,
    pub last_id: (u64, u64),
}

#[derive(Clone, Debug, Default)]
pub struct Store {
    pub strings: BTreeMap<Vec<u8>, StrVal>,
    pub streams: BTreeMap<Vec<u8>, Stream>,
    pub now_ms: u64,
}

fn up(b: &[u8]) -> String {
    String::from_utf8_lossy(b).to_ascii_uppercase()
}
fn int(b: &[u8]) -> Option<i64> {
    std::str::from_utf8(b).ok()?.trim().parse().ok()
}
pub fn fmt_id(id: (u64, u64)) -> Vec<u8> {
    format!("{}-{}", id.0, id.1).into_bytes()
}
/// parse a range bound: "-" / "+" / "ms" / "ms-seq"; `low` selects the default seq part
fn parse_bound(b: &[u8], low: bool) -> Option<(u64, u64)> {
    let s = std::str::from_utf8(b).ok()?;
    match s {
        "-" => Some((0, 0)),
        "+" => Some((u64::MAX, u64::MAX)),
        _ => {
            if let Some((a, c)) = s.split_once('-') {
                Some((a.parse().ok()?, c.parse().ok()?))
            } else {
                Some((s.parse().ok()?, if low { 0 } else { u64::MAX }))
            }
        }
    }
}
fn entry_resp(e: &StreamEntry) -> Resp {
    let mut f = Vec::new();
    for (k, v) in &e.fields {
        f.push(Resp::Bulk(k.clone()));
        f.push(Resp::Bulk(v.clone()));
    }
    Resp::Array(vec![Resp::Bulk(fmt_id(e.id)), Resp::Array(f)])
}

impl Store {
    /// Scenario-driven TTL expiry of one key.
    pub fn expire_key(&mut self, key: &[u8]) -> bool {
        self.strings.remove(key).is_some()
    }
    /// Restart without persistence.
    pub fn wipe(&mut self) {
        self.strings.clear();
        self.streams.clear();
    }

    /// Execute one data command.  Unknown commands yield an error reply whose text starts with
    /// `ERR unknown command`; callers decide whether that is a tool error.
    pub fn command(&mut self, a: &[Vec<u8>]) -> Resp {
        if a.is_empty() {
            return Resp::err("ERR empty command");
        }
        let name = up(&a[0]);
        let wrong = || Resp::Error(format!("ERR wrong number of arguments for '{}' command", name.to_lowercase()));
        match name.as_str() {
            "PING" => Resp::Simple("PONG".into()),
            "TIME" => Resp::Array(vec![
                Resp::Bulk((self.now_ms / 1000).to_string().into_bytes()),
                Resp::Bulk(((self.now_ms % 1000) * 1000).to_string().into_bytes()),
            ]),
            "GET" => {
                if a.len() != 2 {
                    return wrong();
                }
                if self.streams.contains_key(&a[1]) {
                    return Resp::err("WRONGTYPE Operation against a key holding the wrong kind of value");
                }
                match self.strings.get(&a[1]) {
                    Some(v) => Resp::Bulk(v.val.clone()),
                    None => Resp::Nil,
                }
            }
            "SET" => {
                if a.len() < 3 {
                    return wrong();
                }
                let (mut nx, mut xx, mut ttl) = (false, false, None);
                let mut i = 3;
                while i < a.len() {
                    match up(&a[i]).as_str() {
                        "NX" => nx = true,
                        "XX" => xx = true,
                        "PX" | "EX" => {
                            let unit = if up(&a[i]) == "PX" { 1 } else { 1000 };
                            i += 1;
                            match a.get(i).and_then(|x| int(x)) {
                                Some(n) if n > 0 => ttl = Some(n as u64 * unit),
                                _ => return Resp::err("ERR invalid expire time in 'set' command"),
                            }
                        }
                        "KEEPTTL" => {}
                        _ => return Resp::err("ERR syntax error"),
                    }
                    i += 1;
                }
                let exists = self.strings.contains_key(&a[1]) || self.streams.contains_key(&a[1]);
                if (nx && exists) || (xx && !exists) {
                    return Resp::Nil;
                }
                self.streams.remove(&a[1]);
                self.strings.insert(
                    a[1].clone(),
                    StrVal { val: a[2].clone(), expires_at_ms: ttl.map(|t| self.now_ms + t) },
                );
                Resp::ok()
            }
            "INCR" => {
                if a.len() != 2 {
                    return wrong();
                }
                let cur = match self.strings.get(&a[1]) {
                    Some(v) => match int(&v.val) {
                        Some(n) => n,
                        None => return Resp::err("ERR value is not an integer or out of range"),
                    },
                    None => 0,
                };
                let n = match cur.checked_add(1) {
                    Some(n) => n,
                    None => return Resp::err("ERR increment or decrement would overflow"),
                };
                let ttl = self.strings.get(&a[1]).and_then(|v| v.expires_at_ms);
                self.strings.insert(a[1].clone(), StrVal { val: n.to_string().into_bytes(), expires_at_ms: ttl });
                Resp::Int(n)
            }
            "DEL" => {
                let mut n = 0;
                for k in &a[1..] {
                    if self.strings.remove(k).is_some() | self.streams.remove(k).is_some() {
                        n += 1;
                    }
                }
                Resp::Int(n)
            }
            "EXISTS" => {
                let n = a[1..].iter().filter(|k| self.strings.contains_key(*k) || self.streams.contains_key(*k)).count();
                Resp::Int(n as i64)
            }
            "PEXPIRE" | "EXPIRE" => {
                if a.len() < 3 {
                    return wrong();
                }
                let unit = if name == "PEXPIRE" { 1 } else { 1000 };
                let Some(t) = int(&a[2]) else { return Resp::err("ERR value is not an integer or out of range") };
                let now = self.now_ms;
                match self.strings.get_mut(&a[1]) {
                    Some(v) => {
                        v.expires_at_ms = Some(now + (t.max(0) as u64) * unit);
                        Resp::Int(1)
                    }
                    None => Resp::Int(if self.streams.contains_key(&a[1]) { 1 } else { 0 }),
                }
            }
            "PTTL" => match self.strings.get(&a[1]) {
                Some(v) => Resp::Int(v.expires_at_ms.map(|e| e.saturating_sub(self.now_ms) as i64).unwrap_or(-1)),
                None => Resp::Int(-2),
            },
            "XLEN" => Resp::Int(self.streams.get(&a[1]).map(|s| s.entries.len()).unwrap_or(0) as i64),
            "XADD" => {
                // XADD key [NOMKSTREAM] [MAXLEN|MINID [=|~] n] <*|id> field value ...
                if a.len() < 5 {
                    return wrong();
                }
                let mut i = 2;
                let mut maxlen: Option<(bool, usize)> = None;
                loop {
                    match up(&a[i]).as_str() {
                        "NOMKSTREAM" => i += 1,
                        "MAXLEN" => {
                            i += 1;
                            let mut approx = false;
                            if a[i] == b"~" || a[i] == b"=" {
                                approx = a[i] == b"~";
                                i += 1;
                            }
                            match int(&a[i]) {
                                Some(n) if n >= 0 => maxlen = Some((approx, n as usize)),
                                _ => return Resp::err("ERR value is not an integer or out of range"),
                            }
                            i += 1;
                        }
                        _ => break,
                    }
                    if i >= a.len() {
                        return wrong();
                    }
                }
                let idarg = a[i].clone();
                i += 1;
                if (a.len() - i) == 0 || (a.len() - i) % 2 != 0 {
                    return wrong();
                }
                if self.strings.contains_key(&a[1]) {
                    return Resp::err("WRONGTYPE Operation against a key holding the wrong kind of value");
                }
                let now = self.now_ms;
                let st = self.streams.entry(a[1].clone()).or_default();
                let id = if idarg == b"*" {
                    if now > st.last_id.0 { (now, 0) } else { (st.last_id.0, st.last_id.1 + 1) }
                } else {
                    match parse_bound(&idarg, true) {
                        Some(id) if id > st.last_id => id,
                        Some(_) => {
                            return Resp::err(
                                "ERR The ID specified in XADD is equal or smaller than the target stream top item",
                            )
                        }
                        None => return Resp::err("ERR Invalid stream ID specified as stream command argument"),
                    }
                };
                let mut fields = Vec::new();
                while i + 1 < a.len() {
                    fields.push((a[i].clone(), a[i + 1].clone()));
                    i += 2;
                }
                st.entries.push(StreamEntry { id, fields });
                st.last_id = id;
                if let Some((approx, n)) = maxlen {
                    trim(st, approx, n);
                }
                Resp::Bulk(fmt_id(id))
            }
            "XTRIM" => {
                // XTRIM key MAXLEN [=|~] n
                if a.len() < 4 || up(&a[2]) != "MAXLEN" {
                    return Resp::err("ERR syntax error");
                }
                let mut i = 3;
                let mut approx = false;
                if a[i] == b"~" || a[i] == b"=" {
                    approx = a[i] == b"~";
                    i += 1;
                }
                let Some(n) = a.get(i).and_then(|x| int(x)) else {
                    return Resp::err("ERR value is not an integer or out of range");
                };
                match self.streams.get_mut(&a[1]) {
                    Some(st) => Resp::Int(trim(st, approx, n.max(0) as usize) as i64),
                    None => Resp::Int(0),
                }
            }
            "XRANGE" | "XREVRANGE" => {
                if a.len() < 4 {
                    return wrong();
                }
                let rev = name == "XREVRANGE";
                let (lo_arg, hi_arg) = if rev { (&a[3], &a[2]) } else { (&a[2], &a[3]) };
                let (Some(lo), Some(hi)) = (parse_bound(lo_arg, true), parse_bound(hi_arg, false)) else {
                    return Resp::err("ERR Invalid stream ID specified as stream command argument");
                };
                let mut count = usize::MAX;
                if a.len() >= 6 && up(&a[4]) == "COUNT" {
                    match int(&a[5]) {
                        Some(n) if n >= 0 => count = n as usize,
                        _ => return Resp::err("ERR value is not an integer or out of range"),
                    }
                } else if a.len() != 4 {
                    return Resp::err("ERR syntax error");
                }
                let mut out = Vec::new();
                if let Some(st) = self.streams.get(&a[1]) {
                    let it: Box<dyn Iterator<Item = &StreamEntry>> =
                        if rev { Box::new(st.entries.iter().rev()) } else { Box::new(st.entries.iter()) };
                    for e in it {
                        if out.len() >= count {
                            break;
                        }
                        if e.id >= lo && e.id <= hi {
                            out.push(entry_resp(e));
                        }
                    }
                }
                Resp::Array(out)
            }
            _ => Resp::Error(format!("ERR unknown command '{}'", String::from_utf8_lossy(&a[0]))),
        }
    }
}

/// MAXLEN trimming.  `~` is approximate in Redis: whole radix-tree nodes (100 entries by
/// default) are evicted, so fewer entries than requested may go; `=` is exact.
fn trim(st: &mut Stream, approx: bool, maxlen: usize) -> usize {
    if st.entries.len() <= maxlen {
        return 0;
    }
    let over = st.entries.len() - maxlen;
    let n = if approx { (over / 100) * 100 } else { over };
    st.entries.drain(0..n);
    n
}
