//! h-fakeredis: a scriptable stand-in for N independent Redis nodes, for driving the REAL
//! `RedisLeaderLeaseAdapter` of fuel-core without a redis-server.
//!
//! * RESP2 over localhost TCP, one listener per (node, client) so every request is attributed to
//!   the adapter instance that sent it.
//! * `EVALSHA`/`EVAL`/`SCRIPT LOAD` run the script's ACTUAL text (as sent by the client) in the
//!   mini Lua interpreter of `lua.rs`, against the node's store, while holding the node's lock.
//! * Virtual clock: nothing expires unless the scenario calls `Cluster::expire`.
//! * Every script request gets a fate: `Ok` (execute, reply), `Drop` (error reply, never
//!   executed), `Lost` (executed, error reply), `Hold` (error reply now, executed later by
//!   `Cluster::late_exec`).  In *gated* mode requests wait until the driver resolves them; in
//!   *auto* mode the fate comes from a per-(client, node) switch queue.
//! * Every resolution is logged by the node, while it holds its lock, with a global sequence
//!   number; the record itself is built by the harness-supplied `Projector`.

pub mod lua;
pub mod store;

pub use store::{Resp, Store};

use serde_json::{Value, json};
use std::{
    collections::{HashMap, VecDeque},
    io::{Read, Write},
    net::{Shutdown, TcpListener, TcpStream},
    sync::{
        Arc, Condvar, Mutex,
        atomic::{AtomicBool, AtomicU64, Ordering},
        mpsc,
    },
    time::{Duration, Instant},
};

#[derive(Clone, Debug, PartialEq, Eq, Hash)]
pub struct ClientId {
    pub r: String,
    pub i: u32,
}

#[derive(Clone, Copy, Debug, PartialEq, Eq)]
pub enum Fate {
    Ok,
    Drop,
    Lost,
    Hold,
}
impl Fate {
    pub fn name(self) -> &'static str {
        match self {
            Fate::Ok => "ok",
            Fate::Drop => "drop",
            Fate::Lost => "lost",
            Fate::Hold => "hold",
        }
    }
    pub fn parse(s: &str) -> Option<Fate> {
        Some(match s {
            "ok" => Fate::Ok,
            "drop" => Fate::Drop,
            "lost" => Fate::Lost,
            "hold" => Fate::Hold,
            _ => return None,
        })
    }
}

#[derive(Clone, Debug)]
pub struct ScriptCall {
    pub sha: String,
    /// name registered with `Cluster::register_script`, or "?" for an unknown text
    pub name: String,
    pub keys: Vec<Vec<u8>>,
    pub args: Vec<Vec<u8>>,
}

/// What the node hands to the projector for one resolved script request.
pub struct ExecInfo<'a> {
    pub node: usize,
    pub client: &'a ClientId,
    pub call: &'a ScriptCall,
    pub fate: Fate,
    /// execution of a previously held request
    pub late: bool,
    /// reply of the script if it was executed (fate Ok/Lost or late execution)
    pub reply: Option<&'a Resp>,
    /// node state after the resolution
    pub store: &'a Store,
}

pub trait Projector: Send + Sync {
    /// log record (a JSON object, `ev` and `seq` are added by the node) for one resolved request
    fn rpc(&self, info: &ExecInfo) -> Value;
    /// projection of a node's state for `expire` / `lose` records
    fn node_state(&self, node: usize, store: &Store) -> Value;
    /// auto mode: last word on the fate drawn from the switch queue (e.g. "a read-only script is
    /// never held"); `held` = requests currently held on all nodes
    fn adjust_fate(&self, _call: &ScriptCall, fate: Fate, _held: usize) -> Fate {
        fate
    }
}

#[derive(Clone, Debug)]
pub struct PendingInfo {
    pub node: usize,
    pub id: u64,
    pub client: ClientId,
    pub call: ScriptCall,
}

struct Pending {
    info: PendingInfo,
    reply_to: mpsc::Sender<Resp>,
}

struct NodeState {
    store: Store,
    scripts: HashMap<String, Arc<Vec<u8>>>,
    pending: Vec<Pending>,
    held: Vec<PendingInfo>,
}

struct Node {
    idx: usize,
    st: Mutex<NodeState>,
}

struct LogInner {
    events: Vec<Value>,
}

#[derive(Clone, Copy, PartialEq, Eq, Debug)]
pub enum Mode {
    Gated,
    Auto,
}

pub struct Cluster {
    nodes: Vec<Node>,
    seq: AtomicU64,
    log: Mutex<LogInner>,
    projector: Box<dyn Projector>,
    names: Mutex<HashMap<String, String>>,
    mode: Mutex<Mode>,
    switches: Mutex<HashMap<(ClientId, usize), VecDeque<Fate>>>,
    dead: Mutex<Vec<ClientId>>,
    /// signalled on every arrival of a gated request and on every call completion notice
    arrivals: (Mutex<u64>, Condvar),
    next_id: AtomicU64,
    shutdown: AtomicBool,
    socks: Mutex<Vec<(ClientId, TcpStream)>>,
    listeners: Mutex<Vec<u16>>,
    tool_errors: Mutex<Vec<String>>,
}

pub fn sha1_hex(b: &[u8]) -> String {
    sha1_smol::Sha1::from(b).digest().to_string()
}

impl Cluster {
    pub fn new(n: usize, projector: Box<dyn Projector>) -> Arc<Cluster> {
        Arc::new(Cluster {
            nodes: (0..n)
                .map(|idx| Node {
                    idx,
                    st: Mutex::new(NodeState {
                        store: Store { now_ms: 1_000_000, ..Default::default() },
                        scripts: HashMap::new(),
                        pending: Vec::new(),
                        held: Vec::new(),
                    }),
                })
                .collect(),
            seq: AtomicU64::new(0),
            log: Mutex::new(LogInner { events: Vec::new() }),
            projector,
            names: Mutex::new(HashMap::new()),
            mode: Mutex::new(Mode::Gated),
            switches: Mutex::new(HashMap::new()),
            dead: Mutex::new(Vec::new()),
            arrivals: (Mutex::new(0), Condvar::new()),
            next_id: AtomicU64::new(1),
            shutdown: AtomicBool::new(false),
            socks: Mutex::new(Vec::new()),
            listeners: Mutex::new(Vec::new()),
            tool_errors: Mutex::new(Vec::new()),
        })
    }

    pub fn node_count(&self) -> usize {
        self.nodes.len()
    }
    pub fn set_mode(&self, m: Mode) {
        *self.mode.lock().unwrap() = m;
    }
    /// Give a script text a name (classification only; clients still have to SCRIPT LOAD it).
    pub fn register_script(&self, name: &str, text: &[u8]) {
        self.names.lock().unwrap().insert(sha1_hex(text), name.to_string());
    }
    pub fn tool_errors(&self) -> Vec<String> {
        self.tool_errors.lock().unwrap().clone()
    }
    fn tool_error(&self, m: String) {
        self.tool_errors.lock().unwrap().push(m);
    }

    // ------------------------------------------------------------ event log
    /// Append a record; the global sequence number is taken while the log is locked, so the
    /// order of the log is the order of the sequence numbers.
    pub fn log_event(&self, ev: &str, fields: Value) {
        let mut g = self.log.lock().unwrap();
        let seq = self.seq.fetch_add(1, Ordering::SeqCst);
        let mut m = serde_json::Map::new();
        m.insert("ev".into(), json!(ev));
        m.insert("seq".into(), json!(seq));
        if let Value::Object(o) = fields {
            for (k, v) in o {
                m.insert(k, v);
            }
        }
        g.events.push(Value::Object(m));
    }
    pub fn take_log(&self) -> Vec<Value> {
        std::mem::take(&mut self.log.lock().unwrap().events)
    }

    // ------------------------------------------------------------ scenario controls
    /// TTL expiry of one key on one node (the lease key): the only way anything expires.
    pub fn expire(&self, node: usize, key: &[u8]) -> bool {
        let mut st = self.nodes[node].st.lock().unwrap();
        let was = st.store.expire_key(key);
        let proj = self.projector.node_state(node, &st.store);
        self.log_event("expire", json!({"n": node, "was": was, "st": proj}));
        was
    }
    /// Restart without persistence: keys and streams are gone.  Connections and the script cache
    /// are kept: a real restart would also cost the client a reconnect and a transparent
    /// NOSCRIPT -> SCRIPT LOAD round (exercised here at the first use of every script), neither
    /// of which changes what the scripts do.
    pub fn wipe(&self, node: usize) {
        let mut st = self.nodes[node].st.lock().unwrap();
        st.store.wipe();
        let proj = self.projector.node_state(node, &st.store);
        self.log_event("lose", json!({"n": node, "st": proj}));
    }
    pub fn advance_clock(&self, ms: u64) {
        for n in &self.nodes {
            n.st.lock().unwrap().store.now_ms += ms;
        }
    }
    /// Read-only access to a node's store (under its lock).
    pub fn with_store<T>(&self, node: usize, f: impl FnOnce(&Store) -> T) -> T {
        f(&self.nodes[node].st.lock().unwrap().store)
    }
    /// Auto mode: queue a fate for the next request of `client` on `node` (default: Ok).
    pub fn push_switch(&self, client: &ClientId, node: usize, fate: Fate) {
        self.switches.lock().unwrap().entry((client.clone(), node)).or_default().push_back(fate);
    }
    pub fn clear_switches(&self) {
        self.switches.lock().unwrap().clear();
    }

    /// Gated requests currently waiting (all clients).
    pub fn pending(&self) -> Vec<PendingInfo> {
        let mut out = Vec::new();
        for n in &self.nodes {
            out.extend(n.st.lock().unwrap().pending.iter().map(|p| p.info.clone()));
        }
        out
    }
    /// Every gated request accepted from now on gets an id >= this value.
    pub fn peek_next_id(&self) -> u64 {
        self.next_id.load(Ordering::SeqCst)
    }
    /// Forget a held request (it will never execute).
    pub fn drop_held(&self, node: usize, id: u64) -> bool {
        let mut st = self.nodes[node].st.lock().unwrap();
        match st.held.iter().position(|p| p.id == id) {
            Some(pos) => {
                st.held.remove(pos);
                true
            }
            None => false,
        }
    }
    pub fn held(&self) -> Vec<PendingInfo> {
        let mut out = Vec::new();
        for n in &self.nodes {
            out.extend(n.st.lock().unwrap().held.iter().cloned());
        }
        out
    }
    /// Wake up `wait_until` (used by harness threads when an adapter call returns).
    pub fn notify(&self) {
        let mut g = self.arrivals.0.lock().unwrap();
        *g += 1;
        self.arrivals.1.notify_all();
    }
    /// Block until `cond()` holds or the timeout elapses; re-evaluated on every arrival/notify.
    pub fn wait_until(&self, timeout: Duration, mut cond: impl FnMut() -> bool) -> bool {
        let deadline = Instant::now() + timeout;
        let mut g = self.arrivals.0.lock().unwrap();
        loop {
            // evaluate without holding the arrivals lock against node locks in the other order
            drop(g);
            if cond() {
                return true;
            }
            g = self.arrivals.0.lock().unwrap();
            let now = Instant::now();
            if now >= deadline {
                return false;
            }
            let start = *g;
            // short waits: an arrival between cond() and the wait is caught by the generation
            // counter or, at worst, by the 20 ms re-check
            let (g2, _) = self.arrivals.1.wait_timeout(g, (deadline - now).min(Duration::from_millis(20))).unwrap();
            g = g2;
            let _ = start;
        }
    }

    /// Resolve one gated request.  Executes (if the fate says so) and logs under the node lock.
    pub fn resolve(&self, node: usize, id: u64, fate: Fate) -> bool {
        let mut st = self.nodes[node].st.lock().unwrap();
        let Some(pos) = st.pending.iter().position(|p| p.info.id == id) else { return false };
        let p = st.pending.remove(pos);
        let reply = self.apply(&self.nodes[node], &mut st, &p.info, fate, false);
        let _ = p.reply_to.send(reply);
        true
    }
    /// Execute a held request now; its reply goes nowhere.
    pub fn late_exec(&self, node: usize, id: u64) -> bool {
        let mut st = self.nodes[node].st.lock().unwrap();
        let Some(pos) = st.held.iter().position(|p| p.id == id) else { return false };
        let info = st.held.remove(pos);
        self.apply(&self.nodes[node], &mut st, &info, Fate::Ok, true);
        true
    }

    /// The single place where a script request takes effect: under the node's lock, execute if
    /// the fate says so, log the record, return the reply for the client.
    fn apply(&self, node: &Node, st: &mut NodeState, info: &PendingInfo, fate: Fate, late: bool) -> Resp {
        let executed = late || matches!(fate, Fate::Ok | Fate::Lost);
        let result = if executed { Some(self.exec_script(st, &info.call)) } else { None };
        if fate == Fate::Hold && !late {
            st.held.push(info.clone());
        }
        let rec = self.projector.rpc(&ExecInfo {
            node: node.idx,
            client: &info.client,
            call: &info.call,
            fate,
            late,
            reply: result.as_ref(),
            store: &st.store,
        });
        self.log_event("rpc", rec);
        match fate {
            Fate::Ok => result.unwrap_or(Resp::Nil),
            Fate::Drop => Resp::err("FAULT request dropped before execution"),
            Fate::Lost => Resp::err("FAULT reply lost"),
            Fate::Hold => Resp::err("FAULT request timed out"),
        }
    }

    fn exec_script(&self, st: &mut NodeState, call: &ScriptCall) -> Resp {
        let Some(text) = st.scripts.get(&call.sha).cloned() else {
            // the node lost its script cache after the request was accepted (wipe): Redis would
            // answer NOSCRIPT to a late EVALSHA
            return Resp::err("NOSCRIPT No matching script. Please use EVAL.");
        };
        let script = match lua::Script::parse(&text) {
            Ok(s) => s,
            Err(e) => {
                self.tool_error(format!("lua parse ({}): {e:?}", call.name));
                return Resp::err("ERR fake redis: script outside the supported Lua subset");
            }
        };
        let store = &mut st.store;
        let mut unknown: Option<String> = None;
        let mut redis = |cmd: &[Vec<u8>]| -> Resp {
            let r = store.command(cmd);
            if let Resp::Error(m) = &r {
                if m.starts_with("ERR unknown command") {
                    unknown = Some(m.clone());
                }
            }
            r
        };
        match script.run(&call.keys, &call.args, &mut redis) {
            Ok(r) => {
                if let Some(u) = unknown {
                    self.tool_error(format!("script {} used an unsupported command: {u}", call.name));
                }
                r
            }
            Err(e) => {
                self.tool_error(format!("lua run ({}): {e:?}", call.name));
                Resp::err("ERR fake redis: script outside the supported Lua subset")
            }
        }
    }

    // ------------------------------------------------------------ networking
    /// Open a listener for `client` on `node`; returns the port.
    pub fn listen(self: &Arc<Self>, node: usize, client: ClientId) -> u16 {
        let l = TcpListener::bind("127.0.0.1:0").expect("bind");
        let port = l.local_addr().unwrap().port();
        self.listeners.lock().unwrap().push(port);
        let me = self.clone();
        std::thread::spawn(move || {
            for s in l.incoming() {
                if me.shutdown.load(Ordering::SeqCst) {
                    break;
                }
                let Ok(s) = s else { break };
                if me.dead.lock().unwrap().contains(&client) {
                    let _ = s.shutdown(Shutdown::Both);
                    continue;
                }
                let _ = s.set_nodelay(true);
                if let Ok(c) = s.try_clone() {
                    me.socks.lock().unwrap().push((client.clone(), c));
                }
                let me2 = me.clone();
                let cl = client.clone();
                std::thread::spawn(move || me2.serve(node, cl, s));
            }
        });
        port
    }

    /// A crashed adapter incarnation: its connections are cut, its waiting (unresolved) requests
    /// are discarded, new connections are refused.  Requests already held stay held.
    pub fn kill_client(&self, client: &ClientId) {
        self.dead.lock().unwrap().push(client.clone());
        for (c, s) in self.socks.lock().unwrap().iter() {
            if c == client {
                let _ = s.shutdown(Shutdown::Both);
            }
        }
        for n in &self.nodes {
            let mut st = n.st.lock().unwrap();
            let (mine, rest): (Vec<_>, Vec<_>) = std::mem::take(&mut st.pending).into_iter().partition(|p| &p.info.client == client);
            st.pending = rest;
            drop(mine); // dropping the senders wakes the connection threads with an error
        }
    }

    pub fn shutdown(&self) {
        self.shutdown.store(true, Ordering::SeqCst);
        for (_, s) in self.socks.lock().unwrap().drain(..) {
            let _ = s.shutdown(Shutdown::Both);
        }
        for n in &self.nodes {
            n.st.lock().unwrap().pending.clear();
        }
        // unblock the accept loops
        for p in self.listeners.lock().unwrap().drain(..) {
            let _ = TcpStream::connect_timeout(&format!("127.0.0.1:{p}").parse().unwrap(), Duration::from_millis(200));
        }
        self.notify();
    }

    fn serve(self: Arc<Self>, node: usize, client: ClientId, mut s: TcpStream) {
        let mut buf: Vec<u8> = Vec::new();
        let mut tmp = [0u8; 16384];
        loop {
            // parse as many complete commands as the buffer holds
            loop {
                match parse_command(&buf) {
                    Parse::Done(args, used) => {
                        buf.drain(..used);
                        let Some(reply) = self.dispatch(node, &client, args) else { return };
                        let mut out = Vec::new();
                        reply.encode(&mut out);
                        if s.write_all(&out).is_err() {
                            return;
                        }
                    }
                    Parse::Incomplete => break,
                    Parse::Bad => {
                        let _ = s.write_all(b"-ERR Protocol error\r\n");
                        return;
                    }
                }
            }
            match s.read(&mut tmp) {
                Ok(0) | Err(_) => return,
                Ok(n) => buf.extend_from_slice(&tmp[..n]),
            }
        }
    }

    /// One client command.  `None` = close the connection.
    fn dispatch(&self, node: usize, client: &ClientId, a: Vec<Vec<u8>>) -> Option<Resp> {
        if self.shutdown.load(Ordering::SeqCst) {
            return None;
        }
        let name = String::from_utf8_lossy(&a[0]).to_ascii_uppercase();
        let n = &self.nodes[node];
        match name.as_str() {
            "CLIENT" | "SELECT" | "READONLY" => Some(Resp::ok()),
            "HELLO" => Some(Resp::err("ERR unknown command 'HELLO'")),
            "QUIT" => None,
            "SCRIPT" => {
                let sub = a.get(1).map(|x| String::from_utf8_lossy(x).to_ascii_uppercase()).unwrap_or_default();
                let mut st = n.st.lock().unwrap();
                match sub.as_str() {
                    "LOAD" if a.len() == 3 => {
                        let sha = sha1_hex(&a[2]);
                        st.scripts.insert(sha.clone(), Arc::new(a[2].clone()));
                        Some(Resp::Bulk(sha.into_bytes()))
                    }
                    "EXISTS" => Some(Resp::Array(
                        a[2..]
                            .iter()
                            .map(|h| Resp::Int(st.scripts.contains_key(&String::from_utf8_lossy(h).to_lowercase()) as i64))
                            .collect(),
                    )),
                    "FLUSH" => {
                        st.scripts.clear();
                        Some(Resp::ok())
                    }
                    _ => Some(Resp::err("ERR unknown SCRIPT subcommand")),
                }
            }
            "EVAL" | "EVALSHA" => {
                if a.len() < 3 {
                    return Some(Resp::err("ERR wrong number of arguments for 'eval' command"));
                }
                let nkeys: usize = match std::str::from_utf8(&a[2]).ok().and_then(|s| s.parse().ok()) {
                    Some(k) if 3 + k <= a.len() => k,
                    _ => return Some(Resp::err("ERR Number of keys can't be greater than number of args")),
                };
                let sha = {
                    let mut st = n.st.lock().unwrap();
                    if name == "EVAL" {
                        let sha = sha1_hex(&a[1]);
                        st.scripts.insert(sha.clone(), Arc::new(a[1].clone()));
                        sha
                    } else {
                        let sha = String::from_utf8_lossy(&a[1]).to_lowercase();
                        if !st.scripts.contains_key(&sha) {
                            return Some(Resp::err("NOSCRIPT No matching script. Please use EVAL."));
                        }
                        sha
                    }
                };
                let call = ScriptCall {
                    name: self.names.lock().unwrap().get(&sha).cloned().unwrap_or_else(|| "?".into()),
                    sha,
                    keys: a[3..3 + nkeys].to_vec(),
                    args: a[3 + nkeys..].to_vec(),
                };
                let info = PendingInfo { node, id: self.next_id.fetch_add(1, Ordering::SeqCst), client: client.clone(), call };
                let mode = *self.mode.lock().unwrap();
                match mode {
                    Mode::Auto => {
                        let fate = self
                            .switches
                            .lock()
                            .unwrap()
                            .get_mut(&(client.clone(), node))
                            .and_then(|q| q.pop_front())
                            .unwrap_or(Fate::Ok);
                        let fate = self.projector.adjust_fate(&info.call, fate, self.held().len());
                        let mut st = n.st.lock().unwrap();
                        Some(self.apply(n, &mut st, &info, fate, false))
                    }
                    Mode::Gated => {
                        let (tx, rx) = mpsc::channel();
                        n.st.lock().unwrap().pending.push(Pending { info, reply_to: tx });
                        self.notify();
                        // wait for the driver's decision; a dropped sender (crash / shutdown) closes
                        rx.recv().ok()
                    }
                }
            }
            _ => {
                let mut st = n.st.lock().unwrap();
                Some(st.store.command(&a))
            }
        }
    }
}

enum Parse {
    Done(Vec<Vec<u8>>, usize),
    Incomplete,
    Bad,
}

fn read_line(b: &[u8], from: usize) -> Option<(&[u8], usize)> {
    let rest = &b[from..];
    let p = rest.windows(2).position(|w| w == b"\r\n")?;
    Some((&rest[..p], from + p + 2))
}

/// RESP2 request: an array of bulk strings.
fn parse_command(b: &[u8]) -> Parse {
    if b.is_empty() {
        return Parse::Incomplete;
    }
    if b[0] != b'*' {
        // inline command
        return match read_line(b, 0) {
            Some((line, used)) => {
                let args: Vec<Vec<u8>> = line.split(|c| *c == b' ').filter(|x| !x.is_empty()).map(|x| x.to_vec()).collect();
                if args.is_empty() { Parse::Bad } else { Parse::Done(args, used) }
            }
            None => Parse::Incomplete,
        };
    }
    let Some((line, mut pos)) = read_line(b, 1) else { return Parse::Incomplete };
    let Some(n) = std::str::from_utf8(line).ok().and_then(|s| s.parse::<usize>().ok()) else { return Parse::Bad };
    let mut args = Vec::with_capacity(n);
    for _ in 0..n {
        if pos >= b.len() {
            return Parse::Incomplete;
        }
        if b[pos] != b'$' {
            return Parse::Bad;
        }
        let Some((line, p2)) = read_line(b, pos + 1) else { return Parse::Incomplete };
        let Some(len) = std::str::from_utf8(line).ok().and_then(|s| s.parse::<usize>().ok()) else { return Parse::Bad };
        if b.len() < p2 + len + 2 {
            return Parse::Incomplete;
        }
        args.push(b[p2..p2 + len].to_vec());
        pos = p2 + len + 2;
    }
    if args.is_empty() { Parse::Bad } else { Parse::Done(args, pos) }
}
