//! Shared plumbing of the verification harnesses: walk input, trace output, CLI parsing,
//! a tiny deterministic RNG and panic capture.  Harness binaries are *action interpreters*:
//! they execute action sequences on the real fuel-core objects and log one event per action
//! with its arguments, its result and the projected abstract state.  All judging is done by
//! TLC on those traces (see /verif/DESIGN.md section 3).

use serde_json::{Map, Value};
use std::{
    fs::File,
    io::{BufRead, BufReader, BufWriter, Write},
    panic::{catch_unwind, AssertUnwindSafe},
};

pub use serde_json::json;

/// One walk: an id and a list of steps; each step is a JSON object with key "a" (action name).
pub struct Walk {
    pub id: i64,
    pub steps: Vec<Map<String, Value>>,
}

pub fn read_walks(path: &str) -> Vec<Walk> {
    let f = BufReader::new(File::open(path).unwrap_or_else(|e| die(&format!("open {path}: {e}"))));
    let mut out = Vec::new();
    for line in f.lines() {
        let line = line.unwrap();
        if line.trim().is_empty() {
            continue;
        }
        let v: Value = serde_json::from_str(&line).unwrap_or_else(|e| die(&format!("walk json: {e}")));
        let id = v["id"].as_i64().unwrap_or(0);
        let steps = v["steps"]
            .as_array()
            .unwrap_or_else(|| die("walk without steps"))
            .iter()
            .map(|s| s.as_object().cloned().unwrap_or_else(|| die("step is not an object")))
            .collect();
        out.push(Walk { id, steps });
    }
    out
}

pub fn die(msg: &str) -> ! {
    eprintln!("harness error: {msg}");
    std::process::exit(3)
}

/// ndjson trace writer.  Key order matters only for the first key: every walk starts with
/// `{"ev":"reset",...` which the tooling uses to split concatenated traces.
pub struct Trace {
    w: BufWriter<File>,
    pub events: u64,
}

impl Trace {
    pub fn create(path: &str) -> Self {
        Trace {
            w: BufWriter::new(File::create(path).unwrap_or_else(|e| die(&format!("create {path}: {e}")))),
            events: 0,
        }
    }
    pub fn reset(&mut self, walk: i64, extra: Value) {
        let mut s = format!("{{\"ev\":\"reset\",\"walk\":{walk}");
        if let Value::Object(m) = extra {
            for (k, v) in m {
                s.push_str(&format!(",{}:{}", Value::String(k), v));
            }
        }
        s.push('}');
        writeln!(self.w, "{s}").unwrap();
        self.events += 1;
    }
    /// `ev` first, then the remaining fields.
    pub fn event(&mut self, ev: &str, fields: Value) {
        let mut s = format!("{{\"ev\":{}", Value::String(ev.to_string()));
        if let Value::Object(m) = fields {
            for (k, v) in m {
                s.push_str(&format!(",{}:{}", Value::String(k), v));
            }
        }
        s.push('}');
        writeln!(self.w, "{s}").unwrap();
        self.events += 1;
    }
    pub fn finish(mut self) {
        self.w.flush().unwrap();
    }
}

/// Step argument accessors (abort with a harness error on malformed walks).
pub trait StepExt {
    fn name(&self) -> &str;
    fn int(&self, k: &str) -> i64;
    fn str_(&self, k: &str) -> &str;
    fn boolean(&self, k: &str) -> bool;
    fn ints(&self, k: &str) -> Vec<i64>;
}
impl StepExt for Map<String, Value> {
    fn name(&self) -> &str {
        self.get("a").and_then(|v| v.as_str()).unwrap_or_else(|| die("step without action name"))
    }
    fn int(&self, k: &str) -> i64 {
        self.get(k).and_then(|v| v.as_i64()).unwrap_or_else(|| die(&format!("step arg {k} missing/not int: {self:?}")))
    }
    fn str_(&self, k: &str) -> &str {
        self.get(k).and_then(|v| v.as_str()).unwrap_or_else(|| die(&format!("step arg {k} missing/not string: {self:?}")))
    }
    fn boolean(&self, k: &str) -> bool {
        self.get(k).and_then(|v| v.as_bool()).unwrap_or_else(|| die(&format!("step arg {k} missing/not bool: {self:?}")))
    }
    fn ints(&self, k: &str) -> Vec<i64> {
        self.get(k)
            .and_then(|v| v.as_array())
            .unwrap_or_else(|| die(&format!("step arg {k} missing/not array: {self:?}")))
            .iter()
            .map(|x| x.as_i64().unwrap_or_else(|| die("array item not int")))
            .collect()
    }
}

/// Run `f`, turning a panic of the code under test into data.
pub fn guarded<T>(f: impl FnOnce() -> T) -> Result<T, String> {
    let prev = std::panic::take_hook();
    std::panic::set_hook(Box::new(|_| {}));
    let r = catch_unwind(AssertUnwindSafe(f));
    std::panic::set_hook(prev);
    r.map_err(|e| {
        if let Some(s) = e.downcast_ref::<&str>() {
            s.to_string()
        } else if let Some(s) = e.downcast_ref::<String>() {
            s.clone()
        } else {
            "panic".to_string()
        }
    })
}

/// CLI: `<bin> <mode> [--key value]...`
pub struct Args {
    pub mode: String,
    kv: Vec<(String, String)>,
}
impl Args {
    pub fn parse() -> Self {
        let mut it = std::env::args().skip(1);
        let mode = it.next().unwrap_or_else(|| die("usage: <bin> <mode> [--key value]..."));
        let mut kv = Vec::new();
        while let Some(k) = it.next() {
            let k = k.trim_start_matches("--").to_string();
            let v = it.next().unwrap_or_else(|| die(&format!("missing value for --{k}")));
            kv.push((k, v));
        }
        Args { mode, kv }
    }
    pub fn get(&self, k: &str) -> Option<&str> {
        self.kv.iter().find(|(a, _)| a == k).map(|(_, v)| v.as_str())
    }
    pub fn req(&self, k: &str) -> &str {
        self.get(k).unwrap_or_else(|| die(&format!("missing --{k}")))
    }
    pub fn num(&self, k: &str, default: u64) -> u64 {
        self.get(k).map(|v| v.parse().unwrap_or_else(|_| die(&format!("--{k} not a number")))).unwrap_or(default)
    }
}

pub fn env_seed() -> u64 {
    std::env::var("VERIF_SEED").ok().and_then(|s| s.parse().ok()).unwrap_or(0)
}

/// SplitMix64: tiny deterministic RNG for the seeded drivers.
#[derive(Clone)]
pub struct Rng(pub u64);
impl Rng {
    pub fn new(seed: u64) -> Self {
        Rng(seed.wrapping_mul(0x9E3779B97F4A7C15).wrapping_add(0x1234_5678_9ABC_DEF1))
    }
    pub fn next(&mut self) -> u64 {
        self.0 = self.0.wrapping_add(0x9E3779B97F4A7C15);
        let mut z = self.0;
        z = (z ^ (z >> 30)).wrapping_mul(0xBF58476D1CE4E5B9);
        z = (z ^ (z >> 27)).wrapping_mul(0x94D049BB133111EB);
        z ^ (z >> 31)
    }
    /// uniform in 0..n (n > 0)
    pub fn below(&mut self, n: u64) -> u64 {
        self.next() % n
    }
    pub fn range(&mut self, lo: i64, hi_incl: i64) -> i64 {
        lo + (self.below((hi_incl - lo + 1) as u64) as i64)
    }
    pub fn chance(&mut self, num: u64, den: u64) -> bool {
        self.below(den) < num
    }
    pub fn pick<'a, T>(&mut self, xs: &'a [T]) -> &'a T {
        &xs[self.below(xs.len() as u64) as usize]
    }
}
