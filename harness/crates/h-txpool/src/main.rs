//! Harness for fuel-core-txpool (C16-C21): executes action sequences on the REAL PoolWorker /
//! Pool<GraphStorage, BasicCollisionManager, RatioTipGasSelection> / PendingPool through the
//! `verif::SyncPool` hook and logs one ndjson event per action (arguments, results, squeezed-out
//! notifications, projected private state).  It asserts nothing; TLC judges the traces.
mod world;

use fuel_core_txpool::{
    error::{CollisionReason, DependencyError, Error, InputValidationError},
    verif::{Config, Constraints, InsertOutcome, MissingKey, Snapshot, SpentKey, StatusEvent, SyncPool},
};
use fuel_core_types::{
    blockchain::{block::Block, consensus::Sealed},
    fuel_tx::TxPointer,
    fuel_types::BlockHeight,
    services::{
        block_importer::ImportResult,
        executor::{TransactionExecutionResult, TransactionExecutionStatus},
        transaction_status::{PreConfirmationStatus, statuses},
    },
};
use h_common::*;
use serde_json::{Map, Value};
use std::{collections::BTreeSet, sync::Arc, time::Duration};
use world::*;

fn kind_of(e: &Error) -> String {
    match e {
        Error::InputValidation(v) => match v {
            InputValidationError::DuplicateTxId(_) => "DuplicateTxId".into(),
            InputValidationError::MaxGasZero => "MaxGasZero".into(),
            InputValidationError::NotInsertedBlobIdAlreadyTaken(_) => "BlobTaken".into(),
            InputValidationError::NotInsertedIoCoinMismatch => "CoinMismatch".into(),
            InputValidationError::NotInsertedIoMessageMismatch => "MsgMismatch".into(),
            InputValidationError::NotInsertedInputMessageUnknown(_) => "MsgUnknown".into(),
            InputValidationError::NotInsertedIoWrongAmount => "IoWrongAmount".into(),
            InputValidationError::NotInsertedIoWrongOwner => "IoWrongOwner".into(),
            InputValidationError::NotInsertedIoWrongAssetId => "IoWrongAssetId".into(),
            InputValidationError::UtxoNotFound(_) => "UtxoNotFound".into(),
            InputValidationError::NotInsertedInputContractDoesNotExist(_) => "ContractNotFound".into(),
            other => format!("Other:{other}"),
        },
        Error::UtxoInputWasAlreadySpent(_) => "UtxoSpent".into(),
        Error::MessageInputWasAlreadySpent(_) => "MsgSpent".into(),
        Error::Dependency(DependencyError::NotInsertedCollisionIsDependency) => "CollisionIsDependency".into(),
        Error::Dependency(_) => "Dep".into(),
        Error::Collided(CollisionReason::Unknown) => "CollidedUnknown".into(),
        Error::Collided(_) => "Collided".into(),
        Error::NotInsertedLimitHit => "LimitHit".into(),
        other => format!("Other:{other}"),
    }
}

struct Sim {
    w: Arc<World>,
    pool: SyncPool<MockDb>,
    db: MockDb,
    abs: AbsDb,
    /// preconfirmations applied and not yet reconciled (driver bookkeeping for the environment's rules)
    pre: Vec<(u32, String)>,
    /// transactions handed out by extraction and not settled (driver bookkeeping, to aim blocks/preconfs)
    handed: Vec<String>,
}

impl Sim {
    fn new(w: Arc<World>) -> Self {
        let db = MockDb::default();
        let abs = w.u.init_db.clone();
        w.sync_db(&db, &abs);
        let c = &w.u.consts;
        let mut config = Config::default();
        config.utxo_validation = true;
        config.max_txs_chain_count = c.chain_limit;
        config.pool_limits.max_txs = c.max_txs;
        config.pool_limits.max_gas = c.max_gas * GAS_U;
        config.pool_limits.max_bytes_size = c.max_size * SIZE_U;
        config.max_pending_pool_size_percentage = c.pending_pct;
        config.pending_pool_tx_ttl = Duration::ZERO;
        config.metrics = false;
        let pool = SyncPool::new(config, Arc::new(MockDbProvider(db.clone())), BlockHeight::new(0));
        Sim { w, pool, db, abs, pre: vec![], handed: vec![] }
    }

    fn squeezed(&mut self) -> Value {
        let evs = self.pool.take_status_events();
        Value::Array(
            evs.iter()
                .filter_map(|e| match e {
                    StatusEvent::SqueezedOut(id, _) => Some(Value::String(self.w.name_of_tx(id))),
                    _ => None,
                })
                .collect(),
        )
    }

    fn notes(&self, out: &[InsertOutcome]) -> Value {
        Value::Array(
            out.iter()
                .map(|o| match o {
                    InsertOutcome::Inserted(id) => json!([self.w.name_of_tx(id), "Ok"]),
                    InsertOutcome::Rejected(id, e) => json!([self.w.name_of_tx(id), kind_of(e)]),
                })
                .collect(),
        )
    }

    /// Result of a top-level insertion of `name`: its own notification (none = pending pool).
    fn insert_result(&self, name: &str, out: &[InsertOutcome]) -> (String, Value) {
        let id = self.w.txs[name].id;
        let mut res = "Pending".to_string();
        let mut rest = vec![];
        for o in out {
            match o {
                InsertOutcome::Inserted(i) if *i == id && res == "Pending" => res = "Ok".into(),
                InsertOutcome::Rejected(i, e) if *i == id && res == "Pending" => res = kind_of(e),
                other => rest.push(other.clone()),
            }
        }
        (res, self.notes(&rest))
    }

    fn key(&self, k: &SpentKey) -> String {
        match k {
            SpentKey::Tx(id) => self.w.name_of_tx(id),
            SpentKey::Utxo(u) => self.w.name_of_coin(u),
            SpentKey::Message(n) => self.w.name_of_msg(n),
        }
    }

    fn unit(v: u64, u: u64) -> Value {
        if v % u == 0 { json!(v / u) } else { json!(format!("raw:{v}")) }
    }

    fn state(&mut self) -> Value {
        let s: Snapshot = self.pool.snapshot();
        let w = &self.w;
        let sorted = |mut v: Vec<String>| {
            v.sort();
            v
        };
        let mut deps: Vec<(String, String)> = vec![];
        let mut cum = Map::new();
        for n in &s.nodes {
            let name = w.name_of_tx(&n.tx_id);
            for d in &n.dependents {
                deps.push((name.clone(), w.name_of_tx(d)));
            }
            cum.insert(
                name,
                json!({"tip": Self::unit(n.cumulative_tip, TIP_U), "gas": Self::unit(n.cumulative_gas, GAS_U),
                       "size": Self::unit(n.cumulative_bytes as u64, SIZE_U as u64), "n": n.chain_count}),
            );
        }
        deps.sort();
        let keymap = |m: &Vec<(fuel_core_types::fuel_tx::TxId, Vec<SpentKey>)>| {
            let mut o = Map::new();
            for (id, ks) in m {
                o.insert(w.name_of_tx(id), Value::Array(ks.iter().map(|k| Value::String(self.key(k))).collect()));
            }
            Value::Object(o)
        };
        let mut xcon = Map::new();
        for (c, t) in &s.extracted_contracts {
            xcon.insert(w.name_of_contract(c), Value::String(w.name_of_tx(t)));
        }
        let mut xby = Map::new();
        for (t, cs) in &s.extracted_contracts_by_tx {
            let set: BTreeSet<String> = cs.iter().map(|c| w.name_of_contract(c)).collect();
            xby.insert(w.name_of_tx(t), json!(set));
        }
        let mut tpre: Vec<(u32, String)> = vec![];
        for (h, txs) in &s.tentative_preconfs {
            for t in txs {
                tpre.push((**h, w.name_of_tx(t)));
            }
        }
        tpre.sort();
        let mut pend = Map::new();
        for (t, ms) in &s.pending {
            pend.insert(
                w.name_of_tx(t),
                Value::Array(
                    ms.iter()
                        .map(|m| match m {
                            MissingKey::Utxo(u) => json!({"k": "coin", "key": w.name_of_coin(u)}),
                            MissingKey::Contract(c) => json!({"k": "contract", "key": w.name_of_contract(c)}),
                        })
                        .collect(),
                ),
            );
        }
        // derived caches (collision manager, graph creators): logged for the strict-mode consistency check
        let mut cs = Map::new();
        for (u, t) in &s.coin_spenders {
            cs.insert(w.name_of_coin(u), Value::String(w.name_of_tx(t)));
        }
        let mut ms = Map::new();
        for (n, t) in &s.message_spenders {
            ms.insert(w.name_of_msg(n), Value::String(w.name_of_tx(t)));
        }
        let mut cc = Map::new();
        for (c, t) in &s.contract_creators_cm {
            cc.insert(w.name_of_contract(c), Value::String(w.name_of_tx(t)));
        }
        let mut cu = Map::new();
        for (c, ts) in &s.contract_users {
            cu.insert(w.name_of_contract(c), json!(sorted(ts.iter().map(|t| w.name_of_tx(t)).collect())));
        }
        json!({
            "pool": sorted(s.nodes.iter().map(|n| w.name_of_tx(&n.tx_id)).collect()),
            "ids": sorted(s.tx_ids.iter().map(|t| w.name_of_tx(t)).collect()),
            "deps": deps,
            "exec": sorted(s.executable.iter().map(|t| w.name_of_tx(t)).collect()),
            "execorder": s.executable.iter().map(|t| w.name_of_tx(t)).collect::<Vec<_>>(),
            "cum": cum,
            "stats": {"count": s.reported_stats.0, "gas": Self::unit(s.reported_stats.1, GAS_U),
                      "size": Self::unit(s.reported_stats.2, SIZE_U as u64)},
            "cur": {"gas": Self::unit(s.current.0, GAS_U), "size": Self::unit(s.current.1 as u64, SIZE_U as u64)},
            "lru": s.spent_lru.iter().map(|k| self.key(k)).collect::<Vec<_>>(),
            "cap": s.spent_capacity,
            "spender": keymap(&s.spender_of_inputs),
            "tentative": keymap(&s.tentative_spent),
            "xcoins": sorted(s.extracted_coins.iter().map(|u| w.name_of_coin(u)).collect()),
            "xcon": xcon,
            "xby": xby,
            "tpre": tpre,
            "height": *s.canonical_height,
            "pend": pend,
            "pstats": {"count": s.pending_stats.0, "gas": Self::unit(s.pending_stats.1, GAS_U),
                       "size": Self::unit(s.pending_stats.2 as u64, SIZE_U as u64)},
            "queue": s.queued_inserts.iter().map(|t| w.name_of_tx(t)).collect::<Vec<_>>(),
            "cs": cs, "ms": ms, "cc": cc, "cu": cu, "bl": s.blob_users,
            "gcoins": sorted(s.coin_creators.iter().map(|u| w.name_of_coin(u)).collect()),
            "gcon": sorted(s.contract_creators.iter().map(|c| w.name_of_contract(c)).collect()),
        })
    }

    // ------------------------------------------------------------------ actions

    fn insert(&mut self, t: &mut Trace, name: &str) {
        let tx = self.w.txs.get(name).unwrap_or_else(|| die(&format!("unknown tx {name}"))).pool_tx.clone();
        let out = self.pool.insert(tx);
        let (res, notes) = self.insert_result(name, &out);
        let sq = self.squeezed();
        t.event("Insert", json!({"t": name, "res": res, "sq": sq, "notes": notes, "st": self.state()}));
    }

    fn insert_queued(&mut self, t: &mut Trace) {
        match self.pool.process_queued_insert() {
            None => t.event("InsertQueued", json!({"t": "none", "res": "empty", "sq": [], "notes": [], "st": self.state()})),
            Some((id, out)) => {
                let name = self.w.name_of_tx(&id);
                let (res, notes) = self.insert_result(&name, &out);
                let sq = self.squeezed();
                t.event("InsertQueued", json!({"t": name, "res": res, "sq": sq, "notes": notes, "st": self.state()}));
            }
        }
    }

    fn extract(&mut self, t: &mut Trace, c: usize) {
        let k = self.w.u.cstr.get(c - 1).unwrap_or_else(|| die("constraint index")).clone();
        let constraints = Constraints {
            minimal_gas_price: k.price,
            max_gas: k.gas * GAS_U,
            maximum_txs: k.txs.min(u16::MAX as u64) as u16,
            maximum_block_size: (k.size * SIZE_U as u64).min(u32::MAX as u64) as u32,
            excluded_contracts: k.excl.iter().filter_map(|c| self.w.contract.get(c).copied()).collect(),
        };
        let txs = self.pool.extract_block_transactions(constraints);
        let res: Vec<String> = txs.iter().map(|x| self.w.name_of_tx(&x.id())).collect();
        self.handed.extend(res.iter().cloned());
        let sq = self.squeezed();
        t.event("Extract", json!({"c": c, "res": res, "sq": sq, "notes": [], "st": self.state()}));
    }

    fn block(&mut self, t: &mut Trace, txs: &[String], h: u32) {
        // the importer commits the database first, then the pool is told about the block
        for x in txs {
            let u = &self.w.u;
            u.apply(&mut self.abs, x);
        }
        self.w.sync_db(&self.db, &self.abs);
        let mut block = Block::default();
        block.header_mut().set_block_height(BlockHeight::new(h));
        let mut statuses = vec![];
        for x in txs {
            let real = &self.w.txs[x];
            block.transactions_mut().push(real.tx.clone());
            statuses.push(TransactionExecutionStatus {
                id: real.id,
                result: TransactionExecutionResult::Success { result: None, receipts: Arc::new(vec![]), total_gas: 0, total_fee: 0 },
            });
        }
        let sealed = Sealed { entity: block, consensus: Default::default() };
        let result = Arc::new(ImportResult::new_from_local(sealed, statuses, vec![]).wrap());
        let out = self.pool.process_block(result);
        self.pre.retain(|(ph, _)| *ph > h);
        self.handed.retain(|x| !txs.contains(x));
        let notes = self.notes(&out);
        let sq = self.squeezed();
        t.event("Block", json!({"txs": txs, "h": h, "res": "done", "sq": sq, "notes": notes, "st": self.state()}));
    }

    fn preconf(&mut self, t: &mut Trace, name: &str, kind: &str, outs: bool, h: u32) {
        let id = self.w.txs[name].id;
        let before = *self.pool.snapshot().canonical_height;
        let resolved = outs.then(|| self.w.template_outputs(name));
        let pointer = TxPointer::new(BlockHeight::new(h), 0);
        let status = match kind {
            "S" => PreConfirmationStatus::Success(
                statuses::PreConfirmationSuccess { tx_pointer: pointer, total_gas: 0, total_fee: 0, receipts: None, resolved_outputs: resolved }
                    .into(),
            ),
            "F" => PreConfirmationStatus::Failure(
                statuses::PreConfirmationFailure {
                    tx_pointer: pointer,
                    total_gas: 0,
                    total_fee: 0,
                    receipts: None,
                    resolved_outputs: resolved,
                    reason: "failed".into(),
                }
                .into(),
            ),
            "Q" => PreConfirmationStatus::SqueezedOut(statuses::PreConfirmationSqueezedOut { reason: "skipped".into() }.into()),
            other => die(&format!("preconf kind {other}")),
        };
        let out = self.pool.process_preconfirmed_transaction(id, status);
        let late = kind != "Q" && h <= before;
        if kind == "Q" {
            self.handed.retain(|x| x != name);
        } else if !late {
            self.pre.push((h, name.to_string()));
        }
        let notes = self.notes(&out);
        let sq = self.squeezed();
        t.event(
            "Preconf",
            json!({"t": name, "kind": kind, "outs": outs, "h": h, "res": if late { "late" } else { "done" },
                   "sq": sq, "notes": notes, "st": self.state()}),
        );
    }

    fn expire(&mut self, t: &mut Trace, ids: &[String]) {
        let real = ids.iter().map(|x| self.w.txs[x].id).collect();
        self.pool.remove_expired_transactions(real);
        let sq = self.squeezed();
        t.event("Expire", json!({"ids": ids, "res": "done", "sq": sq, "notes": [], "st": self.state()}));
    }

    fn expire_pending(&mut self, t: &mut Trace) {
        let out = self.pool.expire_pending();
        let notes = self.notes(&out);
        let sq = self.squeezed();
        t.event("ExpirePending", json!({"res": "done", "sq": sq, "notes": notes, "st": self.state()}));
    }
}

fn strs(v: &Value) -> Vec<String> {
    v.as_array().map(|a| a.iter().filter_map(|x| x.as_str().map(String::from)).collect()).unwrap_or_default()
}

fn load_world(args: &Args) -> Arc<World> {
    Arc::new(World::build(Universe::load(args.req("universe"))))
}

fn run(args: &Args) {
    let w = load_world(args);
    let walks = read_walks(args.req("walks"));
    let mut t = Trace::create(args.req("out"));
    for walk in walks {
        t.reset(walk.id, json!({}));
        let mut sim = Sim::new(w.clone());
        for s in &walk.steps {
            let r = guarded(|| match s.name() {
                "Insert" => sim.insert(&mut t, s.str_("t")),
                "InsertQueued" => sim.insert_queued(&mut t),
                "Extract" => sim.extract(&mut t, s.int("c") as usize),
                "Block" => sim.block(&mut t, &strs(&s["txs"]), s.int("h") as u32),
                "Preconf" => sim.preconf(&mut t, s.str_("t"), s.str_("kind"), s.boolean("outs"), s.int("h") as u32),
                "Expire" => sim.expire(&mut t, &strs(&s["ids"])),
                "ExpirePending" => sim.expire_pending(&mut t),
                other => die(&format!("unknown action {other}")),
            });
            if let Err(p) = r {
                // a panic of the code under test is data; the pool object may be inconsistent afterwards
                t.event("Panic", json!({"a": s.name(), "msg": p}));
                break;
            }
        }
    }
    t.finish();
}

/// Seeded random interleavings of all commands (I->S).  The driver respects the environment rules of the
/// specification: blocks are valid on the chain view and do not contain transactions preconfirmed for a
/// later height; success/failure preconfirmations for a future height concern transactions whose inputs
/// are not produced by transactions still in this pool and that are not on the chain yet.
fn random(args: &Args) {
    let w = load_world(args);
    let n = args.num("walks", 100);
    let len = args.num("len", 40);
    let mut rng = Rng::new(env_seed() ^ 0x7001);
    let names: Vec<String> = w.u.order.clone();
    let mut t = Trace::create(args.req("out"));
    for walk in 0..n {
        t.reset(walk as i64, json!({}));
        let mut sim = Sim::new(w.clone());
        // a per-walk bias: which transactions this walk mostly plays with
        let focus: Vec<String> = (0..7).map(|_| rng.pick(&names).clone()).collect();
        let mut steps = 0;
        // every third walk starts from a directed preamble building a shape the properties talk about, then
        // continues randomly.  Steps: I:<tx> insert, X:<c> extract with constraint c, S|F:<tx>:<dh>:<o|n>
        // preconfirmation at height tip+dh with/without outputs, Q:<tx> squeezed-out preconfirmation,
        // B:<tx>,.. block at the next height (invalid / excluded transactions are left out), E:<tx> expiry.
        // Steps naming transactions missing from the universe are skipped.
        const PREAMBLES: [&[&str]; 14] = [
            &["I:t1", "I:t2", "I:t14"],                               // chain
            &["I:t1", "I:t6", "I:t19"],                               // two parents
            &["I:t8", "I:t9"],                                        // contract dependency
            &["I:t16", "I:t18", "I:t17"],                             // blob parent, blob collision
            &["I:t1", "I:t2", "I:t5", "I:t4"],                        // collision with a subtree
            &["I:t6", "I:t19", "I:t1"],                               // parent arriving late
            &["I:t1", "I:t2", "I:t20", "X:8"],                        // fan-out, count-limited extraction
            &["I:t1", "I:t2", "I:t20", "X:3", "Q:t1"],                // parent handed out alone, then skipped
            &["I:t1", "I:t21", "X:3", "Q:t1"],                        // one child spending two outputs, parent skipped
            &["I:t1", "S:t1:1:n", "S:t1:1:o", "B:", "I:t1"],          // preconfirmed twice, omitted, resubmitted
            &["I:t4", "X:1", "S:t4:1:o", "F:t4:1:n", "B:", "I:t4"],   // extracted, preconfirmed twice, omitted
            &["I:t1", "I:t2", "X:3", "S:t1:1:o", "I:t20", "B:", "I:t1"], // rollback with dependents
            &["I:t1", "I:t20", "I:t2", "X:3", "E:t2", "B:t1"],        // handed out, committed
            &["I:t8", "X:1", "S:t8:2:o", "I:t9", "B:", "B:"],         // preconfirmed contract creation rolled back
        ];
        if walk % 3 == 0 {
            for step in PREAMBLES[(walk as usize / 3) % PREAMBLES.len()] {
                let f: Vec<&str> = step.split(':').collect();
                let height = *sim.pool.snapshot().canonical_height;
                let known = |x: &str| w.txs.contains_key(x);
                match f[0] {
                    "I" if known(f[1]) => sim.insert(&mut t, f[1]),
                    "X" if f[1].parse::<usize>().map(|c| c <= w.u.cstr.len()).unwrap_or(false) => {
                        sim.extract(&mut t, f[1].parse().unwrap())
                    }
                    "S" | "F" if known(f[1]) => {
                        sim.preconf(&mut t, f[1], f[0], f[3] == "o", height + f[2].parse::<u32>().unwrap_or(1))
                    }
                    "Q" if known(f[1]) => sim.preconf(&mut t, f[1], "Q", false, height),
                    "E" if known(f[1]) => sim.expire(&mut t, &[f[1].to_string()]),
                    "B" => {
                        let h = height + 1;
                        let mut db = sim.abs.clone();
                        let mut txs = vec![];
                        for x in f[1].split(',').filter(|x| !x.is_empty()) {
                            if known(x) && w.u.valid_on(&db, x) && !sim.pre.iter().any(|(ph, pt)| *ph > h && pt == x) {
                                w.u.apply(&mut db, x);
                                txs.push(x.to_string());
                            }
                        }
                        sim.block(&mut t, &txs, h)
                    }
                    _ => continue,
                }
                steps += 1;
            }
        }
        while steps < len {
            steps += 1;
            let snap = sim.pool.snapshot();
            let in_pool: Vec<String> = snap.tx_ids.iter().map(|i| w.name_of_tx(i)).collect();
            let height = *snap.canonical_height;
            if !snap.queued_inserts.is_empty() && rng.chance(2, 3) {
                sim.insert_queued(&mut t);
                continue;
            }
            let pick_tx = |rng: &mut Rng| -> String {
                if rng.chance(3, 4) { rng.pick(&focus).clone() } else { rng.pick(&names).clone() }
            };
            let r = guarded(|| match rng.below(100) {
                0..=59 => {
                    let x = pick_tx(&mut rng);
                    sim.insert(&mut t, &x)
                }
                60..=67 => {
                    let c = 1 + rng.below(w.u.cstr.len() as u64) as usize;
                    // mostly unconstrained extraction so that hand-outs happen; with dependencies in the pool
                    // often a finite transaction count, so that promoted dependents meet a partly used budget
                    let has_deps = snap.nodes.iter().any(|n| !n.dependents.is_empty());
                    let limited: Vec<usize> =
                        w.u.cstr.iter().enumerate().filter(|(_, k)| k.txs < 10 && k.gas >= 100).map(|(i, _)| i + 1).collect();
                    let c = if has_deps && !limited.is_empty() && rng.chance(1, 2) {
                        *rng.pick(&limited)
                    } else if rng.chance(1, 2) {
                        1
                    } else {
                        c
                    };
                    sim.extract(&mut t, c)
                }
                68..=76 => {
                    let h = height + 1;
                    let mut txs: Vec<String> = vec![];
                    let mut db = sim.abs.clone();
                    let k = rng.below(3);
                    for _ in 0..k {
                        let mut cands: Vec<String> = vec![];
                        // prefer what this pool handed out or still holds
                        let pref: Vec<String> = sim.handed.iter().chain(in_pool.iter()).cloned().collect();
                        let src = if !pref.is_empty() && rng.chance(3, 4) { &pref } else { &names };
                        for x in src {
                            if w.u.valid_on(&db, x)
                                && !txs.contains(x)
                                && !sim.pre.iter().any(|(ph, pt)| *ph > h && pt == x)
                            {
                                cands.push(x.clone());
                            }
                        }
                        if cands.is_empty() {
                            break;
                        }
                        let x = rng.pick(&cands).clone();
                        w.u.apply(&mut db, &x);
                        txs.push(x);
                    }
                    sim.block(&mut t, &txs, h)
                }
                77..=89 => {
                    let pref: Vec<String> = sim.handed.iter().chain(in_pool.iter()).cloned().collect();
                    let x = if !pref.is_empty() && rng.chance(2, 3) { rng.pick(&pref).clone() } else { pick_tx(&mut rng) };
                    let kind = *rng.pick(&["S", "S", "F", "Q"]);
                    if kind == "Q" {
                        return sim.preconf(&mut t, &x, "Q", false, height);
                    }
                    let h = height + rng.below(3) as u32;
                    let outs = rng.chance(1, 2);
                    let valid = h <= height
                        || (!sim.abs.txs.contains(&x)
                            && w.u.tpl[&x].ins.iter().all(|i| match i.k.as_str() {
                                "coin" => w.u.creator_of(&i.key).map(|p| !in_pool.iter().any(|q| q == p)).unwrap_or(true),
                                "contract" => !in_pool.iter().any(|q| w.u.creates(q).contains(&i.key.as_str())),
                                _ => true,
                            }));
                    if valid {
                        sim.preconf(&mut t, &x, kind, outs, h)
                    } else {
                        sim.insert(&mut t, &x)
                    }
                }
                90..=95 => {
                    let mut ids: Vec<String> = vec![];
                    for _ in 0..(1 + rng.below(2)) {
                        let x = if !in_pool.is_empty() && rng.chance(3, 4) { rng.pick(&in_pool).clone() } else { pick_tx(&mut rng) };
                        ids.push(x);
                    }
                    sim.expire(&mut t, &ids)
                }
                _ => sim.expire_pending(&mut t),
            });
            if let Err(p) = r {
                t.event("Panic", json!({"a": "random", "msg": p}));
                break;
            }
        }
    }
    t.finish();
}

/// Prints the real values behind the abstract names (diagnostics).
fn describe(args: &Args) {
    let w = load_world(args);
    for name in &w.u.order {
        let r = &w.txs[name];
        println!(
            "{name} id={} gas={} tip={} size={} price={}",
            r.id,
            r.pool_tx.max_gas(),
            r.pool_tx.tip(),
            r.pool_tx.metered_bytes_size(),
            r.pool_tx.max_gas_price()
        );
    }
}

fn main() {
    let args = Args::parse();
    match args.mode.as_str() {
        "run" => run(&args),
        "random" => random(&args),
        "describe" => describe(&args),
        other => die(&format!("unknown mode {other}")),
    }
}
