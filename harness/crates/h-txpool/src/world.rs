//! Abstract universe (transaction templates printed by TLC from specs/TxPool.tla) and its
//! mapping to real fuel_tx transactions, UTXO ids, nonces, contract ids and a mock chain view.
use fuel_core_storage::{
    Mappable, PredicateStorageRequirements, Result as StorageResult, StorageInspect, StorageRead,
    StorageReadError, StorageSize, transactional::AtomicView,
};
use fuel_core_txpool::verif::TxPoolPersistentStorage;
use fuel_core_types::{
    entities::{
        coins::coin::CompressedCoin,
        relayer::message::{Message, MessageV1},
    },
    fuel_tx::{
        Address, AssetId, BlobBody, BlobId, BlobIdExt, ConsensusParameters, ContractId, FeeParameters, Finalizable,
        Input, Output, Transaction, TransactionBuilder, TxId, TxParameters, TxPointer, UniqueIdentifier, UtxoId,
        Witness,
        field::Outputs,
        output::contract::Contract as OutputContract,
    },
    fuel_types::{ChainId, Nonce},
    fuel_vm::{BlobBytes, BlobData, checked_transaction::IntoChecked},
    services::txpool::{ArcPoolTx, Metadata, PoolTransaction},
};
use h_common::die;
use serde_json::Value;
use std::{
    borrow::Cow,
    collections::{BTreeMap, BTreeSet, HashMap, HashSet},
    sync::{Arc, Mutex},
};

pub const GAS_U: u64 = 1_000_000;
pub const TIP_U: u64 = 1_000;
pub const SIZE_U: usize = 100;
pub const CHAIN_COIN_AMOUNT: u64 = 1_000;
pub const OUT_COIN_AMOUNT: u64 = 10;

#[derive(Clone, Debug)]
pub struct In {
    pub k: String,
    pub key: String,
    pub ok: bool,
}
#[derive(Clone, Debug)]
pub struct Out {
    pub k: String,
    pub key: String,
    pub c: String,
}
#[derive(Clone, Debug)]
pub struct Tpl {
    pub ins: Vec<In>,
    pub outs: Vec<Out>,
    pub tip: u64,
    pub gas: u64,
    pub size: usize,
    pub price: u64,
    pub blob: String,
}
#[derive(Clone, Debug)]
pub struct Cstr {
    pub gas: u64,
    pub txs: u64,
    pub size: u64,
    pub price: u64,
    pub excl: Vec<String>,
}
#[derive(Clone, Debug, Default)]
pub struct AbsDb {
    pub coins: BTreeSet<String>,
    pub msgs: BTreeSet<String>,
    pub contracts: BTreeSet<String>,
    pub txs: BTreeSet<String>,
    pub blobs: BTreeSet<String>,
}
pub struct Consts {
    pub max_txs: usize,
    pub max_gas: u64,
    pub max_size: usize,
    pub chain_limit: usize,
    pub pending_pct: u16,
}
pub struct Universe {
    pub order: Vec<String>,
    pub tpl: BTreeMap<String, Tpl>,
    pub init_db: AbsDb,
    pub cstr: Vec<Cstr>,
    pub consts: Consts,
}

fn s(v: &Value) -> String {
    v.as_str().unwrap_or_else(|| die(&format!("universe: expected string, got {v}"))).to_string()
}
fn n(v: &Value) -> u64 {
    v.as_u64().unwrap_or_else(|| die(&format!("universe: expected number, got {v}")))
}
fn arr(v: &Value) -> &Vec<Value> {
    v.as_array().unwrap_or_else(|| die(&format!("universe: expected array, got {v}")))
}
fn strset(v: &Value) -> BTreeSet<String> {
    arr(v).iter().map(s).collect()
}

impl Universe {
    pub fn load(path: &str) -> Self {
        let txt = std::fs::read_to_string(path).unwrap_or_else(|e| die(&format!("read {path}: {e}")));
        let v: Value = serde_json::from_str(&txt).unwrap_or_else(|e| die(&format!("universe json: {e}")));
        let mut tpl = BTreeMap::new();
        for (name, t) in v["tpl"].as_object().unwrap_or_else(|| die("universe.tpl")) {
            tpl.insert(
                name.clone(),
                Tpl {
                    ins: arr(&t["ins"])
                        .iter()
                        .map(|i| In { k: s(&i["k"]), key: s(&i["key"]), ok: i["ok"].as_bool().unwrap_or(true) })
                        .collect(),
                    outs: arr(&t["outs"])
                        .iter()
                        .map(|o| Out { k: s(&o["k"]), key: s(&o["key"]), c: s(&o["c"]) })
                        .collect(),
                    tip: n(&t["tip"]),
                    gas: n(&t["gas"]),
                    size: n(&t["size"]) as usize,
                    price: n(&t["price"]),
                    blob: s(&t["blob"]),
                },
            );
        }
        let d = &v["db"];
        let c = &v["consts"];
        Universe {
            order: arr(&v["order"]).iter().map(s).collect(),
            tpl,
            init_db: AbsDb {
                coins: strset(&d["coins"]),
                msgs: strset(&d["msgs"]),
                contracts: strset(&d["contracts"]),
                txs: strset(&d["txs"]),
                blobs: strset(&d["blobs"]),
            },
            cstr: arr(&v["cstr"])
                .iter()
                .map(|x| Cstr {
                    gas: n(&x["gas"]),
                    txs: n(&x["txs"]),
                    size: n(&x["size"]),
                    price: n(&x["price"]),
                    excl: arr(&x["excl"]).iter().map(s).collect(),
                })
                .collect(),
            consts: Consts {
                max_txs: n(&c["MaxTxs"]) as usize,
                max_gas: n(&c["MaxGas"]),
                max_size: n(&c["MaxSize"]) as usize,
                chain_limit: n(&c["ChainLimit"]) as usize,
                pending_pct: n(&c["PendingPct"]) as u16,
            },
        }
    }
    pub fn coin_in(&self, t: &str) -> Vec<&In> {
        self.tpl[t].ins.iter().filter(|i| i.k == "coin").collect()
    }
    pub fn creator_of(&self, key: &str) -> Option<&str> {
        self.tpl.iter().find(|(_, t)| t.outs.iter().any(|o| o.k == "coin" && o.key == key)).map(|(n, _)| n.as_str())
    }
    pub fn creates(&self, t: &str) -> Vec<&str> {
        self.tpl[t].outs.iter().filter(|o| o.k == "create").map(|o| o.c.as_str()).collect()
    }
    pub fn valid_on(&self, db: &AbsDb, t: &str) -> bool {
        let tp = &self.tpl[t];
        !db.txs.contains(t)
            && tp.ins.iter().all(|i| {
                i.ok && match i.k.as_str() {
                    "coin" => db.coins.contains(&i.key),
                    "msg" => db.msgs.contains(&i.key),
                    _ => db.contracts.contains(&i.key),
                }
            })
            && tp.outs.iter().all(|o| o.k != "create" || !db.contracts.contains(&o.c))
            && (tp.blob == "none" || !db.blobs.contains(&tp.blob))
    }
    pub fn apply(&self, db: &mut AbsDb, t: &str) {
        let tp = &self.tpl[t];
        for i in &tp.ins {
            match i.k.as_str() {
                "coin" => {
                    db.coins.remove(&i.key);
                }
                "msg" => {
                    db.msgs.remove(&i.key);
                }
                _ => {}
            }
        }
        for o in &tp.outs {
            if o.k == "coin" {
                db.coins.insert(o.key.clone());
            } else if o.k == "create" {
                db.contracts.insert(o.c.clone());
            }
        }
        db.txs.insert(t.to_string());
        if tp.blob != "none" {
            db.blobs.insert(tp.blob.clone());
        }
    }
}

// ------------------------------------------------------------------ mock chain view

#[derive(Default)]
pub struct Data {
    pub coins: HashMap<UtxoId, CompressedCoin>,
    pub contracts: HashSet<ContractId>,
    pub blobs: HashMap<BlobId, BlobBytes>,
    pub messages: HashMap<Nonce, Message>,
    pub transactions: HashSet<TxId>,
}

#[derive(Clone, Default)]
pub struct MockDb {
    pub data: Arc<Mutex<Data>>,
}

impl TxPoolPersistentStorage for MockDb {
    fn contains_tx(&self, tx_id: &TxId) -> StorageResult<bool> {
        Ok(self.data.lock().unwrap().transactions.contains(tx_id))
    }
    fn utxo(&self, utxo_id: &UtxoId) -> StorageResult<Option<CompressedCoin>> {
        Ok(self.data.lock().unwrap().coins.get(utxo_id).cloned())
    }
    fn contract_exist(&self, contract_id: &ContractId) -> StorageResult<bool> {
        Ok(self.data.lock().unwrap().contracts.contains(contract_id))
    }
    fn blob_exist(&self, blob_id: &BlobId) -> StorageResult<bool> {
        Ok(self.data.lock().unwrap().blobs.contains_key(blob_id))
    }
    fn message(&self, id: &Nonce) -> StorageResult<Option<Message>> {
        Ok(self.data.lock().unwrap().messages.get(id).cloned())
    }
}

impl StorageRead<BlobData> for MockDb {
    fn read_exact(
        &self,
        key: &<BlobData as Mappable>::Key,
        offset: usize,
        buf: &mut [u8],
    ) -> Result<core::result::Result<usize, StorageReadError>, ()> {
        let table = self.data.lock().unwrap();
        let Some(value) = table.blobs.get(key) else {
            return Ok(Err(StorageReadError::KeyNotFound));
        };
        let buf_len = buf.len();
        let Some(data) = value.as_ref().get(offset..offset.saturating_add(buf_len)) else {
            return Ok(Err(StorageReadError::OutOfBounds));
        };
        buf.copy_from_slice(data);
        Ok(Ok(buf_len))
    }
    fn read_zerofill(
        &self,
        key: &<BlobData as Mappable>::Key,
        offset: usize,
        buf: &mut [u8],
    ) -> Result<core::result::Result<usize, StorageReadError>, ()> {
        let table = self.data.lock().unwrap();
        let Some(value) = table.blobs.get(key) else {
            return Ok(Err(StorageReadError::KeyNotFound));
        };
        let bytes_len = value.as_ref().len();
        let buf_len = buf.len();
        let Some((_, after)) = value.as_ref().split_at_checked(offset) else {
            return Ok(Err(StorageReadError::OutOfBounds));
        };
        let (dst, rest) = buf.split_at_mut(buf_len.min(after.len()));
        dst.copy_from_slice(&after[..dst.len()]);
        rest.fill(0);
        Ok(Ok(bytes_len))
    }
    fn read_alloc(&self, key: &<BlobData as Mappable>::Key) -> Result<Option<Vec<u8>>, Self::Error> {
        let table = self.data.lock().unwrap();
        Ok(table.blobs.get(key).map(|b| b.clone().into()))
    }
}
impl StorageInspect<BlobData> for MockDb {
    type Error = ();
    fn get(
        &self,
        key: &<BlobData as Mappable>::Key,
    ) -> Result<Option<Cow<'_, <BlobData as Mappable>::OwnedValue>>, Self::Error> {
        let table = self.data.lock().unwrap();
        Ok(table.blobs.get(key).map(|b| Cow::Owned(b.clone())))
    }
    fn contains_key(&self, key: &<BlobData as Mappable>::Key) -> Result<bool, Self::Error> {
        Ok(self.data.lock().unwrap().blobs.contains_key(key))
    }
}
impl StorageSize<BlobData> for MockDb {
    fn size_of_value(&self, key: &<BlobData as Mappable>::Key) -> Result<Option<usize>, Self::Error> {
        Ok(self.data.lock().unwrap().blobs.get(key).map(|blob| blob.0.len()))
    }
}
impl PredicateStorageRequirements for MockDb {
    fn storage_error_to_string(error: Self::Error) -> String {
        format!("{:?}", error)
    }
}

#[derive(Clone)]
pub struct MockDbProvider(pub MockDb);
impl AtomicView for MockDbProvider {
    type LatestView = MockDb;
    fn latest_view(&self) -> StorageResult<Self::LatestView> {
        Ok(self.0.clone())
    }
}

// ------------------------------------------------------------------ real values

pub struct RealTx {
    pub tx: Transaction,
    pub pool_tx: ArcPoolTx,
    pub id: TxId,
}

/// The concrete counterpart of the universe.  Built once; transactions are immutable values.
pub struct World {
    pub u: Universe,
    pub txs: BTreeMap<String, RealTx>,
    pub tx_name: HashMap<TxId, String>,
    pub coin: BTreeMap<String, UtxoId>,
    pub coin_name: HashMap<UtxoId, String>,
    pub msg: BTreeMap<String, Nonce>,
    pub msg_name: HashMap<Nonce, String>,
    pub contract: BTreeMap<String, ContractId>,
    pub contract_name: HashMap<ContractId, String>,
    pub blob: BTreeMap<String, (BlobId, Vec<u8>)>,
    pub owner: Address,
}

fn byte32(tag: u8, name: &str) -> [u8; 32] {
    let mut b = [0u8; 32];
    b[0] = tag;
    for (i, c) in name.bytes().enumerate().take(30) {
        b[1 + i] = c;
    }
    b
}

pub fn consensus_params() -> ConsensusParameters {
    let mut p = ConsensusParameters::standard();
    p.set_fee_params(FeeParameters::default().with_gas_per_byte(1));
    p.set_tx_params(TxParameters::default().with_max_gas_per_tx(u64::MAX / 4));
    p.set_block_gas_limit(u64::MAX / 2);
    p
}

impl World {
    pub fn build(u: Universe) -> Self {
        let owner = Address::new(byte32(0xAA, "owner"));
        let mut w = World {
            u,
            txs: BTreeMap::new(),
            tx_name: HashMap::new(),
            coin: BTreeMap::new(),
            coin_name: HashMap::new(),
            msg: BTreeMap::new(),
            msg_name: HashMap::new(),
            contract: BTreeMap::new(),
            contract_name: HashMap::new(),
            blob: BTreeMap::new(),
            owner,
        };
        let params = consensus_params();
        let order = w.u.order.clone();
        // chain-level names appearing as inputs that are not outputs of templates
        for name in &order {
            let tp = w.u.tpl[name].clone();
            for i in &tp.ins {
                match i.k.as_str() {
                    "coin" if w.u.creator_of(&i.key).is_none() => {
                        let id = UtxoId::new(byte32(0xC0, &i.key).into(), 0);
                        w.coin.insert(i.key.clone(), id);
                        w.coin_name.insert(id, i.key.clone());
                    }
                    "msg" => {
                        let nonce = Nonce::new(byte32(0xE0, &i.key));
                        w.msg.insert(i.key.clone(), nonce);
                        w.msg_name.insert(nonce, i.key.clone());
                    }
                    _ => {}
                }
            }
        }
        for name in &order {
            let tp = w.u.tpl[name].clone();
            let real = w.build_tx(name, &tp, &params);
            for (idx, o) in tp.outs.iter().enumerate() {
                if o.k == "coin" {
                    let id = UtxoId::new(real.id, idx as u16);
                    w.coin.insert(o.key.clone(), id);
                    w.coin_name.insert(id, o.key.clone());
                }
            }
            w.tx_name.insert(real.id, name.clone());
            w.txs.insert(name.clone(), real);
        }
        w
    }

    fn contract_id_for(&mut self, c: &str) -> ContractId {
        if let Some(id) = self.contract.get(c) {
            return *id;
        }
        // a contract that exists only on the chain (never created by a template)
        let id = ContractId::new(byte32(0xD0, c));
        self.contract.insert(c.to_string(), id);
        self.contract_name.insert(id, c.to_string());
        id
    }

    fn inputs_outputs(&mut self, name: &str, tp: &Tpl) -> (Vec<Input>, Vec<Output>) {
        let mut inputs = Vec::new();
        let mut extra_outputs = Vec::new();
        for (idx, i) in tp.ins.iter().enumerate() {
            match i.k.as_str() {
                "coin" => {
                    let utxo = *self.coin.get(&i.key).unwrap_or_else(|| {
                        die(&format!("{name}: input {} is not known yet (order must be topological)", i.key))
                    });
                    let base = if self.u.creator_of(&i.key).is_some() { OUT_COIN_AMOUNT } else { CHAIN_COIN_AMOUNT };
                    let amount = if i.ok { base } else { base + 1 };
                    inputs.push(Input::coin_signed(utxo, self.owner, amount, AssetId::BASE, TxPointer::default(), 0));
                }
                "msg" => {
                    let nonce = self.msg[&i.key];
                    let amount = if i.ok { CHAIN_COIN_AMOUNT } else { CHAIN_COIN_AMOUNT + 1 };
                    inputs.push(Input::message_coin_signed(Address::default(), self.owner, amount, nonce, 0));
                }
                "contract" => {
                    let cid = self.contract_id_for(&i.key);
                    inputs.push(Input::contract(
                        UtxoId::new(byte32(0xD1, &i.key).into(), 0),
                        Default::default(),
                        Default::default(),
                        TxPointer::default(),
                        cid,
                    ));
                    extra_outputs.push(Output::Contract(OutputContract {
                        input_index: idx as u16,
                        balance_root: Default::default(),
                        state_root: Default::default(),
                    }));
                }
                other => die(&format!("unknown input kind {other}")),
            }
        }
        let mut outputs = Vec::new();
        for o in &tp.outs {
            match o.k.as_str() {
                "coin" => outputs.push(Output::coin(self.owner, OUT_COIN_AMOUNT, AssetId::BASE)),
                "create" => {} // added by the Create builder at the same index (must be the first output)
                other => die(&format!("unknown output kind {other}")),
            }
        }
        outputs.extend(extra_outputs);
        (inputs, outputs)
    }

    fn build_tx(&mut self, name: &str, tp: &Tpl, params: &ConsensusParameters) -> RealTx {
        let creates: Vec<&Out> = tp.outs.iter().filter(|o| o.k == "create").collect();
        let (inputs, outputs) = self.inputs_outputs(name, tp);
        let target_gas = tp.gas * GAS_U;
        let metadata = Metadata::new(0, tp.size * SIZE_U, tp.price);
        let tip = tp.tip * TIP_U;
        let chain_id = ChainId::default();
        macro_rules! common {
            ($b:expr) => {{
                $b.with_params(params.clone());
                for i in &inputs {
                    $b.add_input(i.clone());
                }
                for o in &outputs {
                    $b.add_output(o.clone());
                }
                $b.tip(tip);
                $b.max_fee_limit(0);
            }};
        }
        if !creates.is_empty() {
            if creates.len() != 1 || tp.outs[0].k != "create" {
                die("a creating template must have exactly one creation as its first output");
            }
            // same bytecode and salt for the same abstract contract: same contract id
            let code: Vec<u8> = creates[0].c.bytes().chain([0u8; 8]).collect();
            let build = |witness_limit: u64| {
                let mut b = TransactionBuilder::create(code.clone().into(), Default::default(), vec![]);
                b.add_contract_created();
                common!(b);
                b.witness_limit(witness_limit);
                b.finalize_without_signature()
            };
            let wsize = code.len() as u64 + 64;
            let probe = build(wsize).into_checked_basic(1u32.into(), params).unwrap_or_else(|e| die(&format!("{name}: {e:?}")));
            let base = probe.metadata().max_gas;
            let tx = build(wsize + target_gas.checked_sub(base).unwrap_or_else(|| die("gas unit too small")));
            let cid = match tx.outputs()[0] {
                Output::ContractCreated { contract_id, .. } => contract_id,
                _ => die("first output is not the creation"),
            };
            if let Some(prev) = self.contract.get(&creates[0].c) {
                if *prev != cid {
                    die("two templates create different real contracts for the same abstract contract");
                }
            }
            self.contract.insert(creates[0].c.clone(), cid);
            self.contract_name.insert(cid, creates[0].c.clone());
            let id = tx.id(&chain_id);
            let checked = tx.clone().into_checked_basic(1u32.into(), params).unwrap_or_else(|e| die(&format!("{name}: {e:?}")));
            if checked.metadata().max_gas != target_gas {
                die(&format!("{name}: max_gas {} != target {target_gas}", checked.metadata().max_gas));
            }
            let pool_tx = Arc::new(PoolTransaction::Create(checked, metadata));
            RealTx { tx: tx.into(), pool_tx, id }
        } else if tp.blob != "none" {
            let data: Vec<u8> = tp.blob.bytes().chain([7u8; 8]).collect();
            let blob_id = BlobId::compute(&data);
            self.blob.insert(tp.blob.clone(), (blob_id, data.clone()));
            let build = |witness_limit: u64| {
                let mut b = TransactionBuilder::blob(BlobBody { id: blob_id, witness_index: 0 });
                b.add_witness(Witness::from(data.clone()));
                common!(b);
                b.witness_limit(witness_limit);
                b.finalize_without_signature()
            };
            let wsize = data.len() as u64 + 64;
            let probe = build(wsize).into_checked_basic(1u32.into(), params).unwrap_or_else(|e| die(&format!("{name}: {e:?}")));
            let base = probe.metadata().max_gas;
            let tx = build(wsize + target_gas.checked_sub(base).unwrap_or_else(|| die("gas unit too small")));
            let id = tx.id(&chain_id);
            let checked = tx.clone().into_checked_basic(1u32.into(), params).unwrap_or_else(|e| die(&format!("{name}: {e:?}")));
            if checked.metadata().max_gas != target_gas {
                die(&format!("{name}: max_gas {} != target {target_gas}", checked.metadata().max_gas));
            }
            let pool_tx = Arc::new(PoolTransaction::Blob(checked, metadata));
            RealTx { tx: tx.into(), pool_tx, id }
        } else {
            let build = |gas_limit: u64| {
                let mut b = TransactionBuilder::script(vec![], name.as_bytes().to_vec());
                b.add_witness(Witness::default());
                common!(b);
                b.witness_limit(8);
                b.script_gas_limit(gas_limit);
                b.finalize_without_signature()
            };
            let probe = build(0).into_checked_basic(1u32.into(), params).unwrap_or_else(|e| die(&format!("{name}: {e:?}")));
            let base = probe.metadata().max_gas;
            let tx = build(target_gas.checked_sub(base).unwrap_or_else(|| die("gas unit too small")));
            let id = tx.id(&chain_id);
            let checked = tx.clone().into_checked_basic(1u32.into(), params).unwrap_or_else(|e| die(&format!("{name}: {e:?}")));
            if checked.metadata().max_gas != target_gas {
                die(&format!("{name}: max_gas {} != target {target_gas}", checked.metadata().max_gas));
            }
            let pool_tx = Arc::new(PoolTransaction::Script(checked, metadata));
            RealTx { tx: tx.into(), pool_tx, id }
        }
    }

    /// Real outputs of a template transaction that correspond to the template's outputs.
    pub fn template_outputs(&self, name: &str) -> Vec<(UtxoId, Output)> {
        let real = &self.txs[name];
        let outs: Vec<Output> = match &real.tx {
            Transaction::Script(t) => t.outputs().clone(),
            Transaction::Create(t) => t.outputs().clone(),
            Transaction::Blob(t) => t.outputs().clone(),
            _ => vec![],
        };
        let n = self.u.tpl[name].outs.len();
        outs.into_iter().take(n).enumerate().map(|(i, o)| (UtxoId::new(real.id, i as u16), o)).collect()
    }

    /// Makes the mock chain view equal to the abstract one.
    pub fn sync_db(&self, db: &MockDb, abs: &AbsDb) {
        let mut d = db.data.lock().unwrap();
        d.coins.clear();
        for c in &abs.coins {
            let Some(utxo) = self.coin.get(c) else { continue };
            let amount = if self.u.creator_of(c).is_some() { OUT_COIN_AMOUNT } else { CHAIN_COIN_AMOUNT };
            let mut coin = CompressedCoin::default();
            coin.set_owner(self.owner);
            coin.set_amount(amount);
            coin.set_asset_id(AssetId::BASE);
            d.coins.insert(*utxo, coin);
        }
        d.messages.clear();
        for m in &abs.msgs {
            let Some(nonce) = self.msg.get(m) else { continue };
            let message = MessageV1 {
                sender: Address::default(),
                recipient: self.owner,
                nonce: *nonce,
                amount: CHAIN_COIN_AMOUNT,
                data: vec![],
                da_height: Default::default(),
            };
            d.messages.insert(*nonce, message.into());
        }
        d.contracts = abs.contracts.iter().filter_map(|c| self.contract.get(c).copied()).collect();
        d.transactions = abs.txs.iter().filter_map(|t| self.txs.get(t).map(|r| r.id)).collect();
        d.blobs.clear();
        for b in &abs.blobs {
            if let Some((id, data)) = self.blob.get(b) {
                d.blobs.insert(*id, data.clone().into());
            }
        }
    }

    pub fn name_of_tx(&self, id: &TxId) -> String {
        self.tx_name.get(id).cloned().unwrap_or_else(|| format!("?{id}"))
    }
    pub fn name_of_coin(&self, id: &UtxoId) -> String {
        self.coin_name.get(id).cloned().unwrap_or_else(|| format!("?{id}"))
    }
    pub fn name_of_msg(&self, id: &Nonce) -> String {
        self.msg_name.get(id).cloned().unwrap_or_else(|| format!("?{id}"))
    }
    pub fn name_of_contract(&self, id: &ContractId) -> String {
        self.contract_name.get(id).cloned().unwrap_or_else(|| format!("?{id}"))
    }
}
