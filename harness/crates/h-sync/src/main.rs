//! Harness for fuel-core-sync: C28 (State) and C27 (import cache batching).
use fuel_core_sync::{
    import::verif::{get_chunks, ChunkKind},
    state::State,
};
use h_common::*;
use serde_json::Value;
use std::num::NonZeroU32;

fn opt(v: i64) -> Option<u32> {
    if v < 0 { None } else { Some(v as u32) }
}

/// Projection of the private `status` field through the public API only:
/// `process_range()` exposes a Processing range; Committed(h)/Uninitialized are
/// recognised by equality with `State::new(..)` values (State: PartialEq).
fn project(s: &State, max_h: u32) -> Value {
    if let Some(r) = s.process_range() {
        return json!({"k": "P", "lo": *r.start(), "hi": *r.end()});
    }
    if *s == State::new(None, None) {
        return json!({"k": "U", "lo": 0, "hi": 0});
    }
    for h in 0..=max_h.saturating_add(2) {
        if *s == State::new(Some(h), None) {
            return json!({"k": "C", "lo": h, "hi": h});
        }
    }
    // fall back to the Debug text so that an out-of-universe state is still visible
    json!({"k": format!("{s:?}"), "lo": -1, "hi": -1})
}

fn syncstate(args: &Args) {
    let walks = read_walks(args.req("walks"));
    let max_h = args.num("maxh", 8) as u32;
    let mut t = Trace::create(args.req("out"));
    for w in walks {
        t.reset(w.id, json!({}));
        let mut st: Option<State> = None;
        for s in &w.steps {
            match s.name() {
                "New" => {
                    let (c, o) = (s.int("c"), s.int("o"));
                    let n = State::new(opt(c), opt(o));
                    t.event("New", json!({"c": c, "o": o, "st": project(&n, max_h)}));
                    st = Some(n);
                }
                "Commit" => {
                    let h = s.int("h");
                    let x = st.as_mut().unwrap_or_else(|| die("Commit before New"));
                    x.commit(h as u32);
                    t.event("Commit", json!({"h": h, "st": project(x, max_h)}));
                }
                "Observe" => {
                    let h = s.int("h");
                    let x = st.as_mut().unwrap_or_else(|| die("Observe before New"));
                    let res = x.observe(h as u32);
                    t.event("Observe", json!({"h": h, "res": res, "st": project(x, max_h)}));
                }
                "Fail" => {
                    let (lo, hi) = (s.int("lo"), s.int("hi"));
                    let x = st.as_mut().unwrap_or_else(|| die("Fail before New"));
                    #[allow(clippy::reversed_empty_ranges)]
                    x.failed_to_process(lo as u32..=hi as u32);
                    t.event("Fail", json!({"lo": lo, "hi": hi, "st": project(x, max_h)}));
                }
                other => die(&format!("unknown action {other}")),
            }
        }
    }
    t.finish();
}

/// Seeded random driver (I->S): long random histories, including values outside the MC bound
/// are NOT generated (the trace spec's constants bound the universe).
fn syncstate_random(args: &Args) {
    let n = args.num("walks", 100);
    let len = args.num("len", 40);
    let max_h = args.num("maxh", 4) as i64;
    let mut rng = Rng::new(env_seed() ^ 0x5555);
    let mut t = Trace::create(args.req("out"));
    for id in 0..n {
        t.reset(id as i64, json!({}));
        let (c, o) = (rng.range(-1, max_h), rng.range(-1, max_h));
        let mut x = State::new(opt(c), opt(o));
        t.event("New", json!({"c": c, "o": o, "st": project(&x, max_h as u32)}));
        for _ in 0..len {
            match rng.below(3) {
                0 => {
                    let h = rng.range(0, max_h);
                    x.commit(h as u32);
                    t.event("Commit", json!({"h": h, "st": project(&x, max_h as u32)}));
                }
                1 => {
                    let h = rng.range(0, max_h);
                    let res = x.observe(h as u32);
                    t.event("Observe", json!({"h": h, "res": res, "st": project(&x, max_h as u32)}));
                }
                _ => {
                    let (lo, hi) = (rng.range(0, max_h), rng.range(0, max_h));
                    #[allow(clippy::reversed_empty_ranges)]
                    x.failed_to_process(lo as u32..=hi as u32);
                    t.event("Fail", json!({"lo": lo, "hi": hi, "st": project(&x, max_h as u32)}));
                }
            }
        }
    }
    t.finish();
}

/// C27: every (range, batch size, cache content) over 0..=maxh, each case one event.
/// `--part i --parts n` splits the enumeration so that several TLC validators run in parallel.
fn chunker(args: &Args) {
    let max_h = args.num("maxh", 4) as u32;
    let max_size = args.num("maxsize", 5) as u32;
    let (part, parts) = (args.num("part", 0), args.num("parts", 1));
    let mut t = Trace::create(args.req("out"));
    let n = max_h + 1;
    let total = 3u64.pow(n);
    let mut idx: u64 = 0;
    t.reset(part as i64, json!({}));
    for lo in 0..=max_h {
        for hi in lo..=max_h {
            for size in 1..=max_size {
                for code in 0..total {
                    idx += 1;
                    if idx % parts != part {
                        continue;
                    }
                    let mut kinds = Vec::new();
                    let mut cached = Vec::new();
                    let mut c = code;
                    for h in 0..n {
                        let k = c % 3;
                        c /= 3;
                        kinds.push(match k { 0 => "n", 1 => "h", _ => "b" });
                        if k > 0 {
                            cached.push((h, k == 2));
                        }
                    }
                    let r = guarded(|| get_chunks(&cached, lo..=hi, NonZeroU32::new(size).unwrap()));
                    let res = match r {
                        Ok(chunks) => Value::Array(
                            chunks
                                .iter()
                                .map(|c| {
                                    json!({
                                        "k": match c.kind { ChunkKind::Missing => "N", ChunkKind::Headers => "H", ChunkKind::Blocks => "B" },
                                        "s": c.start, "e": c.end, "items": c.items,
                                    })
                                })
                                .collect(),
                        ),
                        Err(p) => json!([{"k": format!("panic: {p}"), "s": 0, "e": 0, "items": []}]),
                    };
                    t.event("Call", json!({"lo": lo, "hi": hi, "size": size, "cache": kinds, "res": res}));
                }
            }
        }
    }
    t.finish();
}

fn main() {
    let args = Args::parse();
    match args.mode.as_str() {
        "syncstate" => syncstate(&args),
        "syncstate-random" => syncstate_random(&args),
        "chunker" => chunker(&args),
        m => die(&format!("unknown mode {m}")),
    }
}
