//! C11 — the three storage backends (MemoryStore, RocksDb, HistoricalRocksDB under a rewind policy) driven
//! through `commit_changes` and read back through `get` / `iter_store` / `iter_store_keys`.
//!
//! Abstract keys are byte strings over a small alphabet.  Column "a" (Coins: no prefix extractor) stores the
//! key bytes as they are; column "b" (ContractsState: fixed 32-byte prefix extractor) stores every abstract
//! byte as a block of 32 equal bytes, which preserves lexicographic order and the prefix relation, so the
//! same abstract oracle applies while RocksDB's prefix-seek machinery is in play.
use crate::{
    classify,
    db_config,
    policy,
};
use fuel_core::{
    database::database_description::on_chain::OnChain,
    state::{
        TransactableStorage,
        historical_rocksdb::HistoricalRocksDB,
        in_memory::memory_store::MemoryStore,
        rocks_db::RocksDb,
    },
};
use fuel_core_storage::{
    column::Column,
    iter::{
        IterDirection,
        IterableStore,
    },
    kv_store::{
        StorageColumn,
        WriteOperation,
    },
    transactional::{
        Changes,
        StorageChanges,
    },
};
use fuel_core_types::fuel_types::BlockHeight;
use h_common::*;
use serde_json::{
    Map,
    Value,
};
use tempfile::TempDir;

const STRETCH: usize = 32;

fn column(c: &str) -> Column {
    match c {
        "a" => Column::Coins,
        "b" => Column::ContractsState,
        _ => die(&format!("unknown column {c}")),
    }
}

fn enc_key(c: &str, k: &[i64]) -> Vec<u8> {
    if c == "b" {
        k.iter().flat_map(|b| std::iter::repeat_n(*b as u8, STRETCH)).collect()
    } else {
        k.iter().map(|b| *b as u8).collect()
    }
}

/// inverse of `enc_key`; anything that is not an image of an abstract key is reported as [-1, len]
fn dec_key(c: &str, k: &[u8]) -> Vec<i64> {
    if c == "b" {
        if k.len() % STRETCH != 0 {
            return vec![-1, k.len() as i64];
        }
        let mut out = Vec::new();
        for chunk in k.chunks(STRETCH) {
            if chunk.iter().any(|b| *b != chunk[0]) {
                return vec![-1, k.len() as i64];
            }
            out.push(chunk[0] as i64);
        }
        out
    } else {
        k.iter().map(|b| *b as i64).collect()
    }
}

fn dec_val(v: &[u8]) -> i64 {
    if v.len() == 1 { v[0] as i64 } else { -1 }
}

enum Backend {
    Mem(MemoryStore<OnChain>),
    Rocks(RocksDb<OnChain>, #[allow(dead_code)] TempDir),
    Hist(HistoricalRocksDB<OnChain>, #[allow(dead_code)] TempDir, u32, String),
}

impl Backend {
    fn new(name: &str) -> Self {
        match name {
            "mem" => Backend::Mem(MemoryStore::default()),
            "rocks" => {
                let dir = TempDir::new().unwrap_or_else(|e| die(&format!("tempdir: {e}")));
                let db = RocksDb::<OnChain>::default_open(dir.path(), db_config())
                    .unwrap_or_else(|e| die(&format!("open rocksdb: {e}")));
                Backend::Rocks(db, dir)
            }
            h if h.starts_with("hist-") => {
                let dir = TempDir::new().unwrap_or_else(|e| die(&format!("tempdir: {e}")));
                let db = HistoricalRocksDB::<OnChain>::default_open(dir.path(), policy(&h[5..]), db_config())
                    .unwrap_or_else(|e| die(&format!("open historical rocksdb: {e}")));
                Backend::Hist(db, dir, 0, h[5..].to_string())
            }
            b => die(&format!("unknown backend {b}")),
        }
    }

    fn commit(&mut self, changes: StorageChanges) -> String {
        let r = match self {
            Backend::Mem(s) => guarded(|| s.commit_changes(None, changes)),
            Backend::Rocks(db, _) => guarded(|| db.commit_changes(&changes)),
            Backend::Hist(db, _, h, _) => {
                // the history-keeping store is committed with consecutive heights, as the node does
                *h += 1;
                let height: BlockHeight = (*h).into();
                guarded(|| db.commit_changes(Some(height), changes))
            }
        };
        match r {
            Ok(Ok(())) => "Ok".to_string(),
            Ok(Err(e)) => classify(&e),
            Err(p) => format!("Panic:{}", p.chars().take(60).collect::<String>()),
        }
    }

    /// close the RocksDB handle and open the same directory again (the in-memory store has nothing to reopen)
    fn reopen(self) -> Self {
        match self {
            Backend::Rocks(db, dir) => {
                drop(db);
                let db = RocksDb::<OnChain>::default_open(dir.path(), db_config())
                    .unwrap_or_else(|e| die(&format!("reopen rocksdb: {e}")));
                Backend::Rocks(db, dir)
            }
            Backend::Hist(db, dir, h, p) => {
                drop(db);
                let db = HistoricalRocksDB::<OnChain>::default_open(dir.path(), policy(&p), db_config())
                    .unwrap_or_else(|e| die(&format!("reopen historical rocksdb: {e}")));
                Backend::Hist(db, dir, h, p)
            }
            m => m,
        }
    }

    fn is_mem(&self) -> bool {
        matches!(self, Backend::Mem(_))
    }

    fn store(&self) -> &dyn IterableStore<Column = Column> {
        match self {
            Backend::Mem(s) => s,
            Backend::Rocks(db, _) => db,
            Backend::Hist(db, _, _, _) => db,
        }
    }
}

fn universe(bytes: &[i64], maxlen: usize) -> Vec<Vec<i64>> {
    let mut keys = vec![vec![]];
    let mut last = vec![vec![]];
    for _ in 0..maxlen {
        let mut next = Vec::new();
        for k in &last {
            for b in bytes {
                let mut k2: Vec<i64> = k.clone();
                k2.push(*b);
                next.push(k2);
            }
        }
        keys.extend(next.iter().cloned());
        last = next;
    }
    keys
}

struct Ctx {
    cols: Vec<String>,
    keys: Vec<Vec<i64>>,
}

fn changes_of(cs: &[Value]) -> Changes {
    let mut ch = Changes::default();
    for o in cs {
        let c = o["c"].as_str().unwrap_or_else(|| die("op.c"));
        let k: Vec<i64> = o["k"].as_array().unwrap_or_else(|| die("op.k")).iter().map(|x| x.as_i64().unwrap()).collect();
        let v = o["v"].as_i64().unwrap_or_else(|| die("op.v"));
        let op = if v == 0 { WriteOperation::Remove } else { WriteOperation::Insert(vec![v as u8].into()) };
        ch.entry(column(c).id()).or_default().insert(enc_key(c, &k).into(), op);
    }
    ch
}

/// full content two ways: forward iteration without bounds, and point lookups of every universe key
fn dump(b: &Backend, ctx: &Ctx) -> (Value, Value) {
    let mut store = Map::new();
    let mut pts = Map::new();
    for c in &ctx.cols {
        let col = column(c);
        let mut items = Vec::new();
        for it in b.store().iter_store(col, None, None, IterDirection::Forward) {
            match it {
                Ok((k, v)) => items.push(json!([dec_key(c, &k), dec_val(&v)])),
                Err(_) => items.push(json!([[-2], -2])),
            }
        }
        store.insert(c.clone(), Value::Array(items));
        let mut got = Vec::new();
        for k in &ctx.keys {
            match b.store().get(&enc_key(c, k), col) {
                Ok(Some(v)) => got.push(json!([k, dec_val(&v)])),
                Ok(None) => {}
                Err(_) => got.push(json!([k, -2])),
            }
        }
        pts.insert(c.clone(), Value::Array(got));
    }
    (Value::Object(store), Value::Object(pts))
}

fn do_commit(t: &mut Trace, b: &mut Backend, ctx: &Ctx, l: &[Value], aslist: bool) {
    let sets: Vec<Changes> = l
        .iter()
        .map(|cs| changes_of(cs.as_array().unwrap_or_else(|| die("change set is not an array"))))
        .collect();
    let changes = if aslist {
        StorageChanges::ChangesList(sets)
    } else {
        if sets.len() != 1 {
            die("single commit needs exactly one change set");
        }
        StorageChanges::Changes(sets.into_iter().next().unwrap())
    };
    let res = b.commit(changes);
    let (store, pts) = dump(b, ctx);
    t.event("Commit", json!({"L": l, "list": aslist, "res": res, "store": store, "pts": pts}));
}

#[allow(clippy::too_many_arguments)]
fn do_query(t: &mut Trace, b: &Backend, c: &str, hp: bool, p: &[i64], hs: bool, s: &[i64], d: &str) {
    let col = column(c);
    let pk = enc_key(c, p);
    let sk = enc_key(c, s);
    let prefix = if hp { Some(pk.as_slice()) } else { None };
    let start = if hs { Some(sk.as_slice()) } else { None };
    let dir = if d == "f" { IterDirection::Forward } else { IterDirection::Reverse };
    let kv: Result<Vec<Value>, String> = guarded(|| {
        b.store()
            .iter_store(col, prefix, start, dir)
            .map(|it| match it {
                Ok((k, v)) => json!([dec_key(c, &k), dec_val(&v)]),
                Err(_) => json!([[-2], -2]),
            })
            .collect()
    });
    let keys: Result<Vec<Value>, String> = guarded(|| {
        b.store()
            .iter_store_keys(col, prefix, start, dir)
            .map(|it| match it {
                Ok(k) => json!(dec_key(c, &k)),
                Err(_) => json!([-2]),
            })
            .collect()
    });
    let kv = kv.unwrap_or_else(|_| vec![json!([[-3], -3])]);
    let keys = keys.unwrap_or_else(|_| vec![json!([-3])]);
    t.event("Query", json!({"c": c, "hp": hp, "p": p, "hs": hs, "s": s, "d": d, "kv": kv, "keys": keys}));
}

fn has_prefix(k: &[i64], p: &[i64]) -> bool {
    k.len() >= p.len() && k[..p.len()] == *p
}

/// every in-contract (prefix, start, direction) on every column
fn scan_all(t: &mut Trace, b: &Backend, ctx: &Ctx) {
    let mut opts: Vec<(bool, Vec<i64>)> = vec![(false, vec![])];
    opts.extend(ctx.keys.iter().map(|k| (true, k.clone())));
    for c in &ctx.cols {
        for (hp, p) in &opts {
            for (hs, s) in &opts {
                if *hp && *hs && !has_prefix(s, p) {
                    continue; // outside the iterator's contract (rocks_db.rs returns nothing, BTreeMap differs)
                }
                for d in ["f", "r"] {
                    do_query(t, b, c, *hp, p, *hs, s, d);
                }
            }
        }
    }
}

fn ctx_of(args: &Args) -> Ctx {
    let bytes: Vec<i64> = args.get("bytes").unwrap_or("0,1,255").split(',').map(|x| x.parse().unwrap()).collect();
    let maxlen = args.num("maxlen", 2) as usize;
    let cols: Vec<String> = args.get("cols").unwrap_or("a,b").split(',').map(|s| s.to_string()).collect();
    Ctx { cols, keys: universe(&bytes, maxlen) }
}

fn ints_of(v: &Value) -> Vec<i64> {
    v.as_array().unwrap_or_else(|| die("expected array")).iter().map(|x| x.as_i64().unwrap()).collect()
}

pub fn run(args: &Args) {
    let ctx = ctx_of(args);
    let walks = read_walks(args.req("walks"));
    let small = args.num("small", 0) == 1; // marks traces of the tiny B1 universe (picked up by --replay)
    let mut t = Trace::create(args.req("out"));
    for w in walks {
        t.reset(w.id, if small { json!({"small": 1}) } else { json!({}) });
        let mut be: Option<Backend> = None;
        for s in &w.steps {
            match s.name() {
                "New" => {
                    let name = s.str_("backend");
                    be = Some(Backend::new(name));
                    t.event("New", json!({"backend": name}));
                }
                "Commit" => {
                    let b = be.as_mut().unwrap_or_else(|| die("Commit before New"));
                    let l = s.get("L").and_then(|v| v.as_array()).unwrap_or_else(|| die("Commit.L"));
                    do_commit(&mut t, b, &ctx, l, s.boolean("list"));
                }
                "Reopen" => {
                    let b = be.take().unwrap_or_else(|| die("Reopen before New")).reopen();
                    let (store, pts) = dump(&b, &ctx);
                    t.event("Reopen", json!({"store": store, "pts": pts}));
                    be = Some(b);
                }
                "Query" => {
                    let b = be.as_ref().unwrap_or_else(|| die("Query before New"));
                    do_query(
                        &mut t,
                        b,
                        s.str_("c"),
                        s.boolean("hp"),
                        &ints_of(&s["p"]),
                        s.boolean("hs"),
                        &ints_of(&s["s"]),
                        s.str_("d"),
                    );
                }
                "ScanAll" => {
                    let b = be.as_ref().unwrap_or_else(|| die("ScanAll before New"));
                    scan_all(&mut t, b, &ctx);
                }
                other => die(&format!("unknown action {other}")),
            }
        }
        drop(be);
    }
    t.finish();
}

/// Seeded random commit histories (single change sets and lists whose change sets overlap in columns, now
/// and then in keys), replayed identically on every backend; `--scan N` walks end with every in-contract query.
pub fn random(args: &Args) {
    let ctx = ctx_of(args);
    let n = args.num("walks", 20);
    let len = args.num("len", 3);
    let scan = args.num("scan", 2);
    let vals: Vec<i64> = args.get("vals").unwrap_or("1,2").split(',').map(|x| x.parse().unwrap()).collect();
    let backends: Vec<String> =
        args.get("backends").unwrap_or("mem,rocks,hist-none,hist-full,hist-r1,hist-r2").split(',').map(|s| s.to_string()).collect();
    let mut rng = Rng::new(env_seed() ^ 0xC11);
    let mut t = Trace::create(args.req("out"));
    let mut id = 0;
    for h in 0..n {
        // one history ...
        let dense = h % 3 == 0; // dense stores make "key equal to the prefix successor" likely
        let mut hist: Vec<(Vec<Value>, bool)> = Vec::new();
        for _ in 0..len {
            let aslist = rng.chance(2, 3);
            let nsets = if aslist { rng.range(1, 3) } else { 1 };
            let mut used: Vec<(String, Vec<i64>)> = Vec::new();
            let mut l = Vec::new();
            for _ in 0..nsets {
                let nops = if dense { rng.range(3, 9) } else { rng.range(0, 4) };
                let mut cs: Vec<Value> = Vec::new();
                let mut mine: Vec<(String, Vec<i64>)> = Vec::new();
                for _ in 0..nops {
                    let c = rng.pick(&ctx.cols).clone();
                    let k = rng.pick(&ctx.keys).clone();
                    if mine.contains(&(c.clone(), k.clone())) {
                        continue;
                    }
                    // a key already written by an earlier change set of this commit: conflict, keep it rare
                    if used.contains(&(c.clone(), k.clone())) && !rng.chance(1, 12) {
                        continue;
                    }
                    let v = if rng.chance(1, 4) { 0 } else { *rng.pick(&vals) };
                    mine.push((c.clone(), k.clone()));
                    cs.push(json!({"c": c, "k": k, "v": v}));
                }
                used.extend(mine);
                l.push(Value::Array(cs));
            }
            hist.push((l, aslist));
        }
        // ... on every backend
        for bn in &backends {
            t.reset(id, json!({}));
            id += 1;
            let mut b = Backend::new(bn);
            t.event("New", json!({"backend": bn}));
            for (l, aslist) in &hist {
                do_commit(&mut t, &mut b, &ctx, l, *aslist);
            }
            if h < scan {
                // every other scan reads from SST files (after a close + open) instead of the memtable
                if h % 2 == 1 && !b.is_mem() {
                    b = b.reopen();
                    let (store, pts) = dump(&b, &ctx);
                    t.event("Reopen", json!({"store": store, "pts": pts}));
                }
                scan_all(&mut t, &b, &ctx);
            }
            drop(b);
        }
    }
    t.finish();
}
