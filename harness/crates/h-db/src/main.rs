//! Harness for the fuel-core database layer:
//!   C09 (`dbheight*`)  Database<D> height linking / reported height, five database kinds,
//!   C11 (`kviter*`)    MemoryStore / RocksDb / HistoricalRocksDB contents and iteration,
//!   C12 (`history*`)   HistoricalRocksDB views / rollbacks across restarts changing the rewind policy.
//! The harness only executes actions on the real objects and logs results + projected state;
//! TLC judges (specs/Trace_DbHeight.tla, Trace_KVIter.tla, Trace_History.tla).
mod dbheight;
mod history;
mod kviter;

use fuel_core::state::{
    historical_rocksdb::StateRewindPolicy,
    rocks_db::DatabaseConfig,
};
use h_common::*;
use std::num::NonZeroU64;

/// Error values are data: map the error text of fuel-core's errors to a short stable tag.
pub fn classify(e: &dyn std::fmt::Display) -> String {
    let s = e.to_string();
    // fuel-core-database errors reach us either directly (Display text) or wrapped into
    // `StorageError::DatabaseError(Box<dyn Error>)`, whose text embeds the Debug form (variant name)
    let has = |a: &str, b: &str| s.contains(a) || s.contains(b);
    let tag = if has("Multiple heights found", "MultipleHeightsInCommit") {
        "MultipleHeightsInCommit"
    } else if has("heights are not linked", "HeightsAreNotLinked") {
        "HeightsAreNotLinked"
    } else if has("new height is not found", "NewHeightIsNotSet") {
        "NewHeightIsNotSet"
    } else if has("Failed to advance the height", "FailedToAdvanceHeight") {
        "FailedToAdvanceHeight"
    } else if has("doesn't have history for the requested height", "NoHistoryForRequestedHeight") {
        "NoHistory"
    } else if has("found conflicting", "ConflictingChanges") {
        "Conflict"
    } else if s.contains("not implemented for `MemoryStore`") {
        "NotImplemented"
    } else if s.contains("doesn't have a height to rollback") {
        "NoHeight"
    } else if has("not found", "NotFound") {
        "NotFound"
    } else {
        return format!("Err:Other:{}", s.chars().take(80).collect::<String>());
    };
    format!("Err:{tag}")
}

pub fn db_config() -> DatabaseConfig {
    DatabaseConfig::config_for_tests()
}

/// "none" | "full" | "r<n>"
pub fn policy(s: &str) -> StateRewindPolicy {
    match s {
        "none" => StateRewindPolicy::NoRewind,
        "full" => StateRewindPolicy::RewindFullRange,
        r if r.starts_with('r') => StateRewindPolicy::RewindRange {
            size: NonZeroU64::new(r[1..].parse().unwrap_or_else(|_| die("bad policy")))
                .unwrap_or_else(|| die("bad policy size")),
        },
        _ => die(&format!("unknown policy {s}")),
    }
}

fn main() {
    let args = Args::parse();
    match args.mode.as_str() {
        "dbheight" => dbheight::run(&args),
        "dbheight-random" => dbheight::random(&args),
        "dbheight-cols" => dbheight::cols(),
        "kviter" => kviter::run(&args),
        "kviter-random" => kviter::random(&args),
        "history" => history::run(&args),
        "history-random" => history::random(&args),
        m => die(&format!("unknown mode {m}")),
    }
}
